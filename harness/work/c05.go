package work

import (
	"bytes"
	"fmt"
	"math/rand/v2"
	"reflect"
	"time"
	"unsafe"

	"github.com/philpearl/plenc/plenccodec"
	"github.com/philpearl/plenc/plenccore"

	"verifharness/core"
	"verifharness/gen"
	"verifharness/model"
	"verifharness/types"
)

// C05: codec laws. Every codec reachable from the generated types is called
// directly, following the calling convention StructCodec itself uses.

type subType struct {
	t   reflect.Type
	opt string
}

// collectSubTypes lists (type, option) pairs in the positions plenc builds codecs for
func collectSubTypes(t reflect.Type, opt string, seen map[subType]bool, out *[]subType) {
	k := subType{t, opt}
	if seen[k] || len(*out) > 60 {
		return
	}
	seen[k] = true
	*out = append(*out, k)
	if t == model.TimeT || t == model.BytesT || t.PkgPath() == model.NullIntT.PkgPath() || t == model.JSONMapT || t == model.JSONArrayT {
		return
	}
	switch t.Kind() {
	case reflect.Ptr:
		collectSubTypes(t.Elem(), opt, seen, out)
	case reflect.Slice:
		collectSubTypes(t.Elem(), "", seen, out)
	case reflect.Map:
		collectSubTypes(t.Key(), "", seen, out)
		collectSubTypes(t.Elem(), "", seen, out)
	case reflect.Struct:
		for _, f := range model.Fields(t) {
			collectSubTypes(f.Type, f.Opt, seen, out)
		}
	}
}

// writePtr / readPtr implement the pointer convention: a map is handed over as
// the map pointer itself for writing and as the address of the map variable for reading
func writePtr(v reflect.Value) unsafe.Pointer {
	if v.Kind() == reflect.Map {
		return v.UnsafePointer()
	}
	return v.Addr().UnsafePointer()
}

var lawTags = []int{1, 15, 16, 2047, 2048, 1 << 28}

func codecLaws(c *core.Ctx, tc *tcase, st subType, codec plenccodec.Codec, v reflect.Value) {
	rec := c.Rec
	// v must be addressable
	av := reflect.New(st.t).Elem()
	av.Set(v)
	wp := writePtr(av)
	wt := codec.WireType()
	desc := func() string {
		return fmt.Sprintf("[%s] codec %T for (%s, %q)\n  value %s", tc.name, codec, typeString(st.t), st.opt, model.Show(av))
	}
	if mw := tc.cfg.WireType(st.t, st.opt); int(wt) != mw {
		rec.Violation("wire-type", fmt.Sprintf("WireType() = %d, the format prescribes %d %s", wt, mw, desc()), nil)
		return
	}
	var body []byte
	var sizeNil int
	if p := core.Guard(func() {
		body = codec.Append(nil, wp, nil)
		sizeNil = codec.Size(wp, nil)
	}); p != "" {
		rec.Violation("codec-panic", "Append/Size panicked "+desc()+"\n"+p, nil)
		return
	}
	rec.Eval(1)
	repeated := tc.cfg.Repeated(st.t, st.opt)
	multi := model.HasMultiMap(av)
	// eqBody compares two untagged encodings of av, up to map entry order when av holds a multi-entry map
	eqBody := func(a, b []byte, t reflect.Type, opt string) bool {
		if bytes.Equal(a, b) {
			return true
		}
		if !multi || len(a) != len(b) {
			return false
		}
		if repeated && t == st.t {
			// the untagged output of a repeated-form codec has no framing of its own
			// (it only exists inside a struct): with a multi-entry map only the length is comparable
			return true
		}
		ca, err1 := tc.cfg.Canon(t, opt, a)
		cb, err2 := tc.cfg.Canon(t, opt, b)
		return err1 == nil && err2 == nil && bytes.Equal(ca, cb)
	}
	if sizeNil != len(body) {
		rec.Violation("size-append", fmt.Sprintf("Size(x, nil) = %d but Append(nil, x, nil) wrote %d bytes %s\n  bytes %s", sizeNil, len(body), desc(), hexHead(body)), nil)
	}
	if model.Omits(tc.cfg, av, st.opt) != codecOmit(codec, wp) {
		rec.Violation("omit", fmt.Sprintf("Omit = %v, the format says %v %s", codecOmit(codec, wp), model.Omits(tc.cfg, av, st.opt), desc()), nil)
	}
	// appending to a prefix must not change what is appended
	pre := []byte{0xde, 0xad}
	if out := codec.Append(pre, wp, nil); len(out) < 2 || !bytes.Equal(out[:2], pre) || !eqBody(out[2:], body, st.t, st.opt) {
		rec.Violation("append-prefix", fmt.Sprintf("Append(prefix, x, nil) = %s, want prefix then %s %s", hexHead(head(out, 60)), hexHead(head(body, 60)), desc()), nil)
	}
	for _, idx := range lawTags {
		tag := plenccore.AppendTag(nil, wt, idx)
		var tagged []byte
		var size int
		if p := core.Guard(func() {
			tagged = codec.Append(nil, wp, tag)
			size = codec.Size(wp, tag)
		}); p != "" {
			rec.Violation("codec-panic", "Append/Size with tag panicked "+desc()+"\n"+p, nil)
			return
		}
		rec.Eval(1)
		if size != len(tagged) {
			rec.Violation("size-append", fmt.Sprintf("Size(x, tag %x) = %d but Append wrote %d bytes %s\n  bytes %s", tag, size, len(tagged), desc(), hexHead(tagged)), nil)
			return
		}
		isNilPtr := av.Kind() == reflect.Ptr && av.IsNil()
		switch {
		case isNilPtr:
			// never called by plenc when Omit is true; whatever is appended must match Size (checked above)
		case repeated:
			checkFrames(c, tc, st, av, tag, tagged, desc, eqBody)
		case wt == plenccore.WTLength:
			want := append(append([]byte{}, tag...), plenccore.AppendVarUint(nil, uint64(len(body)))...)
			hl := len(want)
			want = append(want, body...)
			if len(tagged) != len(want) || !bytes.Equal(tagged[:hl], want[:hl]) || !eqBody(tagged[hl:], body, st.t, st.opt) {
				rec.Violation("framing", fmt.Sprintf("tagged length-delimited encoding is not tag + len(body) + body %s\n  got  %s\n  want %s", desc(), hexHead(tagged), hexHead(want)), nil)
				return
			}
		default:
			want := append(append([]byte{}, tag...), body...)
			if len(tagged) != len(want) || !bytes.HasPrefix(tagged, tag) || !eqBody(tagged[len(tag):], body, st.t, st.opt) {
				rec.Violation("framing", fmt.Sprintf("tagged encoding is not tag + body %s\n  got  %s\n  want %s", desc(), hexHead(tagged), hexHead(want)), nil)
				return
			}
		}
	}
	// reading a body back consumes exactly its length
	if repeated {
		return // read per frame: covered by checkFrames
	}
	for _, trail := range [][]byte{nil, {0x08, 0x01}, {0xff, 0xff, 0x01}} {
		if wt == plenccore.WTLength && trail != nil {
			break // a length-delimited body is handed over exactly
		}
		if trail != nil && len(body) == 0 {
			continue // an empty body only arises for omitted values, which are never followed by anything
		}
		data := append(append([]byte{}, body...), trail...)
		target := reflect.New(st.t)
		var n int
		var err error
		if p := core.Guard(func() { n, err = codec.Read(data, target.UnsafePointer(), wt) }); p != "" {
			rec.Violation("codec-panic", "Read panicked "+desc()+"\n  bytes "+hexHead(data)+"\n"+p, nil)
			return
		}
		rec.Eval(1)
		if err != nil {
			rec.Violation("read-own-body", fmt.Sprintf("Read of the codec's own body failed: %v %s\n  bytes %s", err, desc(), hexHead(data)), nil)
			return
		}
		if n != len(body) {
			rec.Violation("read-length", fmt.Sprintf("Read consumed %d bytes of a %d byte body (+%d trailing) %s\n  bytes %s", n, len(body), len(trail), desc(), hexHead(data)), nil)
			return
		}
		if trail == nil {
			readIntoHeld(c, tc, st, codec, av, body, wt, desc)
		}
		want := tc.cfg.Normalise(av, st.opt, false)
		invalidNull := st.t.PkgPath() == model.NullIntT.PkgPath() && !av.FieldByName("Valid").Bool()
		if d := model.Diff(want, target.Elem(), "$"); d != "" && !invalidNull && !(av.Kind() == reflect.Ptr && av.IsNil()) && !(av.Kind() == reflect.Map && av.IsNil()) {
			rec.Violation("read-value", fmt.Sprintf("Read of the codec's own body gives another value: %s %s\n  bytes %s\n  got %s", d, desc(), hexHead(data), model.Show(target.Elem())), nil)
			return
		}
	}
}

// readIntoHeld: reading a body consumes exactly its length also when the target already holds
// something: an emptied slice with less, exactly enough or more capacity than the elements need
// (then the result is the value, as for a new target), or an arbitrary earlier value (round 12: k05)
func readIntoHeld(c *core.Ctx, tc *tcase, st subType, codec plenccodec.Codec, av reflect.Value, body []byte, wt plenccore.WireType, desc func() string) {
	rec := c.Rec
	if len(body) == 0 || (av.Kind() == reflect.Ptr && av.IsNil()) {
		return
	}
	var targets []reflect.Value
	var sameAsNew []bool
	if st.t.Kind() == reflect.Slice && av.Len() > 0 {
		n := av.Len()
		for _, cp := range []int{1, n / 2, n - 1, n, n + 1, 2*n + 3} {
			if cp < 1 {
				continue
			}
			t := reflect.New(st.t)
			t.Elem().Set(reflect.MakeSlice(st.t, 0, cp))
			targets, sameAsNew = append(targets, t), append(sameAsNew, true)
			// ... and the same capacity still holding stale elements beyond its length
			t2 := reflect.New(st.t)
			full := reflect.MakeSlice(st.t, cp, cp)
			stale := model.DeepCopy(av) // (its own pointees: what a reader does with stale elements is C10's business, not the value's)
			for i := 0; i < cp; i++ {
				full.Index(i).Set(stale.Index(i % n))
			}
			t2.Elem().Set(full.Slice(0, 0))
			targets, sameAsNew = append(targets, t2), append(sameAsNew, true)
		}
	}
	r := rand.New(rand.NewPCG(core.Hash64(string(body)), 5))
	for k := 0; k < 2; k++ {
		t := reflect.New(st.t)
		t.Elem().Set((&gen.VG{R: r, C: tc.cfg, Budget: 40}).Value(st.t, st.opt))
		targets, sameAsNew = append(targets, t), append(sameAsNew, false)
	}
	want := tc.cfg.Normalise(av, st.opt, false)
	for i, target := range targets {
		held := model.Show(target.Elem())
		var n int
		var err error
		if p := core.Guard(func() { n, err = codec.Read(body, target.UnsafePointer(), wt) }); p != "" {
			rec.Violation("codec-panic", "Read into a target that holds something panicked "+desc()+"\n  bytes "+hexHead(body)+"\n  target held "+held+"\n"+p, nil)
			return
		}
		rec.Eval(1)
		rec.Count("reads_into_held_targets", 1)
		if err != nil || n != len(body) {
			rec.Violation("read-length", fmt.Sprintf("Read into a target that already holds something (cap %d) consumed %d bytes of a %d byte body (error %v) %s\n  bytes %s\n  target held %s", capOf(target.Elem()), n, len(body), err, desc(), hexHead(body), held), nil)
			return
		}
		if sameAsNew[i] {
			if d := model.Diff(want, target.Elem(), "$"); d != "" {
				rec.Violation("read-value", fmt.Sprintf("Read into an emptied slice with capacity gives another value than into a new one: %s %s\n  bytes %s\n  got %s", d, desc(), hexHead(body), model.Show(target.Elem())), nil)
				return
			}
		}
	}
}

func capOf(v reflect.Value) int {
	if v.Kind() == reflect.Slice {
		return v.Cap()
	}
	return -1
}

func codecOmit(codec plenccodec.Codec, wp unsafe.Pointer) (o bool) {
	core.Guard(func() { o = codec.Omit(wp) })
	return
}

// checkFrames: the repeated-field form is one tag + len + body frame per element
func checkFrames(c *core.Ctx, tc *tcase, st subType, av reflect.Value, tag, tagged []byte, desc func() string, eqBody func(a, b []byte, t reflect.Type, opt string) bool) {
	rec := c.Rec
	bt := st.t
	bv := av
	for bt.Kind() == reflect.Ptr {
		if bv.IsNil() {
			return
		}
		bt, bv = bt.Elem(), bv.Elem()
	}
	off, frames := 0, 0
	for off < len(tagged) {
		if !bytes.HasPrefix(tagged[off:], tag) {
			rec.Violation("framing", fmt.Sprintf("repeated-field form: frame %d does not start with the tag %x %s\n  bytes %s", frames, tag, desc(), hexHead(tagged)), nil)
			return
		}
		off += len(tag)
		l, n := plenccore.ReadVarUint(tagged[off:])
		if n <= 0 || l > uint64(len(tagged)-off-n) {
			rec.Violation("framing", fmt.Sprintf("repeated-field form: frame %d has a bad length %s\n  bytes %s", frames, desc(), hexHead(tagged)), nil)
			return
		}
		off += n
		fb := tagged[off : off+int(l)]
		off += int(l)
		// the frame's body is the element's (or entry's) untagged encoding
		if bt.Kind() == reflect.Slice {
			if frames >= bv.Len() {
				rec.Violation("framing", fmt.Sprintf("repeated-field form: more frames than the %d elements %s", bv.Len(), desc()), nil)
				return
			}
			want := tc.cfg.ElemBody(bv.Index(frames))
			et := bt.Elem()
			nilElem := et.Kind() == reflect.Ptr && bv.Index(frames).IsNil()
			if (nilElem && len(fb) != 0) || (!nilElem && !eqBody(fb, want, et, "")) {
				rec.Violation("framing", fmt.Sprintf("repeated-field form: frame %d body %s is not element %d's untagged encoding %s %s", frames, hexHead(fb), frames, hexHead(want), desc()), nil)
				return
			}
		} else if _, err := tc.cfg.CanonEntry(bt, fb); err != nil {
			rec.Violation("framing", fmt.Sprintf("repeated-field form: frame %d is not a map entry: %v %s", frames, err, desc()), nil)
			return
		}
		frames++
	}
	if frames != bv.Len() {
		rec.Violation("framing", fmt.Sprintf("repeated-field form: %d frames for %d elements %s\n  bytes %s", frames, bv.Len(), desc(), hexHead(tagged)), nil)
	}
}

// c05PtrPtr: Size and Append of slices of pointers to pointers whose outer pointer is set and inner
// one is nil. Such an element does not come back as it was (one level of presence on the wire:
// known finding D4), which keeps it out of the generated values - but what is appended for it must
// still be what Size announced, or every length prefix around it is wrong.
func c05PtrPtr(c *core.Ctx, idx int) {
	rec := c.Rec
	cfg := instCfgs()[idx%4]
	name := cfgName(cfg)
	p := instNew(cfg)
	r := c.Rand(idx)
	T := reflect.TypeOf
	for _, el := range []reflect.Type{T(""), T(types.Leaf{}), model.TimeT, T([]byte(nil)), T(int32(0)), T(float64(0))} {
		pp := reflect.PointerTo(reflect.PointerTo(el))
		st := reflect.SliceOf(pp)
		for _, opt := range []string{"", "proto"} {
			ht := reflect.StructOf([]reflect.StructField{{Name: "A", Type: T(int8(0)), Tag: `plenc:"1"`}, {Name: "S", Type: st, Tag: reflect.StructTag(`plenc:"2` + map[string]string{"": "", "proto": ",proto"}[opt] + `"`)}, {Name: "Z", Type: T(""), Tag: `plenc:"3"`}})
			if cfg.Validate(ht, "") != "" {
				continue
			}
			codec, err := p.CodecForTypeWithTag(st, opt)
			if err != nil {
				continue
			}
			n := 1 + r.IntN(5)
			sl := reflect.MakeSlice(st, n, n)
			for i := 0; i < n; i++ {
				switch r.IntN(3) {
				case 0: // nil outer
				case 1: // outer set, inner nil
					sl.Index(i).Set(reflect.New(pp.Elem()))
				default:
					inner := reflect.New(el)
					inner.Elem().Set((&gen.VG{R: r, C: cfg, Budget: 10}).Value(el, ""))
					outer := reflect.New(pp.Elem())
					outer.Elem().Set(inner)
					sl.Index(i).Set(outer)
				}
			}
			hold := reflect.New(st)
			hold.Elem().Set(sl)
			ptr := hold.UnsafePointer()
			for _, tag := range [][]byte{nil, {0x12}, {0x82, 0x01}} {
				var size int
				var out []byte
				if pn := core.Guard(func() { size = codec.Size(ptr, tag); out = codec.Append(nil, ptr, tag) }); pn != "" {
					rec.Violation("size-append", fmt.Sprintf("[%s] Size/Append of (%s, %q) panicked: %s", name, st, opt, trunc1(pn)), nil)
					return
				}
				rec.Eval(1)
				if size != len(out) {
					rec.Violation("size-append", fmt.Sprintf("[%s] codec %T for (%s, %q): Size(x, tag %x) = %d but Append wrote %d bytes (%x) for a slice whose elements are nil / point to nil / point to a value", name, codec, st, opt, tag, size, len(out), head(out, 40)), nil)
					return
				}
			}
			// inside a struct inside a struct: the size becomes a length prefix
			hv := reflect.New(ht).Elem()
			hv.Field(0).SetInt(1)
			hv.Field(1).Set(sl)
			hv.Field(2).SetString("z")
			ot := reflect.StructOf([]reflect.StructField{{Name: "H", Type: ht, Tag: `plenc:"1"`}, {Name: "E", Type: T(int8(0)), Tag: `plenc:"2"`}})
			ov := reflect.New(ot).Elem()
			ov.Field(0).Set(hv)
			ov.Field(1).SetInt(-1)
			data, err2, pn := marshal(p, nil, ptrTo(ov))
			if err2 != nil || pn != "" {
				rec.Violation("marshal-error", fmt.Sprintf("[%s] %v %s\n  type %s", name, err2, trunc1(pn), typeString(ot)), nil)
				return
			}
			if _, err := cfg.Canon(ot, "", data); err != nil {
				rec.Violation("walk", fmt.Sprintf("[%s] Marshal output cannot be walked field by field to its end: %v\n  type %s\n  bytes %s", name, err, typeString(ot), hexHead(data)), nil)
				return
			}
			rec.Count("pointer_to_nil_pointer_slices", 1)
			rec.NonTrivial(core.Hash64("pp", st.String(), opt, name, fmt.Sprint(idx)))
		}
	}
}

// c05FailedEncodes: an encode that fails half-way (a JSON value of a type the JSON codecs do not
// know, met after part of the value has been written into the caller's buffer) must leave nothing
// behind: the encodes that follow it on the instance still obey the laws and give the documented
// bytes (round 11: q05).
func c05FailedEncodes(c *core.Ctx, idx int) {
	rec := c.Rec
	r := c.Rand(idx)
	cfg := instCfgs()[idx%4]
	p := instNew(cfg)
	name := cfgName(cfg)
	holder := structOf(sf("A", tInt, `plenc:"1"`), sf("J", model.JSONMapT, `plenc:"2"`), sf("L", model.JSONArrayT, `plenc:"3"`), sf("Z", tString, `plenc:"4"`))
	typs := []reflect.Type{model.JSONMapT, model.JSONArrayT, holder, reflect.MapOf(tString, holder)}
	bad := []any{int64(1), int32(2), float32(1.5), uint(3), struct{}{}, []string{"x"}, map[string]int{"a": 1}, (*int)(nil), complex(1, 2), uint8(7), [2]int{1, 2}, make(chan int), time.Unix(5, 0)}
	buf := make([]byte, 0, 1<<14)
	for round := 0; round < 10; round++ {
		// the value that cannot be encoded: good entries around one value of an unknown type, at some depth
		vg := &gen.VG{R: r, C: cfg, Budget: 60}
		poison := map[string]any{}
		for i, n := 0, 1+r.IntN(8); i < n; i++ {
			poison[fmt.Sprintf("stale-%d-%d", round, i)] = vg.JSON(2, 0)
		}
		b := bad[r.IntN(len(bad))]
		switch r.IntN(4) {
		case 0:
			poison["zz-bad"] = b
		case 1:
			poison["in-array"] = []any{"first", 2, b, "last"}
		case 2:
			poison["in-map"] = map[string]any{"a": 1, "m": b}
		default:
			poison[""] = b
		}
		var pv any = &poison
		switch r.IntN(3) {
		case 1:
			arr := []any{"x", poison, nil}
			pv = &arr
		case 2:
			h := reflect.New(holder)
			h.Elem().Field(0).SetInt(5)
			h.Elem().Field(1).Set(reflect.ValueOf(poison))
			pv = h.Interface()
		}
		var perr error
		dst := buf[:0]
		if r.IntN(5) == 0 {
			dst = nil
		}
		pn := core.Guard(func() { _, perr = p.Marshal(dst, pv) })
		if pn != "" || perr != nil {
			rec.Count("failed_encodes", 1) // (how it fails is not this property's business)
		}
		for _, t := range typs {
			if cfg.ProtoArrays && t.Kind() == reflect.Slice {
				continue
			}
			tc := &tcase{cfg: cfg, name: name, p: p, typ: t}
			v := vg.Value(t, "")
			codec, err := p.CodecForType(t)
			if err != nil {
				rec.Violation("valid-type-rejected", fmt.Sprintf("[%s] %v\n  type %s", name, err, typeString(t)), nil)
				return
			}
			codecLaws(c, tc, subType{t, ""}, codec, v)
			out := buf[:0]
			if r.IntN(2) == 0 {
				out = nil
			}
			got, err, gpn := marshal(p, out, ptrTo(v))
			rec.Eval(1)
			want := cfg.Encode(v)
			var cg, cw []byte
			var cerr error
			if len(got) != 0 || len(want) != 0 { // (a value that is left out has nothing to walk)
				cg, cerr = cfg.Canon(t, "", got)
				cw, _ = cfg.Canon(t, "", want)
			}
			if err != nil || gpn != "" || cerr != nil || !bytes.Equal(cg, cw) {
				rec.Violation("walk", fmt.Sprintf("after an encode that failed half-way on the same instance, Marshal gives bytes that are not the documented encoding [%s]: %v %s %v\n  type %s\n  value %s\n  got  %s\n  want %s", name, err, trunc1(gpn), cerr, typeString(t), model.Show(v), hexHead(got), hexHead(want)), caseExtra(tc, v, got))
				return
			}
			rec.Count("encodes_after_failed_encode", 1)
		}
	}
	rec.NonTrivial(core.Hash64("failed-encodes", fmt.Sprint(idx)))
}

func c05Case(c *core.Ctx, idx int) {
	if idx%23 == 11 {
		c05FailedEncodes(c, idx)
		return
	}
	if idx%19 == 8 {
		c05PtrPtr(c, idx)
		return
	}
	if idx%41 == 13 {
		cfg := instCfgs()[idx%4]
		countedContainers(c, idx, cfg, instNew(cfg))
		return
	}
	tc := genType(c, idx, nil)
	rec := c.Rec
	if _, err := tc.p.CodecForType(tc.typ); err != nil {
		rec.Violation("valid-type-rejected", fmt.Sprintf("[%s] %v\n  type %s", tc.name, err, typeString(tc.typ)), nil)
		return
	}
	var subs []subType
	collectSubTypes(tc.typ, "", map[subType]bool{}, &subs)
	rv := c.RandFor(idx, "values")
	nv := 6
	if c.Thorough() {
		nv = 12
	}
	for _, st := range subs {
		var codec plenccodec.Codec
		var err error
		if p := core.Guard(func() { codec, err = tc.p.CodecForTypeWithTag(st.t, st.opt) }); p != "" || err != nil {
			rec.Violation("codec-for-subtype", fmt.Sprintf("[%s] CodecForTypeWithTag(%s, %q): %v %s", tc.name, typeString(st.t), st.opt, err, p), nil)
			continue
		}
		rec.Distinct("codec_kinds", core.Hash64(fmt.Sprintf("%T", codec)))
		for j := 0; j < nv; j++ {
			vg := &gen.VG{R: rv, C: tc.cfg, Budget: 60, EmptyNumber: true}
			v := vg.Value(st.t, st.opt)
			if j == 0 {
				v = reflect.New(st.t).Elem()
			}
			h, nt := model.ShapeHash(v)
			h ^= core.Hash64(st.t.String(), st.opt, tc.name)
			if nt {
				rec.NonTrivial(h)
			}
			codecLaws(c, tc, st, codec, v)
		}
	}
	// consequence: every Marshal output walks, recursively, to its precise end
	if idx%7 == 5 && tc.typ.Kind() == reflect.Struct {
		sizedBodies(c, idx, tc, (&gen.VG{R: rv, C: tc.cfg, Budget: 60}).Value(tc.typ, ""), modeC02)
	}
	var seenVals []reflect.Value
	var seenRefs [][]byte
	defer func() {
		// ... also when several goroutines use the codecs at once: sizes, length prefixes and bodies
		// of one call must not depend on the values other calls are encoding
		if idx%3 == 2 && len(seenVals) > 1 {
			const g, rounds = 6, 40
			same := func(i int, a, b []byte) bool { return bytes.Equal(a, b) }
			rec.Eval(g * rounds * len(seenVals))
			rec.Count("concurrent_marshal_calls", g*rounds*len(seenVals))
			if d := concurrentMarshals(tc.p, seenVals, seenRefs, same, g, rounds, false); d != "" {
				rec.Violation("walk", fmt.Sprintf("with other goroutines marshalling other values of the type [%s]: %s\n  type %s", tc.name, d, typeString(tc.typ)), caseExtra(tc, reflect.Value{}, nil))
			}
		}
	}()
	for j := 0; j < nv; j++ {
		vg := &gen.VG{R: rv, C: tc.cfg, Budget: 250}
		v := vg.Value(tc.typ, "")
		data, err, pn := marshal(tc.p, nil, ptrTo(v))
		if err != nil || pn != "" {
			rec.Violation("marshal-error", fmt.Sprintf("[%s] %v %s\n  type %s", tc.name, err, pn, typeString(tc.typ)), caseExtra(tc, v, nil))
			return
		}
		rec.Eval(1)
		if len(data) == 0 {
			continue
		}
		if _, err := tc.cfg.Canon(tc.typ, "", data); err != nil {
			rec.Violation("walk", fmt.Sprintf("Marshal output cannot be walked field by field to its end [%s]: %v\n  type %s\n  value %s\n  bytes %s", tc.name, err, typeString(tc.typ), model.Show(v), hexHead(data)), caseExtra(tc, v, data))
			return
		}
		rec.Count("walked_outputs", 1)
		if !model.HasMultiMap(v) {
			seenVals, seenRefs = append(seenVals, model.DeepCopy(v)), append(seenRefs, append([]byte(nil), data...))
		}
		// Size, Append and the length prefixes they produce must agree for the value as it is now,
		// also when the same variable was marshalled before with other content
		if v.CanAddr() && !model.HasMultiMap(v) {
			mutateInPlace(v, &gen.VG{R: rv, C: tc.cfg, Budget: 100}, 0)
			if !model.HasMultiMap(v) {
				again, err, pn := marshal(tc.p, data[:0], ptrTo(v))
				want := tc.cfg.Encode(v)
				rec.Eval(1)
				if err != nil || pn != "" || !bytes.Equal(again, want) {
					rec.Violation("walk", fmt.Sprintf("after changing the value in place, Marshal into the re-used buffer gives bytes that do not match the documented encoding (stale size or length prefix) [%s]: %v %s\n  type %s\n  value %s\n  got  %s\n  want %s", tc.name, err, trunc1(pn), typeString(tc.typ), model.Show(v), hexHead(again), hexHead(want)), caseExtra(tc, v, again))
					return
				}
				rec.Count("walked_after_mutation", 1)
			}
		}
		if rec.WantSample() && len(data) < 60 {
			rec.Sample(map[string]any{"config": tc.name, "type": typeString(tc.typ), "value": model.Show(v), "bytes": fmt.Sprintf("%x", data), "walked": true})
		}
	}
}

func init() {
	core.Register(&core.Prop{
		ID:        "C05",
		Technique: "online checker of the Codec laws on every codec reachable from generated types (direct Size/Append/Read calls with 0/1/2/5-byte tags) + structural walk of every Marshal output",
		Rule: "for every sub-type (field, element, key, value, pointer target; with its tag option) of every generated type the codec plenc builds is called directly on boundary-biased values including omitted ones and the empty json.Number: Size==len(Append) without a tag and with tags of index 1,15,16,2047,2048,2^28; tagged = tag+len+body (one frame per element in the repeated form); Read(body [+trailing bytes]) consumes exactly the body and yields the value, also into emptied slices of every capacity around the element count (with and without stale elements) and into targets that hold an earlier value; every Marshal output is walked by the model's strict parser. " +
			"after changing a value in place the same variable is marshalled again into the re-used buffer; every 23rd case: ten encodes that fail half-way (a JSON value of an unknown type inside a JSON map, array or struct field, written into the caller's buffer), each followed by the laws and the documented bytes for JSON maps, arrays and structs and maps around them on the same instance; every third case ends with 6 goroutines marshalling the case's values at once, each result compared with the call made alone. " +
			"distinct = (sub-type, option, configuration, value-shape) hashes with a non-zero value",
		Assume: []string{"calling convention for map codecs as used by StructCodec (map pointer for writing, address of the map variable for reading)", "model.Canon as the independent walker"},
		Plan: func(tier string) []core.Lane {
			if tier == "thorough" {
				return []core.Lane{{Lane: "plain", Cases: 240000, Shards: 16, TimeoutS: 7200}, {Lane: "race", Cases: 20000, Shards: 16, TimeoutS: 3600}}
			}
			return []core.Lane{{Lane: "plain", Cases: 4000, Shards: 16, TimeoutS: 1200}}
		},
		Case: c05Case,
	})
}
