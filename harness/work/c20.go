package work

import (
	"bytes"
	"fmt"
	"go/ast"
	"go/format"
	"go/importer"
	"go/parser"
	"go/printer"
	"go/scanner"
	"go/token"
	"go/types"
	"math/rand/v2"
	"os"
	"os/exec"
	"path/filepath"
	"reflect"
	"strconv"
	"strings"
	"sync"
	"unicode"
	"unicode/utf8"

	"verifharness/core"
)

// C20: plenctag only adds correct, unique, stable plenc tags and is idempotent.
// The real binary (built by the driver from /repo/cmd/plenctag) is run on
// generated source files; everything is judged by independent parsers.

type c20Flags struct{ w, json, sql, private bool }

func (f c20Flags) args() []string {
	return []string{fmt.Sprintf("-w=%v", f.w), fmt.Sprintf("-json=%v", f.json), fmt.Sprintf("-sql=%v", f.sql), fmt.Sprintf("-private=%v", f.private)}
}

func (f c20Flags) String() string { return strings.Join(f.args(), " ") }

// ---- source generator ----

type srcGen struct {
	r *rand.Rand
	b strings.Builder
	n int
}

func (g *srcGen) tag(allowPlenc bool, next *int) string {
	var parts []string
	if g.r.IntN(3) == 0 {
		parts = append(parts, []string{`json:"a"`, `json:"b,omitempty"`, `json:"-"`, `json:",omitempty"`, `json:"x y"`, `json:"c,omitempty,string"`, `json:"-,"`}[g.r.IntN(7)])
	}
	if g.r.IntN(6) == 0 {
		parts = append(parts, []string{`sql:"-"`, `sql:"col"`}[g.r.IntN(2)])
	}
	if g.r.IntN(8) == 0 {
		parts = append(parts, []string{`xml:"x,attr"`, `yaml:"y"`, `db:"d" validate:"required,min=3"`}[g.r.IntN(3)])
	}
	if g.r.IntN(14) == 0 {
		// keys and values that merely look like plenc's
		parts = append(parts, []string{`oldplenc:"7"`, `help:"stored under plenc: index"`, `xplenc:"-"`, `doc:"plenc:\"3\""`, `plenc2:"1"`}[g.r.IntN(5)])
	}
	if allowPlenc && g.r.IntN(3) == 0 {
		switch g.r.IntN(6) {
		case 0:
			parts = append(parts, `plenc:"-"`)
		default:
			*next += 1 + g.r.IntN(3)
			opt := []string{"", "", "", ",flat", ",intern"}[g.r.IntN(5)]
			parts = append(parts, fmt.Sprintf(`plenc:"%d%s"`, *next, opt))
		}
	}
	if len(parts) == 0 {
		// no keys: usually no tag at all, now and then a tag literal that holds nothing, or only spaces
		if g.r.IntN(12) == 0 {
			return " " + []string{"``", "` `", "`   `", `""`, `" "`}[g.r.IntN(5)]
		}
		return ""
	}
	g.r.Shuffle(len(parts), func(i, j int) { parts[i], parts[j] = parts[j], parts[i] })
	tag := strings.Join(parts, " ")
	switch g.r.IntN(12) {
	case 0:
		// the same tag written as an interpreted string literal
		return " " + strconv.Quote(tag)
	case 1:
		// ... one whose value holds a backquote, which no raw string can
		return " " + strconv.Quote(tag+" doc:\"a`b\"")
	case 2:
		return " ` " + tag + "  `" // padded with spaces
	}
	return " `" + tag + "`"
}

func (g *srcGen) anonStruct(depth int) string {
	var b strings.Builder
	b.WriteString("struct {")
	nf := g.r.IntN(4)
	next := 0
	if nf == 0 {
		b.WriteString("}")
		return b.String()
	}
	b.WriteString("\n")
	for i := 0; i < nf; i++ {
		name := []string{"X", "Y", "Z", "w", "V"}[i%5] + strconv.Itoa(i)
		typ := "int"
		if depth > 0 && g.r.IntN(3) == 0 {
			typ = g.anonStruct(depth - 1)
		}
		fmt.Fprintf(&b, "%s %s%s\n", name, typ, g.tag(true, &next))
	}
	b.WriteString("}")
	return b.String()
}

func (g *srcGen) structBody(generic bool) string {
	var b strings.Builder
	nf := 1 + g.r.IntN(8)
	next := 0
	embedded := map[string]bool{}
	for i := 0; i < nf; i++ {
		if g.r.IntN(6) == 0 {
			fmt.Fprintf(&b, "\t// comment on field %d\n", i)
		}
		name := fmt.Sprintf("%s%d", []string{"A", "B", "c", "D", "e", "F", "_g", "H", "Ấ", "Ḃ", "Ｚ", "Ω", "é", "ж"}[g.r.IntN(14)], i)
		switch k := g.r.IntN(16); {
		case k == 0 && !embedded["Inner"]:
			embedded["Inner"] = true
			fmt.Fprintf(&b, "\tInner%s\n", g.tag(true, &next))
		case k == 1 && !embedded["Ptr"]:
			embedded["Ptr"] = true
			fmt.Fprintf(&b, "\t*Ptr%s\n", g.tag(true, &next))
		case k == 2 && !embedded["Time"]:
			embedded["Time"] = true
			fmt.Fprintf(&b, "\ttime.Time%s\n", g.tag(true, &next))
		case k == 3 && !embedded["lower"]:
			embedded["lower"] = true
			fmt.Fprintf(&b, "\tlower%s\n", g.tag(false, &next))
		case k == 6 && !generic && !embedded["box"] && g.r.IntN(2) == 0:
			// embedded instantiations of generic types, with package-qualified type arguments: the
			// field's name is the generic type's, whatever stands between the brackets
			embedded["box"] = true
			fmt.Fprintf(&b, "\t%s%s\n", []string{"box[time.Time]", "*pair[string, time.Duration]", "Box[time.Time]", "box[int]", "*Box[[]time.Month]"}[g.r.IntN(5)], g.tag(false, &next))
		case k == 4:
			// several names, one tag
			n2 := fmt.Sprintf("%s%dx", []string{"M", "n", "Ẩ", "Ｍ"}[g.r.IntN(4)], i)
			n3 := ""
			if g.r.IntN(2) == 0 {
				n3 = fmt.Sprintf(", %s%dy", []string{"P", "Ṕ"}[g.r.IntN(2)], i)
			}
			// a shared tag cannot hold a pre-existing index: two fields would share it
			fmt.Fprintf(&b, "\t%s, %s%s string%s", name, n2, n3, g.tag(false, &next))
			if g.r.IntN(3) == 0 {
				b.WriteString(" // trailing comment")
			}
			b.WriteString("\n")
		case k == 5:
			fmt.Fprintf(&b, "\t%s %s%s\n", name, g.anonStruct(2), g.tag(true, &next))
		case k == 6:
			fmt.Fprintf(&b, "\t%s []%s%s\n", name, g.anonStruct(1), g.tag(true, &next))
		case k == 7:
			fmt.Fprintf(&b, "\t%s map[string]%s%s\n", name, g.anonStruct(1), g.tag(true, &next))
		case k == 8:
			fmt.Fprintf(&b, "\t%s func(x %s) %s `plenc:\"-\"`\n", name, g.anonStruct(0), g.anonStruct(0))
		case k == 9 && generic:
			fmt.Fprintf(&b, "\t%s P%s\n", name, g.tag(true, &next))
		case k == 10:
			fmt.Fprintf(&b, "\t%s Box[int]%s\n", name, g.tag(true, &next))
		case k == 11:
			fmt.Fprintf(&b, "\t_ int%s\n", g.tag(false, &next))
		default:
			typ := []string{"int", "string", "float64", "bool", "[]byte", "*Inner", "[]Inner", "time.Time", "map[string]int", "int64"}[g.r.IntN(10)]
			fmt.Fprintf(&b, "\t%s %s%s\n", name, typ, g.tag(true, &next))
		}
	}
	return b.String()
}

func c20Source(r *rand.Rand) string {
	g := &srcGen{r: r}
	b := &g.b
	b.WriteString("// Package p is generated for the plenctag check.\npackage p\n\nimport \"time\"\n\nvar _ time.Time\n\n")
	b.WriteString("// Inner is embedded in other structs.\ntype Inner struct {\n\tIA int\n\tib string\n}\n\n// Ptr is embedded by pointer.\ntype Ptr struct{ PA int }\n\ntype lower struct{ la int }\n\n")
	b.WriteString("// Box is generic.\ntype Box[P any] struct {\n\tV    P\n\tnext *Box[P]\n}\n\n")
	b.WriteString("type box[P any] struct{ v P }\n\ntype pair[A, B any] struct {\n\ta A\n\tb B\n}\n\n")
	nt := 1 + r.IntN(4)
	for i := 0; i < nt; i++ {
		if r.IntN(3) == 0 {
			fmt.Fprintf(b, "// T%d has a doc comment.\n", i)
		}
		if r.IntN(6) == 0 {
			fmt.Fprintf(b, "type T%d[P any] struct {\n%s}\n\n", i, g.structBody(true))
		} else {
			fmt.Fprintf(b, "type T%d struct {\n%s}\n\n", i, g.structBody(false))
		}
	}
	if r.IntN(2) == 0 {
		fmt.Fprintf(b, "type (\n\tG0 struct {\n%s\t}\n\tG1 int\n)\n\n", g.structBody(false))
	}
	if r.IntN(2) == 0 {
		fmt.Fprintf(b, "func local() {\n\ttype loc struct {\n%s\t}\n\tvar x = %s{}\n\t_, _ = x, loc{}\n}\n\n", g.structBody(false), g.anonStruct(1))
	}
	if r.IntN(3) == 0 {
		fmt.Fprintf(b, "func sig(a %s, b ...int) (r %s) { return }\n\n", g.anonStruct(1), g.anonStruct(0))
	}
	if r.IntN(3) == 0 {
		b.WriteString("var V = []struct {\n\tName string\n\tn    int\n}{{\"a\", 1}, {Name: \"b\"}}\n\n")
	}
	b.WriteString("const K = 3\n")
	src, err := format.Source([]byte(b.String()))
	if err != nil {
		return b.String()
	}
	if r.IntN(4) == 0 {
		// not every input has been through gofmt: number literals in the spellings it would rewrite
		return string(src) + "\nconst (\n\tMask = 0XFF\n\tBig  = 1E9\n\tBin  = 0B101\n\tOct  = 0O17\n\tHexf = 0X1P4\n\tIm   = 1E3i\n)\n"
	}
	if r.IntN(5) == 0 {
		// ... or has come from an editor that leaves carriage returns, runs of blank lines and blank
		// lines at the end: the rewritten file is then shorter than the one that was read
		s := string(src)
		if r.IntN(2) == 0 {
			s = strings.ReplaceAll(s, "\n\n", "\n\n\n\n\n")
		}
		if r.IntN(2) == 0 {
			s = strings.ReplaceAll(s, "\n", "\r\n")
		}
		return s + strings.Repeat("\n", 40+r.IntN(600))
	}
	return string(src)
}

// ---- independent analysis of a source file ----

type c20Field struct {
	name     string
	typ      string
	tag      string // unquoted, "" when absent
	hasTag   bool
	embedded bool
}

type c20Struct struct{ fields []c20Field }

func exprString(fset *token.FileSet, e ast.Expr) string {
	var b bytes.Buffer
	printer.Fprint(&b, fset, e)
	return b.String()
}

func embeddedName(e ast.Expr) string {
	for {
		switch t := e.(type) {
		case *ast.StarExpr:
			e = t.X
		case *ast.ParenExpr:
			e = t.X
		case *ast.IndexExpr:
			e = t.X
		case *ast.IndexListExpr:
			e = t.X
		case *ast.SelectorExpr:
			return t.Sel.Name
		case *ast.Ident:
			return t.Name
		default:
			return ""
		}
	}
}

// typeSansTags renders a type expression with every struct tag blanked
func typeSansTags(fset *token.FileSet, e ast.Expr) string {
	// a private copy of the expression (re-parsed from its own rendering) whose tag literals are
	// removed from the tree: raw, interpreted and empty literals alike
	s := exprString(fset, e)
	cp, err := parser.ParseExpr(s)
	if err != nil {
		return stripTags(s)
	}
	ast.Inspect(cp, func(n ast.Node) bool {
		if fl, ok := n.(*ast.Field); ok {
			fl.Tag = nil
		}
		return true
	})
	return strings.Join(strings.Fields(exprString(token.NewFileSet(), cp)), " ")
}

func stripTags(s string) string {
	// remove back-quoted and double-quoted tag literals that follow a field declaration: crude but
	// deterministic - the input and the output are rendered by the same printer
	var out strings.Builder
	in := false
	for i := 0; i < len(s); i++ {
		if s[i] == '`' {
			in = !in
			continue
		}
		if !in {
			out.WriteByte(s[i])
		}
	}
	// the printer aligns columns: collapse runs of blanks
	return strings.Join(strings.Fields(out.String()), " ")
}

func analyse(src string) (*token.FileSet, *ast.File, []c20Struct, error) {
	fset := token.NewFileSet()
	f, err := parser.ParseFile(fset, "in.go", src, parser.ParseComments)
	if err != nil {
		return nil, nil, nil, err
	}
	var out []c20Struct
	ast.Inspect(f, func(n ast.Node) bool {
		st, ok := n.(*ast.StructType)
		if !ok {
			return true
		}
		var s c20Struct
		for _, fl := range st.Fields.List {
			tag, has := "", false
			if fl.Tag != nil {
				if u, err := strconv.Unquote(fl.Tag.Value); err == nil {
					tag, has = u, true
				}
			}
			typ := typeSansTags(fset, fl.Type)
			if len(fl.Names) == 0 {
				s.fields = append(s.fields, c20Field{name: embeddedName(fl.Type), typ: typ, tag: tag, hasTag: has, embedded: true})
				continue
			}
			for _, nm := range fl.Names {
				s.fields = append(s.fields, c20Field{name: nm.Name, typ: typ, tag: tag, hasTag: has})
			}
		}
		out = append(out, s)
		return true
	})
	return fset, f, out, nil
}

// tagPairs parses a conventional struct tag into ordered key/value pairs
func tagPairs(tag string) (pairs [][2]string, ok bool) {
	for tag != "" {
		i := 0
		for i < len(tag) && tag[i] == ' ' {
			i++
		}
		tag = tag[i:]
		if tag == "" {
			break
		}
		i = 0
		for i < len(tag) && tag[i] > ' ' && tag[i] != ':' && tag[i] != '"' && tag[i] != 0x7f {
			i++
		}
		if i == 0 || i+1 >= len(tag) || tag[i] != ':' || tag[i+1] != '"' {
			return pairs, false
		}
		name := tag[:i]
		tag = tag[i+1:]
		i = 1
		for i < len(tag) && tag[i] != '"' {
			if tag[i] == '\\' {
				i++
			}
			i++
		}
		if i >= len(tag) {
			return pairs, false
		}
		val, err := strconv.Unquote(tag[:i+1])
		if err != nil {
			return pairs, false
		}
		tag = tag[i+1:]
		pairs = append(pairs, [2]string{name, val})
	}
	return pairs, true
}

func lookup(pairs [][2]string, key string) (string, bool) {
	for _, p := range pairs {
		if p[0] == key {
			return p[1], true
		}
	}
	return "", false
}

func isLowerName(name string) bool {
	r, _ := utf8.DecodeRuneInString(name)
	return unicode.IsLower(r)
}

// declsSansTags renders the whole file with struct tags blanked and multi-name fields split, for the "nothing but tags changed" comparison
func fileSansTags(src string) (string, error) {
	fset := token.NewFileSet()
	f, err := parser.ParseFile(fset, "x.go", src, parser.ParseComments)
	if err != nil {
		return "", err
	}
	var comments []string
	for _, cg := range f.Comments {
		comments = append(comments, strings.Join(strings.Fields(cg.Text()), " "))
	}
	ast.Inspect(f, func(n ast.Node) bool {
		switch x := n.(type) {
		case *ast.GenDecl:
			x.Doc = nil
		case *ast.FuncDecl:
			x.Doc = nil
		case *ast.TypeSpec:
			x.Doc, x.Comment = nil, nil
		case *ast.ValueSpec:
			x.Doc, x.Comment = nil, nil
		case *ast.ImportSpec:
			x.Doc, x.Comment = nil, nil
		case *ast.Field:
			x.Doc, x.Comment = nil, nil
		}
		st, ok := n.(*ast.StructType)
		if !ok {
			return true
		}
		var list []*ast.Field
		for _, fl := range st.Fields.List {
			fl.Tag = nil
			fl.Doc, fl.Comment = nil, nil
			if len(fl.Names) <= 1 {
				list = append(list, fl)
				continue
			}
			for _, nm := range fl.Names {
				list = append(list, &ast.Field{Names: []*ast.Ident{ast.NewIdent(nm.Name)}, Type: fl.Type})
			}
		}
		st.Fields.List = list
		return true
	})
	f.Comments = nil
	f.Doc = nil
	var b bytes.Buffer
	if err := (&printer.Config{Mode: printer.RawFormat}).Fprint(&b, fset, f); err != nil {
		return "", err
	}
	// compare token streams: layout (one-line vs multi-line structs, alignment) is not content
	var toks []string
	var sc scanner.Scanner
	fs2 := token.NewFileSet()
	sc.Init(fs2.AddFile("x.go", fs2.Base(), b.Len()), b.Bytes(), nil, 0)
	for {
		_, tok, lit := sc.Scan()
		if tok == token.EOF {
			break
		}
		if tok == token.SEMICOLON {
			continue
		}
		if tok == token.INT || tok == token.FLOAT || tok == token.IMAG {
			// gofmt writes 0XFF as 0xFF and 1E9 as 1e9: the same literal
			toks = append(toks, strings.ToLower(lit))
		} else if lit != "" {
			toks = append(toks, lit)
		} else {
			toks = append(toks, tok.String())
		}
	}
	return strings.Join(toks, " ") + "\n//" + strings.Join(comments, "|"), nil
}

var (
	c20ImporterOnce sync.Once
	c20Importer     types.Importer
)

func typeChecks(src string) error {
	c20ImporterOnce.Do(func() { c20Importer = importer.ForCompiler(token.NewFileSet(), "source", nil) })
	fset := token.NewFileSet()
	f, err := parser.ParseFile(fset, "x.go", src, 0)
	if err != nil {
		return err
	}
	conf := types.Config{Importer: c20Importer}
	_, err = conf.Check("p", fset, []*ast.File{f}, nil)
	return err
}

func runTool(bin string, dir string, src string, fl c20Flags) (out string, stderr string, code int, err error) {
	fn := filepath.Join(dir, "in.go")
	if err := os.WriteFile(fn, []byte(src), 0o644); err != nil {
		return "", "", 0, err
	}
	cmd := exec.Command(bin, append(fl.args(), fn)...)
	var so, se bytes.Buffer
	cmd.Stdout, cmd.Stderr = &so, &se
	cmd.Run()
	code = cmd.ProcessState.ExitCode()
	if fl.w {
		b, err := os.ReadFile(fn)
		if err != nil {
			return "", se.String(), code, err
		}
		return string(b), se.String(), code, nil
	}
	// fmt.Println adds one newline after the formatted source
	return strings.TrimSuffix(so.String(), "\n"), se.String(), code, nil
}

// checkTags applies the tag rules of the statement, struct by struct
func checkTags(in, out []c20Struct, fl c20Flags) string {
	if len(in) != len(out) {
		return fmt.Sprintf("%d struct types in the input, %d in the output", len(in), len(out))
	}
	for si := range in {
		a, b := in[si], out[si]
		if len(a.fields) != len(b.fields) {
			return fmt.Sprintf("struct %d: %d fields in, %d out", si, len(a.fields), len(b.fields))
		}
		prevMax := 0
		seen := map[int]string{}
		for _, f := range a.fields {
			if pairs, ok := tagPairs(f.tag); ok {
				if v, has := lookup(pairs, "plenc"); has {
					is, _, _ := strings.Cut(v, ",")
					if n, err := strconv.Atoi(is); err == nil {
						if n > prevMax {
							prevMax = n
						}
					}
				}
			}
		}
		for fi := range a.fields {
			fa, fb := a.fields[fi], b.fields[fi]
			where := fmt.Sprintf("struct %d field %s", si, fa.name)
			if fa.name != fb.name || fa.typ != fb.typ || fa.embedded != fb.embedded {
				return fmt.Sprintf("%s: declaration changed to %s %s", where, fb.name, fb.typ)
			}
			pa, oka := tagPairs(fa.tag)
			pb, okb := tagPairs(fb.tag)
			if !oka {
				continue // malformed input tag: nothing is demanded
			}
			if !okb {
				return fmt.Sprintf("%s: output tag %q is malformed", where, fb.tag)
			}
			// every other key kept as it was, in order
			var oa, ob [][2]string
			for _, p := range pa {
				if p[0] != "plenc" {
					oa = append(oa, p)
				}
			}
			for _, p := range pb {
				if p[0] != "plenc" {
					ob = append(ob, p)
				}
			}
			if fmt.Sprint(oa) != fmt.Sprint(ob) {
				return fmt.Sprintf("%s: other tag keys changed from %q to %q", where, fa.tag, fb.tag)
			}
			va, hadPlenc := lookup(pa, "plenc")
			vb, hasPlenc := lookup(pb, "plenc")
			if hadPlenc {
				if !hasPlenc || va != vb {
					return fmt.Sprintf("%s: existing plenc tag %q changed to %q", where, va, vb)
				}
				if n, err := strconv.Atoi(strings.Split(va, ",")[0]); err == nil {
					seen[n] = fa.name
				}
				continue
			}
			if fl.private && isLowerName(fa.name) {
				if hasPlenc {
					return fmt.Sprintf("%s: unexported field was given plenc:%q although -private is set", where, vb)
				}
				continue
			}
			if !hasPlenc {
				return fmt.Sprintf("%s: eligible field was left without a plenc tag (output tag %q)", where, fb.tag)
			}
			sqlV, hasSQL := lookup(pa, "sql")
			jsonV, hasJSON := lookup(pa, "json")
			excluded := (fl.sql && hasSQL && strings.Split(sqlV, ",")[0] == "-") || (fl.json && hasJSON && strings.Split(jsonV, ",")[0] == "-")
			if excluded {
				if vb != "-" {
					return fmt.Sprintf("%s: excluded field got plenc:%q, want \"-\"", where, vb)
				}
				continue
			}
			n, err := strconv.Atoi(vb)
			if err != nil {
				return fmt.Sprintf("%s: new plenc tag %q is not an index", where, vb)
			}
			if n <= prevMax {
				return fmt.Sprintf("%s: new index %d is not greater than the largest index already present in the struct (%d)", where, n, prevMax)
			}
			if other, dup := seen[n]; dup {
				return fmt.Sprintf("%s: new index %d is also the index of field %s", where, n, other)
			}
			seen[n] = fa.name
		}
	}
	return ""
}

// twinType builds a reflect twin of a struct of the output: one int field per declared name, with the output's tags
func twinType(s c20Struct) (reflect.Type, bool) {
	var fs []reflect.StructField
	names := map[string]bool{}
	for i, f := range s.fields {
		name := f.name
		if name == "_" || name == "" {
			name = fmt.Sprintf("blank%d", i)
		}
		if names[name] {
			return nil, false
		}
		names[name] = true
		sf := reflect.StructField{Name: name, Type: tInt, Tag: reflect.StructTag(f.tag)}
		if !token.IsExported(name) {
			sf.PkgPath = "verifharness/twin"
		}
		fs = append(fs, sf)
	}
	var t reflect.Type
	if pn := core.Guard(func() { t = reflect.StructOf(fs) }); pn != "" {
		return nil, false
	}
	return t, true
}

func c20Case(c *core.Ctx, idx int) {
	rec := c.Rec
	bin := os.Getenv("VERIF_PLENCTAG")
	if bin == "" {
		rec.Violation("harness", "VERIF_PLENCTAG not set", nil)
		return
	}
	dir, err := os.MkdirTemp(os.Getenv("VERIF_SCRATCH"), "c20-")
	if err != nil {
		rec.Violation("harness", err.Error(), nil)
		return
	}
	defer os.RemoveAll(dir)
	r := c.Rand(idx)

	if idx%50 == 49 {
		// errors are reported, not crashes
		for k, bad := range []string{"package p\n\ntype T struct {\n\tA int `json:\"a`\n}\n", "package p\n\ntype T struct { A int\n", "not go at all", "package p\n\ntype T struct {\n\tA int `plenc:\"x\"`\n}\n", ""} {
			_, stderr, code, _ := runTool(bin, dir, bad, c20Flags{w: true, sql: true, private: true})
			rec.Eval(1)
			if code == 2 || strings.Contains(stderr, "panic:") || strings.Contains(stderr, "goroutine ") {
				rec.Violation("plenctag-crash", fmt.Sprintf("plenctag crashed (exit %d) on malformed input %d: %s", code, k, trunc1(stderr)), map[string]any{"source": bad})
				return
			}
			if k < 3 && code == 0 {
				rec.Violation("plenctag-error", fmt.Sprintf("plenctag exits 0 on input it cannot process (case %d)", k), map[string]any{"source": bad})
				return
			}
		}
		cmd := exec.Command(bin, filepath.Join(dir, "does-not-exist.go"))
		var se bytes.Buffer
		cmd.Stderr = &se
		cmd.Run()
		if cmd.ProcessState.ExitCode() == 0 || cmd.ProcessState.ExitCode() == 2 || strings.Contains(se.String(), "panic:") {
			rec.Violation("plenctag-error", fmt.Sprintf("unreadable path: exit %d %s", cmd.ProcessState.ExitCode(), trunc1(se.String())), nil)
		}
		rec.Count("error_inputs", 6)
		return
	}

	src := c20Source(r)
	_, _, inStructs, err := analyse(src)
	if err != nil {
		rec.Violation("harness", "generated source does not parse: "+err.Error()+"\n"+src, nil)
		return
	}
	inChecks := typeChecks(src) == nil
	if inChecks {
		rec.Count("inputs_that_type_check", 1)
	}
	inSans, _ := fileSansTags(src)
	p := newDefault()
	for m := 0; m < 16; m++ {
		fl := c20Flags{w: m&1 != 0, json: m&2 != 0, sql: m&4 != 0, private: m&8 != 0}
		out, stderr, code, err := runTool(bin, dir, src, fl)
		rec.Eval(1)
		extra := map[string]any{"flags": fl.String(), "source": src}
		if err != nil {
			rec.Violation("harness", err.Error(), extra)
			return
		}
		if code == 2 || strings.Contains(stderr, "panic:") {
			rec.Violation("plenctag-crash", fmt.Sprintf("plenctag %s crashed (exit %d): %s\n--- input\n%s", fl, code, trunc1(stderr), src), extra)
			return
		}
		if code != 0 {
			rec.Violation("plenctag-error", fmt.Sprintf("plenctag %s fails (exit %d) on a parseable file: %s\n--- input\n%s", fl, code, trunc1(stderr), src), extra)
			return
		}
		_, _, outStructs, err := analyse(out)
		if err != nil {
			rec.Violation("output-unparsable", fmt.Sprintf("plenctag %s: the output does not parse: %v\n--- output\n%s", fl, err, out), extra)
			return
		}
		// nothing but struct tags changed
		outSans, _ := fileSansTags(out)
		if inSans != outSans {
			rec.Violation("changed-more-than-tags", fmt.Sprintf("plenctag %s changed something other than struct tags\n--- input (tags blanked, multi-name fields split)\n%s\n--- output\n%s", fl, inSans, outSans), extra)
			return
		}
		if d := checkTags(inStructs, outStructs, fl); d != "" {
			rec.Violation("tag-rule", fmt.Sprintf("plenctag %s: %s\n--- input\n%s\n--- output\n%s", fl, d, src, out), extra)
			return
		}
		// gofmt-formatted
		if fmted, err := format.Source([]byte(out)); err != nil || string(fmted) != out {
			rec.Violation("not-gofmt", fmt.Sprintf("plenctag %s: the output is not gofmt-formatted (%v)\n--- output\n%s", fl, err, out), extra)
			return
		}
		// still compiles
		if inChecks {
			if err := typeChecks(out); err != nil {
				rec.Violation("no-longer-compiles", fmt.Sprintf("plenctag %s: the input type-checks, the output does not: %v\n--- output\n%s", fl, err, out), extra)
				return
			}
		}
		// plenc builds a codec for every tagged struct without tag errors
		for si, s := range outStructs {
			tw, ok := twinType(s)
			if !ok {
				continue
			}
			var cerr error
			if pn := core.Guard(func() { _, cerr = p.CodecForType(tw) }); pn != "" {
				rec.Violation("plenc-rejects-output", fmt.Sprintf("plenctag %s: plenc panics on the tags of struct %d: %s\n--- output\n%s", fl, si, pn, out), extra)
				return
			}
			if cerr != nil {
				// a tag error is only plenctag's doing if every eligible field was its responsibility:
				// with -private=false all fields are tagged; with -private=true unexported ones are skipped by plenc too
				rec.Violation("plenc-rejects-output", fmt.Sprintf("plenctag %s: plenc reports a tag error for struct %d of the output: %v\n--- output\n%s", fl, si, cerr, out), extra)
				return
			}
			rec.Count("twin_codecs_built", 1)
		}
		// a second run changes nothing
		out2, stderr2, code2, _ := runTool(bin, dir, out, fl)
		rec.Eval(1)
		if code2 != 0 || out2 != out {
			rec.Violation("not-idempotent", fmt.Sprintf("plenctag %s: a second run changes the file (exit %d %s)\n--- first output\n%s\n--- second output\n%s", fl, code2, trunc1(stderr2), out, out2), extra)
			return
		}
		rec.NonTrivial(core.Hash64(src, fl.String()))
		if m == 13 && rec.WantSample() && len(src) < 900 {
			rec.Sample(map[string]any{"flags": fl.String(), "input": src, "output": out})
		}
	}
	// several files in one invocation: each comes out as it does when it is the only one
	if idx%3 == 1 {
		fl := c20Flags{w: true, json: idx%2 == 0, sql: true, private: true}
		srcs := []string{src, c20Source(r), c20Source(r)}
		var single []string
		for _, s := range srcs {
			o, _, code, err := runTool(bin, dir, s, fl)
			if err != nil || code != 0 {
				return // (the single-file checks above report what is wrong with a file)
			}
			single = append(single, o)
		}
		var names []string
		for i, s := range srcs {
			fn := filepath.Join(dir, fmt.Sprintf("multi%d.go", i))
			if err := os.WriteFile(fn, []byte(s), 0o644); err != nil {
				rec.Violation("harness", err.Error(), nil)
				return
			}
			names = append(names, fn)
		}
		cmd := exec.Command(bin, append(fl.args(), names...)...)
		var se bytes.Buffer
		cmd.Stderr = &se
		cmd.Run()
		rec.Eval(1)
		if code := cmd.ProcessState.ExitCode(); code != 0 {
			rec.Violation("plenctag-error", fmt.Sprintf("plenctag %s on three files at once fails (exit %d), on each of them alone it succeeds: %s", fl, code, trunc1(se.String())), map[string]any{"flags": fl.String(), "sources": srcs})
			return
		}
		for i, fn := range names {
			b, _ := os.ReadFile(fn)
			if string(b) != single[i] {
				rec.Violation("changed-more-than-tags", fmt.Sprintf("plenctag %s on three files at once: file %d comes out differently from a run on that file alone\n--- alone\n%s\n--- as one of three\n%s", fl, i+1, single[i], string(b)), map[string]any{"flags": fl.String(), "sources": srcs})
				return
			}
		}
		rec.Count("multi_file_invocations", 1)
	}
}

func init() {
	core.Register(&core.Prop{
		ID:        "C20",
		Technique: "black-box monitor of the real plenctag binary (built from /repo) on generated Go files under all 16 flag combinations: AST comparison with tags blanked, independent re-statement of the tag rules, gofmt fixed point, go/types check, the real CodecForType on reflect twins of the output's structs, second-run idempotence",
		Rule:      "generated files (one in four with number literals gofmt would rewrite, one in five with carriage returns, runs of blank lines and hundreds of blank lines at the end): named, grouped, generic and function-local struct types, anonymous and nested anonymous structs as field / slice element / map value / function parameter and result / composite literal, embedded T, *T, pkg.T and unexported types, multi-name fields, blank fields, doc and trailing comments, no / partial / complete plenc tags with options, other keys in random order incl. json:\"-\" and sql:\"-\"; every file under the 16 combinations of -w -json -sql -private, every third also as one of three files of one invocation, plus unparsable sources, malformed tags and an unreadable path. distinct = (file, flag set) pairs that passed every check",
		Assume:    []string{"for -w=false the result is what the tool prints minus the newline fmt.Println adds", "go/parser, go/format, go/types (source importer) as independent judges", "twin structs use int for every field type: only tag errors are in question"},
		Plan: func(tier string) []core.Lane {
			if tier == "thorough" {
				return []core.Lane{{Lane: "plain", Cases: 20000, Shards: 16, TimeoutS: 7200, Plenctag: true}}
			}
			return []core.Lane{{Lane: "plain", Cases: 320, Shards: 16, TimeoutS: 1800, Plenctag: true}}
		},
		Case: c20Case,
	})
}
