package work

import (
	"bytes"
	"encoding/json"
	"fmt"
	"math/rand/v2"
	"reflect"
	"sync"
	"time"
	"unsafe"

	"github.com/philpearl/plenc/plenccodec"
	"github.com/philpearl/plenc/plenccore"

	"verifharness/core"
	"verifharness/gen"
	"verifharness/model"
)

// C14: the Descriptor mirrors the type definition exactly.
// C13: Descriptor-driven decoding yields valid JSON equal to the typed decode.

type realDesc struct{ d *plenccodec.Descriptor }

func (r realDesc) Attr() (int, string, int, string, bool, int) {
	return r.d.Index, r.d.Name, int(r.d.Type), r.d.TypeName, r.d.ExplicitPresence, int(r.d.LogicalType)
}
func (r realDesc) NumElements() int             { return len(r.d.Elements) }
func (r realDesc) Element(i int) model.RealDesc { return realDesc{&r.d.Elements[i]} }

var c13Times = reflect.TypeOf(struct {
	M  map[string]time.Time `plenc:"1"`
	L  []time.Time          `plenc:"2"`
	T  time.Time            `plenc:"3"`
	P  *time.Time           `plenc:"4"`
	MS map[string]struct {
		T time.Time `plenc:"1"`
	} `plenc:"5"`
	MI map[int32]time.Time `plenc:"6"`
}{})

// genDescType generates a type with a finite descriptor
func genDescType(c *core.Ctx, idx int, forJSON bool) *tcase {
	for try := 0; ; try++ {
		tc := genType(c, idx*11+try, func(tg *gen.TG) {
			tg.NoRecursive = true
			if forJSON {
				// C13 is stated for the default configuration: the schema-less walker reads the
				// default slice and map forms and the original time encoding
				tg.C.ProtoArrays, tg.C.ProtoTime = false, false
				tg.NoProtoOpt = true
				if idx%9 == 4 {
					// an instance on which the BigQuery timestamp codec is the codec of time.Time
					// itself, as it has to be for map values and slice elements, which carry no tag
					tg.C.Plain = map[reflect.Type]model.Special{model.TimeT: model.SpBQTime}
				}
			}
		})
		if forJSON && idx%18 == 4 {
			// every position a time.Time without a tag option can take
			tc.typ = c13Times
		}
		if !isRecursive(tc.typ) {
			return tc
		}
	}
}

func c14Case(c *core.Ctx, idx int) {
	rec := c.Rec
	tc := genDescType(c, idx, false)
	codec, err := tc.p.CodecForType(tc.typ)
	if err != nil {
		rec.Violation("valid-type-rejected", fmt.Sprintf("[%s] %v\n  type %s", tc.name, err, typeString(tc.typ)), nil)
		return
	}
	want := tc.cfg.Describe(tc.typ, "")
	// the very first use of the type on an instance, at the moment other goroutines ask the same
	// instance for the types of its parts (fields, elements, keys, values, with their tag options):
	// whoever wins which race, the descriptor mirrors the definition (round 12: k14)
	if idx%4 == 2 && tc.typ.Kind() == reflect.Struct {
		var subs []subType
		collectSubTypes(tc.typ, "", map[subType]bool{}, &subs)
		r := c.RandFor(idx, "first-use")
		prev := c07YieldMode
		for trial := 0; trial < 4 && len(subs) > 1; trial++ {
			p2 := instNew(tc.cfg)
			g := 2 + r.IntN(3)
			asks := make([][]subType, g)
			for w := 1; w < g; w++ {
				for k := 0; k < 1+r.IntN(4); k++ {
					asks[w] = append(asks[w], subs[r.IntN(len(subs))])
				}
			}
			var dd plenccodec.Descriptor
			var derr error
			var dpn string
			c07YieldMode = 1
			var wg sync.WaitGroup
			start := make(chan struct{})
			for w := 0; w < g; w++ {
				wg.Add(1)
				go func(w int) {
					defer wg.Done()
					<-start
					if w == 0 {
						dpn = core.Guard(func() {
							var cd plenccodec.Codec
							if cd, derr = p2.CodecForType(tc.typ); derr == nil {
								dd = cd.Descriptor()
							}
						})
						return
					}
					for _, st := range asks[w] {
						core.Guard(func() { p2.CodecForTypeWithTag(st.t, st.opt) })
					}
				}(w)
			}
			close(start)
			wg.Wait()
			c07YieldMode = prev
			rec.Eval(1)
			rec.Count("first_uses_beside_requests_for_parts", 1)
			if derr != nil || dpn != "" {
				rec.Violation("descriptor", fmt.Sprintf("first use of the type while %d other goroutines ask for its parts [%s]: %v %s\n  type %s", g-1, tc.name, derr, trunc1(dpn), typeString(tc.typ)), map[string]any{"type": typeString(tc.typ)})
				return
			}
			var later plenccodec.Descriptor
			if cd, err := p2.CodecForType(tc.typ); err == nil {
				later = cd.Descriptor()
			}
			for which, d := range map[string]*plenccodec.Descriptor{"the first caller's": &dd, "a later caller's": &later} {
				if diff := model.DescDiff(want, realDesc{d}, "$", true); diff != "" {
					rec.Violation("descriptor", fmt.Sprintf("first use of the type while %d other goroutines ask the instance for its parts: %s descriptor does not mirror the type [%s]: %s\n  type %s", g-1, which, tc.name, diff, typeString(tc.typ)), map[string]any{"type": typeString(tc.typ)})
					return
				}
			}
		}
	}
	// descriptors are asked for by whoever needs the schema: several goroutines at once, through the
	// one codec the instance shares, must each get the whole descriptor - in a quarter of the cases
	// before anybody has asked for it, so that the very first descriptions overlap
	if idx%3 == 1 {
		const g, reps = 4, 6
		var wg sync.WaitGroup
		diffs := make([]string, g)
		start := make(chan struct{})
		for w := 0; w < g; w++ {
			wg.Add(1)
			go func(w int) {
				defer wg.Done()
				<-start
				for k := 0; k < reps && diffs[w] == ""; k++ {
					var dw plenccodec.Descriptor
					if pn := core.Guard(func() { dw = codec.Descriptor() }); pn != "" {
						diffs[w] = "panic: " + pn
						return
					}
					diffs[w] = model.DescDiff(want, realDesc{&dw}, "$", true)
				}
			}(w)
		}
		close(start)
		wg.Wait()
		rec.Eval(g * reps)
		rec.Count("concurrent_descriptor_calls", g*reps)
		for w, diff := range diffs {
			if diff != "" {
				rec.Violation("descriptor", fmt.Sprintf("Descriptor() called by %d goroutines at once: goroutine %d got a descriptor that does not mirror the type [%s]: %s\n  type %s", g, w, tc.name, diff, typeString(tc.typ)), map[string]any{"type": typeString(tc.typ)})
				return
			}
		}
	}
	var d plenccodec.Descriptor
	if pn := core.Guard(func() { d = codec.Descriptor() }); pn != "" {
		rec.Violation("descriptor-panic", fmt.Sprintf("[%s] Descriptor() panicked: %s\n  type %s", tc.name, pn, typeString(tc.typ)), nil)
		return
	}
	rec.Eval(1)
	if diff := model.DescDiff(want, realDesc{&d}, "$", true); diff != "" {
		rec.Violation("descriptor", fmt.Sprintf("the Descriptor does not mirror the type definition [%s]: %s\n  type %s", tc.name, diff, typeString(tc.typ)), map[string]any{"type": typeString(tc.typ)})
		return
	}
	// a Descriptor that has been walked with still mirrors the type
	if idx%3 == 0 {
		v := (&gen.VG{R: c.RandFor(idx, "walk"), C: tc.cfg, Budget: 60}).Value(tc.typ, "")
		if data, err, pn := marshal(tc.p, nil, ptrTo(v)); err == nil && pn == "" && len(data) > 0 {
			core.Guard(func() {
				var jo plenccodec.JSONOutput
				_ = d.Read(&jo, data)
			})
			rec.Eval(1)
			if diff := model.DescDiff(want, realDesc{&d}, "$", true); diff != "" {
				rec.Violation("descriptor", fmt.Sprintf("after Descriptor.Read was called on it, the Descriptor no longer mirrors the type definition [%s]: %s\n  type %s", tc.name, diff, typeString(tc.typ)), map[string]any{"type": typeString(tc.typ)})
				return
			}
			rec.Count("descriptors_checked_after_a_walk", 1)
		}
	}
	// the same type through a second instance whose registration for time.Time differs (the BigQuery
	// codec): a Descriptor mirrors the codecs of the instance it was asked from, not those of the
	// instance that happened to describe the type first
	{
		cfg2 := tc.cfg
		cfg2.Plain = map[reflect.Type]model.Special{model.TimeT: model.SpBQTime}
		if cfg2.Validate(tc.typ, "") == "" {
			p2 := instNew(cfg2)
			if c2, err := p2.CodecForType(tc.typ); err == nil {
				var d2 plenccodec.Descriptor
				if pn := core.Guard(func() { d2 = c2.Descriptor() }); pn != "" {
					rec.Violation("descriptor-panic", pn, nil)
					return
				}
				rec.Eval(1)
				if diff := model.DescDiff(cfg2.Describe(tc.typ, ""), realDesc{&d2}, "$", true); diff != "" {
					rec.Violation("descriptor", fmt.Sprintf("the Descriptor obtained from a second instance (time.Time registered with the BigQuery timestamp codec) does not mirror that instance's codecs [%s]: %s\n  type %s", tc.name, diff, typeString(tc.typ)), map[string]any{"type": typeString(tc.typ)})
					return
				}
				// and asking the first instance again still gives its own descriptor
				d1 := codec.Descriptor()
				if diff := model.DescDiff(want, realDesc{&d1}, "$", true); diff != "" {
					rec.Violation("descriptor", fmt.Sprintf("after another instance described the same type, the first instance's Descriptor changed [%s]: %s\n  type %s", tc.name, diff, typeString(tc.typ)), nil)
					return
				}
				rec.Count("second_instance_descriptors", 1)
			}
		}
	}
	// a Descriptor is the caller's to keep and to change: renaming, re-indexing and re-slicing every
	// level of one copy leaves the next one as it was
	{
		mine := codec.Descriptor()
		scribbleDesc(&mine, 0)
		next := codec.Descriptor()
		rec.Eval(1)
		if diff := model.DescDiff(want, realDesc{&next}, "$", true); diff != "" {
			rec.Violation("descriptor", fmt.Sprintf("after the caller changed the Descriptor it had been given (names, indexes, element lists at every level), the next Descriptor() of the same codec no longer mirrors the type [%s]: %s\n  type %s", tc.name, diff, typeString(tc.typ)), map[string]any{"type": typeString(tc.typ)})
			return
		}
		// ... and so does decoding a stored descriptor of another type into the variable
		other := plenccodec.Descriptor{Type: plenccodec.FieldTypeStruct, TypeName: "Other", Elements: []plenccodec.Descriptor{{Index: 1, Name: "A", Type: plenccodec.FieldTypeString}, {Index: 2, Name: "B", Type: plenccodec.FieldTypeSlice, Elements: []plenccodec.Descriptor{{Type: plenccodec.FieldTypeInt}}}}}
		if od, err, pn := marshal(tc.p, nil, &other); err == nil && pn == "" {
			again := codec.Descriptor()
			if err, pn := unmarshal(tc.p, od, &again); err == nil && pn == "" {
				next = codec.Descriptor()
				rec.Eval(1)
				if diff := model.DescDiff(want, realDesc{&next}, "$", true); diff != "" {
					rec.Violation("descriptor", fmt.Sprintf("after a stored descriptor was decoded into the variable that held the codec's Descriptor, the next Descriptor() no longer mirrors the type [%s]: %s\n  type %s", tc.name, diff, typeString(tc.typ)), map[string]any{"type": typeString(tc.typ)})
					return
				}
			}
		}
		rec.Count("descriptors_changed_by_the_caller", 1)
	}
	n := countDesc(&d)
	rec.Count("descriptor_nodes", n)
	if n > 2 {
		rec.NonTrivial(core.Hash64(tc.typ.String(), tc.name))
	}
	// also for every sub-type with its option, as plenc hands them out for tagged fields
	var subs []subType
	collectSubTypes(tc.typ, "", map[subType]bool{}, &subs)
	for _, st := range subs[1:] {
		sc, err := tc.p.CodecForTypeWithTag(st.t, st.opt)
		if err != nil {
			continue
		}
		sd := sc.Descriptor()
		rec.Eval(1)
		if diff := model.DescDiff(tc.cfg.Describe(st.t, st.opt), realDesc{&sd}, "$", true); diff != "" {
			rec.Violation("descriptor", fmt.Sprintf("Descriptor of (%s, %q) [%s]: %s", typeString(st.t), st.opt, tc.name, diff), nil)
			return
		}
	}
	if rec.WantSample() && n > 3 && n < 12 {
		js, _ := json.Marshal(d)
		rec.Sample(map[string]any{"config": tc.name, "type": typeString(tc.typ), "descriptor": string(js)})
	}
}

// scribbleDesc changes everything a caller can reach in its copy of a Descriptor
func scribbleDesc(d *plenccodec.Descriptor, depth int) {
	d.Name = "scribbled"
	d.TypeName = "Scribbled"
	d.Index = 9999 + depth
	d.ExplicitPresence = !d.ExplicitPresence
	for i := range d.Elements {
		scribbleDesc(&d.Elements[i], depth+1)
	}
	if len(d.Elements) > 0 {
		d.Elements[0].Type = plenccodec.FieldTypeBool
		d.Elements[0].Elements = nil
		d.Elements = d.Elements[:len(d.Elements)-1]
	}
}

func countDesc(d *plenccodec.Descriptor) int {
	n := 1
	for i := range d.Elements {
		n += countDesc(&d.Elements[i])
	}
	return n
}

func renderJSON(d *plenccodec.Descriptor, data []byte) (out []byte, err error, pn string) {
	pn = core.Guard(func() {
		var jo plenccodec.JSONOutput
		err = d.Read(&jo, data)
		if err == nil {
			out = append([]byte(nil), jo.Done()...)
		}
	})
	return
}

// c13Reused is one outputter per process, Reset before every walk: what it renders must not depend
// on the documents it rendered before
var c13Reused plenccodec.JSONOutput

// rowsCodec is a codec a caller registers for [][]string: the rows are written as a count followed
// by each row, length-prefixed, in the encoding the library's own []string codec gives it. Its
// Descriptor says so: a slice whose elements are slices of strings.
type rowsCodec struct{ row plenccodec.Codec }

func (rowsCodec) Omit(ptr unsafe.Pointer) bool { return len(*(*[][]string)(ptr)) == 0 }
func (rowsCodec) WireType() plenccore.WireType { return plenccore.WTSlice }
func (c rowsCodec) Descriptor() plenccodec.Descriptor {
	return plenccodec.Descriptor{Type: plenccodec.FieldTypeSlice, Elements: []plenccodec.Descriptor{c.row.Descriptor()}}
}
func (rowsCodec) New() unsafe.Pointer { return unsafe.Pointer(new([][]string)) }
func (c rowsCodec) Size(ptr unsafe.Pointer, tag []byte) int {
	return len(c.Append(nil, ptr, tag))
}
func (c rowsCodec) Append(data []byte, ptr unsafe.Pointer, tag []byte) []byte {
	rows := *(*[][]string)(ptr)
	data = plenccore.AppendVarUint(append(data, tag...), uint64(len(rows)))
	for i := range rows {
		body := c.row.Append(nil, unsafe.Pointer(&rows[i]), nil)
		data = append(plenccore.AppendVarUint(data, uint64(len(body))), body...)
	}
	return data
}
func (c rowsCodec) Read(data []byte, ptr unsafe.Pointer, wt plenccore.WireType) (int, error) {
	count, n := plenccore.ReadVarUint(data)
	if n <= 0 {
		return 0, fmt.Errorf("rows: count")
	}
	rows := make([][]string, count)
	off := n
	for i := range rows {
		l, n := plenccore.ReadVarUint(data[off:])
		if n <= 0 || int(l) > len(data)-off-n {
			return 0, fmt.Errorf("rows: length")
		}
		off += n
		if _, err := c.row.Read(data[off:off+int(l)], unsafe.Pointer(&rows[i]), plenccore.WTSlice); err != nil {
			return 0, err
		}
		off += int(l)
	}
	*(*[][]string)(ptr) = rows
	return off, nil
}

type c13Rows struct {
	A int        `plenc:"1"`
	R [][]string `plenc:"2"`
	Z string     `plenc:"3"`
}

// c13Foreign: descriptors that no codec the library builds gives out, but that codecs registered
// by a caller do (rows of strings), and a Descriptor variable that is used again for another
// descriptor decoded into it (round 12: k13, k10)
func c13Foreign(c *core.Ctx, idx int) {
	rec := c.Rec
	r := c.Rand(idx)
	p := instNew(instCfgs()[0])
	rowc, err := p.CodecForType(reflect.TypeOf([]string(nil)))
	if err != nil {
		rec.Violation("valid-type-rejected", err.Error(), nil)
		return
	}
	p.RegisterCodec(reflect.TypeOf([][]string(nil)), rowsCodec{row: rowc})
	cd, err := p.CodecForType(reflect.TypeOf(c13Rows{}))
	if err != nil {
		rec.Violation("valid-type-rejected", err.Error(), nil)
		return
	}
	d := cd.Descriptor()
	for j := 0; j < 6; j++ {
		v := c13Rows{A: r.IntN(100), Z: fmt.Sprintf("z%d", j)}
		for i, n := 0, r.IntN(4); i < n; i++ {
			row := []string{}
			for k, m := 0, r.IntN(4); k < m; k++ {
				row = append(row, []string{"", "a", "b c", "\"q\""}[r.IntN(4)])
			}
			v.R = append(v.R, row)
		}
		data, err, pn := marshal(p, nil, &v)
		if err != nil || pn != "" {
			rec.Violation("marshal-error", fmt.Sprintf("%v %s", err, pn), nil)
			return
		}
		out, err, pn := renderJSON(&d, data)
		rec.Eval(1)
		var got struct {
			A int
			R [][]string
			Z string
		}
		want := v
		if err != nil || pn != "" || json.Unmarshal(out, &got) != nil || got.A != want.A || got.Z != want.Z || len(got.R) != len(want.R) {
			rec.Violation("json-content", fmt.Sprintf("Descriptor-driven JSON of a struct with a field whose registered codec describes itself as a slice of slices of strings (%v %s): value %+v\n  output %q", err, trunc1(pn), v, trunc1(string(out))), nil)
			return
		}
		for i := range want.R {
			if len(got.R[i]) != len(want.R[i]) {
				rec.Violation("json-content", fmt.Sprintf("rows of strings rendered wrongly: value %+v\n  output %q", v, trunc1(string(out))), nil)
				return
			}
			for k := range want.R[i] {
				if got.R[i][k] != want.R[i][k] {
					rec.Violation("json-content", fmt.Sprintf("rows of strings rendered wrongly: value %+v\n  output %q", v, trunc1(string(out))), nil)
					return
				}
			}
		}
		rec.Count("foreign_descriptor_walks", 1)
	}
	// one Descriptor variable, two descriptors with as many fields in another layout decoded into it in turn
	T := reflect.TypeOf
	kinds := []reflect.Type{T(int32(0)), T(""), T(true), T(uint16(0)), T(float64(0)), T([]int32(nil)), T(int64(0)), T([]string(nil))}
	n := 9 + r.IntN(12)
	mk := func(seed uint64) reflect.Type {
		pr := rand.New(rand.NewPCG(seed, uint64(idx)))
		idxs := pr.Perm(3 * n)[:n]
		var fs []reflect.StructField
		for i := 0; i < n; i++ {
			fs = append(fs, reflect.StructField{Name: fmt.Sprintf("F%d", i), Type: kinds[pr.IntN(len(kinds))], Tag: reflect.StructTag(fmt.Sprintf(`plenc:"%d"`, idxs[i]+1))})
		}
		return reflect.StructOf(fs)
	}
	var held plenccodec.Descriptor
	for round := 0; round < 4; round++ {
		t := mk(uint64(round%2) + 1)
		tcd, err := p.CodecForType(t)
		if err != nil {
			return
		}
		own := tcd.Descriptor()
		stored, err, pn := marshal(p, nil, &own)
		if err != nil || pn != "" {
			return
		}
		if err, pn := unmarshal(p, stored, &held); err != nil || pn != "" {
			rec.Violation("descriptor-restored", fmt.Sprintf("decoding a stored descriptor into a Descriptor variable that held another one: %v %s", err, trunc1(pn)), nil)
			return
		}
		v := reflect.New(t)
		fillPresent(v.Elem(), r)
		data, _, _ := marshal(p, nil, v.Interface())
		a, e1, p1 := renderJSON(&own, data)
		b, e2, p2 := renderJSON(&held, data)
		rec.Eval(1)
		if e1 != nil || p1 != "" || e2 != nil || p2 != "" || !bytes.Equal(a, b) {
			rec.Violation("descriptor-restored", fmt.Sprintf("a Descriptor variable that was walked with and then had another stored descriptor (as many fields, another layout) decoded into it renders differently from the codec's own (%v %v %s %s)\n  type %s\n  own  %q\n  held %q", e1, e2, trunc1(p1), trunc1(p2), typeString(t), trunc1(string(a)), trunc1(string(b))), nil)
			return
		}
		rec.Count("descriptor_variables_reused", 1)
	}
	rec.NonTrivial(core.Hash64("foreign", fmt.Sprint(idx)))
}

func c13Case(c *core.Ctx, idx int) {
	rec := c.Rec
	if idx%29 == 12 {
		c13Foreign(c, idx)
		return
	}
	tc := genDescType(c, idx, true)
	codec, err := tc.p.CodecForType(tc.typ)
	if err != nil {
		rec.Violation("valid-type-rejected", fmt.Sprintf("[%s] %v\n  type %s", tc.name, err, typeString(tc.typ)), nil)
		return
	}
	// in a third of the cases the first descriptions of the type are taken by four goroutines at once;
	// each of them is walked with later on
	var early []plenccodec.Descriptor
	if idx%3 == 2 {
		early = make([]plenccodec.Descriptor, 4)
		var wg sync.WaitGroup
		start := make(chan struct{})
		for w := range early {
			wg.Add(1)
			go func(w int) {
				defer wg.Done()
				<-start
				core.Guard(func() { early[w] = codec.Descriptor() })
			}(w)
		}
		close(start)
		wg.Wait()
	}
	d := codec.Descriptor()
	pristine := codec.Descriptor()
	defer func() {
		// walking with a Descriptor only reads it: after all the walks of the case it is what it was
		if !reflect.DeepEqual(d, pristine) {
			rec.Violation("descriptor-modified", fmt.Sprintf("[%s] Descriptor.Read changed the Descriptor it was called on (elements re-ordered or rewritten)\n  type %s", tc.name, typeString(tc.typ)), caseExtra(tc, reflect.Value{}, nil))
		}
	}()
	// the descriptor serialised and restored through plenc itself and through encoding/json
	var viaPlenc, viaJSON plenccodec.Descriptor
	pd, err, pn := marshal(tc.p, nil, &d)
	if err != nil || pn != "" {
		rec.Violation("descriptor-serialise", fmt.Sprintf("Marshal of the Descriptor: %v %s", err, pn), nil)
		return
	}
	if err, pn := unmarshal(tc.p, pd, &viaPlenc); err != nil || pn != "" {
		rec.Violation("descriptor-serialise", fmt.Sprintf("Unmarshal of the Descriptor: %v %s", err, pn), nil)
		return
	}
	jd, err := json.Marshal(d)
	if err == nil {
		err = json.Unmarshal(jd, &viaJSON)
	}
	if err != nil {
		rec.Violation("descriptor-serialise", "encoding/json round trip of the Descriptor: "+err.Error(), nil)
		return
	}
	rv := c.RandFor(idx, "values")
	nv := 16
	if c.Thorough() {
		nv = 32
	}
	var walked, rendered [][]byte
	defer func() {
		// several goroutines walking different messages through the one shared Descriptor, each with
		// its own outputter, get what a walk alone gives
		if idx%3 != 2 || len(walked) < 2 {
			return
		}
		const g, rounds = 4, 5
		var wg sync.WaitGroup
		fails := make([]string, g)
		start := make(chan struct{})
		for w := 0; w < g; w++ {
			wg.Add(1)
			go func(w int) {
				defer wg.Done()
				var jo plenccodec.JSONOutput
				<-start
				for k := 0; k < rounds*len(walked) && fails[w] == ""; k++ {
					i := (k + w) % len(walked)
					var err error
					var out []byte
					pn := core.Guard(func() {
						jo.Reset()
						if err = d.Read(&jo, walked[i]); err == nil {
							out = jo.Done()
						}
					})
					if err != nil || pn != "" || !bytes.Equal(out, rendered[i]) {
						fails[w] = fmt.Sprintf("goroutine %d, bytes %s: %v %s\n  alone      %q\n  concurrent %q", w, hexHead(walked[i]), err, trunc1(pn), trunc1(string(rendered[i])), trunc1(string(out)))
					}
				}
			}(w)
		}
		close(start)
		wg.Wait()
		rec.Eval(g * rounds * len(walked))
		rec.Count("concurrent_walks", g*rounds*len(walked))
		for _, f := range fails {
			if f != "" {
				rec.Violation("concurrent-walks", fmt.Sprintf("[%s] %d goroutines walking through one Descriptor at once: %s\n  type %s", tc.name, g, f, typeString(tc.typ)), caseExtra(tc, reflect.Value{}, nil))
				return
			}
		}
	}()
	for j := 0; j < nv; j++ {
		vg := &gen.VG{R: rv, C: tc.cfg, Budget: 200, Finite: true, NoNegFlat: true, ValidUTF8: true}
		v := vg.Value(tc.typ, "")
		if j == 0 {
			v = reflect.New(tc.typ).Elem()
		}
		data, err, pn := marshal(tc.p, nil, ptrTo(v))
		if err != nil || pn != "" {
			rec.Violation("marshal-error", fmt.Sprintf("%v %s", err, pn), caseExtra(tc, v, nil))
			return
		}
		rec.Eval(1)
		noteShape(c, tc, v)
		desc := func() string {
			return fmt.Sprintf("[%s]\n  type %s\n  value %s\n  bytes %s", tc.name, typeString(tc.typ), model.Show(v), hexHead(data))
		}
		if len(data) == 0 && ((tc.typ.Kind() != reflect.Struct && tc.typ.Kind() != reflect.Slice && tc.typ.Kind() != reflect.Map) || tc.cfg.WireType(tc.typ, "") != 2) {
			continue // a top-level scalar that is omitted leaves nothing to walk (a time.Time the instance writes as one integer is one)
		}
		out, rerr, pn := renderJSON(&d, data)
		if pn != "" {
			rec.Violation("descriptor-panic", "Descriptor.Read panicked "+desc()+"\n"+pn, caseExtra(tc, v, data))
			return
		}
		if rerr != nil {
			rec.Violation("descriptor-read-error", fmt.Sprintf("Descriptor.Read fails on Marshal's output: %v %s", rerr, desc()), caseExtra(tc, v, data))
			return
		}
		dec := json.NewDecoder(bytes.NewReader(out))
		dec.UseNumber()
		var parsed any
		if err := dec.Decode(&parsed); err != nil {
			rec.Violation("invalid-json", fmt.Sprintf("Descriptor-driven output is not valid JSON: %v %s\n  output %q", err, desc(), trunc1(string(out))), caseExtra(tc, v, data))
			return
		}
		if dec.More() {
			rec.Violation("invalid-json", fmt.Sprintf("Descriptor-driven output holds more than one document %s\n  output %q", desc(), trunc1(string(out))), caseExtra(tc, v, data))
			return
		}
		if dm := tc.cfg.JSONMatch(v, "", parsed, true, "$"); dm != "" {
			rec.Violation("json-content", fmt.Sprintf("Descriptor-driven JSON differs from the value: %s %s\n  output %q", dm, desc(), trunc1(string(out))), caseExtra(tc, v, data))
			return
		}
		for name, dd := range map[string]*plenccodec.Descriptor{"plenc": &viaPlenc, "encoding/json": &viaJSON} {
			out2, err2, pn2 := renderJSON(dd, data)
			rec.Eval(1)
			if err2 != nil || pn2 != "" || !bytes.Equal(out, out2) {
				rec.Violation("descriptor-restored", fmt.Sprintf("the Descriptor restored through %s renders differently (%v %s) %s\n  direct   %q\n  restored %q", name, err2, pn2, desc(), trunc1(string(out)), trunc1(string(out2))), caseExtra(tc, v, data))
				return
			}
		}
		walked, rendered = append(walked, data), append(rendered, out)
		if j < 3 {
			for w := range early {
				o, e, pn := renderJSON(&early[w], data)
				rec.Eval(1)
				if e != nil || pn != "" || !bytes.Equal(o, out) {
					rec.Violation("descriptor-restored", fmt.Sprintf("one of four descriptors taken at the same moment as the type's first description (goroutine %d) renders differently from one taken afterwards (%v %s) %s\n  later   %q\n  early   %q", w, e, trunc1(pn), desc(), trunc1(string(out)), trunc1(string(o))), caseExtra(tc, v, data))
					return
				}
			}
		}
		if len(data) > 1 && j%3 == 1 {
			// a walk that is abandoned half-way (damaged data: an error, or a document that is never
			// finished with Done) must leave nothing in the outputter that Reset does not clear
			bad := damage(rv, data)
			core.Guard(func() {
				c13Reused.Reset()
				if d.Read(&c13Reused, bad) != nil {
					rec.Count("abandoned_walks_before_reuse", 1)
				}
			})
		}
		var out3 []byte
		var err3 error
		pn3 := core.Guard(func() {
			c13Reused.Reset()
			if err3 = d.Read(&c13Reused, data); err3 == nil {
				out3 = append([]byte(nil), c13Reused.Done()...)
			}
		})
		rec.Eval(1)
		if err3 != nil || pn3 != "" || !bytes.Equal(out, out3) {
			rec.Violation("outputter-reuse", fmt.Sprintf("a JSONOutput that rendered other documents before (Reset in between) renders this walk differently from a new one (%v %s) %s\n  new    %q\n  reused %q", err3, pn3, desc(), trunc1(string(out)), trunc1(string(out3))), historyExtra(c, tc, v, data))
			c13Reused = plenccodec.JSONOutput{}
			return
		}
		if rec.WantSample() && len(out) > 20 && len(out) < 200 {
			rec.Sample(map[string]any{"type": typeString(tc.typ), "value": model.Show(v), "bytes": fmt.Sprintf("%x", data), "json": string(out)})
		}
	}
}

func init() {
	core.Register(&core.Prop{
		ID:        "C14",
		Technique: "structural comparison of the real Codec.Descriptor() with a descriptor derived independently from the reflect.Type, for every generated type and each of its tagged sub-types",
		Rule:      "generated and library types with a finite descriptor (all options, json tags incl. \",omitempty\", \"-\", unicode names, skipped and unexported fields, null.*, JSON any, BigQuery time, named scalars and containers) in the four configurations; index, name rule, field type, struct type name, explicit presence, logical types, order and count are compared recursively; a second instance with another time codec describes the same type; every fourth struct type is used for the first time on four new instances while 1-3 other goroutines ask the instance for the types of its parts; every third case 4 goroutines call Descriptor() on the shared codec at once; one copy of every Descriptor is rewritten by the caller at every level and another is decoded into, the next one must be unchanged. distinct = distinct (type, configuration) pairs with more than two descriptor nodes",
		Assume:    []string{"recursive types are excluded: Descriptor() does not terminate on them (known finding D20)", "the free-form TypeName of map-entry pseudo-structs is not part of the statement and is not compared"},
		Setup:     func(c *core.Ctx) { plenccodec.SetVerifYield(c07Hook) },
		Plan: func(tier string) []core.Lane {
			if tier == "thorough" {
				return []core.Lane{{Lane: "plain", Cases: 6000000, Shards: 16, TimeoutS: 3600}}
			}
			return []core.Lane{{Lane: "plain", Cases: 40000, Shards: 16, TimeoutS: 1200}}
		},
		Case: c14Case,
	})
	core.Register(&core.Prop{
		ID:        "C13",
		Technique: "descriptor-walk monitor: JSON produced by the real Descriptor.Read + JSONOutput from Marshal's output, parsed by encoding/json and matched against the generated value in the JSON data model; repeated with the Descriptor restored through plenc and through encoding/json",
		Rule: "every 29th case (C13): a struct with a [][]string field whose codec, registered by the caller, describes itself as a slice of slices of strings; and a Descriptor variable re-used for other stored descriptors. default configuration, one case in nine on an instance whose time.Time codec is the BigQuery timestamp codec (every eighteenth case a host type with a time in every untagged position); generated non-recursive types (no proto option) x boundary-biased values with finite floats, times within years 1..9999, valid-UTF-8 strings and non-negative narrow flat ints: slices of every element kind incl. bool/time/empty elements and nil pointers, string-keyed maps with zero values and empty keys, other maps with zero entries, pointers, null.*, JSON any with nulls. " +
			"The output must parse, match the value (omitted fields may be absent, numbers exact), and be byte-identical for the two restored descriptors and for one process-long JSONOutput that is Reset before every walk; every third case ends with 4 goroutines walking the case's messages through the one Descriptor at once. distinct = (type, value-shape) hashes with non-zero content",
		Assume: []string{"known findings D20 (recursive types) and D21 (negative narrow flat ints) are excluded from generation", "encoding/json as the independent parser"},
		Plan: func(tier string) []core.Lane {
			if tier == "thorough" {
				return []core.Lane{{Lane: "plain", Cases: 700000, Shards: 16, TimeoutS: 3600}}
			}
			return []core.Lane{{Lane: "plain", Cases: 12000, Shards: 16, TimeoutS: 1200}}
		},
		Case: c13Case,
	})
}
