package work

import (
	"bytes"
	"fmt"
	"reflect"
	"strings"
	"sync"

	"github.com/philpearl/plenc/plenccodec"

	"verifharness/core"
	"verifharness/gen"
	"verifharness/model"
)

// C09: explicit presence.

var c09Keys = []reflect.Type{reflect.TypeOf(int(0)), reflect.TypeOf(""), reflect.TypeOf(false), reflect.TypeOf(uint8(0)), reflect.TypeOf(float64(0)), reflect.TypeOf(int64(0)),
	reflect.StructOf([]reflect.StructField{{Name: "A", Type: reflect.TypeOf(int32(0)), Tag: `plenc:"1"`}, {Name: "B", Type: reflect.TypeOf(""), Tag: `plenc:"2"`}}),
	reflect.StructOf([]reflect.StructField{{Name: "A", Type: model.NullIntT, Tag: `plenc:"1"`}, {Name: "B", Type: reflect.TypeOf(""), Tag: `plenc:"2"`}, {Name: "C", Type: model.NullBoolT, Tag: `plenc:"3"`}})}

var c09Nulls = []reflect.Type{model.NullIntT, model.NullBoolT, model.NullFloatT, model.NullStringT, model.NullTimeT}

// c09Type builds a struct with a pointee type T in every presence-bearing position
func c09Type(T, K, N reflect.Type, internNull bool) reflect.Type {
	pt := reflect.PointerTo(T)
	inner := reflect.StructOf([]reflect.StructField{{Name: "P", Type: pt, Tag: `plenc:"1"`}, {Name: "X", Type: reflect.TypeOf(0), Tag: `plenc:"2"`}})
	nopt := ""
	if internNull && N == model.NullStringT {
		nopt = ",intern"
	}
	return reflect.StructOf([]reflect.StructField{
		{Name: "P", Type: pt, Tag: `plenc:"1"`},
		{Name: "Q", Type: T, Tag: `plenc:"2"`},
		{Name: "M", Type: reflect.MapOf(K, pt), Tag: `plenc:"3"`},
		{Name: "L", Type: reflect.SliceOf(inner), Tag: `plenc:"4"`},
		{Name: "S", Type: inner, Tag: `plenc:"5"`},
		{Name: "N", Type: N, Tag: reflect.StructTag(`plenc:"16` + nopt + `"`)},
		{Name: "MN", Type: reflect.MapOf(K, N), Tag: `plenc:"17"`},
		{Name: "LN", Type: reflect.SliceOf(reflect.StructOf([]reflect.StructField{{Name: "N", Type: N, Tag: `plenc:"2047"`}})), Tag: `plenc:"2048"`},
		{Name: "PP", Type: reflect.PointerTo(inner), Tag: `plenc:"18"`},
	})
}

// presenceDiff compares nil-ness / Valid flags only
func presenceDiff(a, b reflect.Value, path string) string {
	t := a.Type()
	if t.PkgPath() == model.NullIntT.PkgPath() && t.Kind() == reflect.Struct {
		if av, bv := a.FieldByName("Valid").Bool(), b.FieldByName("Valid").Bool(); av != bv {
			if av {
				return path + ": present (Valid) " + t.String() + " read back absent"
			}
			return path + ": absent (invalid) " + t.String() + " read back present"
		}
		return ""
	}
	if t == model.TimeT {
		return ""
	}
	switch a.Kind() {
	case reflect.Ptr:
		if a.IsNil() != b.IsNil() {
			if a.IsNil() {
				return path + ": nil pointer read back present"
			}
			return path + ": present pointer (to " + model.Show(a.Elem()) + ") read back nil"
		}
		if !a.IsNil() {
			return presenceDiff(a.Elem(), b.Elem(), path+"*")
		}
	case reflect.Struct:
		for i := 0; i < a.NumField(); i++ {
			if t.Field(i).IsExported() {
				if d := presenceDiff(a.Field(i), b.Field(i), path+"."+t.Field(i).Name); d != "" {
					return d
				}
			}
		}
	case reflect.Slice:
		if a.Len() != b.Len() {
			return ""
		}
		for i := 0; i < a.Len(); i++ {
			if d := presenceDiff(a.Index(i), b.Index(i), fmt.Sprintf("%s[%d]", path, i)); d != "" {
				return d
			}
		}
	case reflect.Map:
		it := a.MapRange()
		for it.Next() {
			bv := b.MapIndex(it.Key())
			if !bv.IsValid() {
				return fmt.Sprintf("%s: entry with key %s is missing", path, model.Show(it.Key()))
			}
			if d := presenceDiff(it.Value(), bv, fmt.Sprintf("%s[%s]", path, model.Show(it.Key()))); d != "" {
				return d
			}
		}
	}
	return ""
}

func isPresenceType(t reflect.Type) bool {
	return t.Kind() == reflect.Ptr || (t.Kind() == reflect.Struct && t.PkgPath() == model.NullIntT.PkgPath())
}

// checkPresenceFlags compares ExplicitPresence along the descriptor with the type
func checkPresenceFlags(d *plenccodec.Descriptor, t reflect.Type, path string) string {
	want := isPresenceType(t)
	if d.ExplicitPresence != want {
		return fmt.Sprintf("%s (%s): ExplicitPresence = %v, want %v", path, t, d.ExplicitPresence, want)
	}
	for t.Kind() == reflect.Ptr {
		t = t.Elem()
	}
	if t == model.TimeT || t == model.BytesT || isPresenceType(t) {
		return ""
	}
	switch t.Kind() {
	case reflect.Struct:
		fs := model.Fields(t)
		if len(fs) != len(d.Elements) {
			return fmt.Sprintf("%s: %d descriptor elements for %d fields", path, len(d.Elements), len(fs))
		}
		for i, f := range fs {
			if r := checkPresenceFlags(&d.Elements[i], f.Type, path+"."+f.Name); r != "" {
				return r
			}
		}
	case reflect.Slice:
		if len(d.Elements) == 1 {
			return checkPresenceFlags(&d.Elements[0], t.Elem(), path+"[]")
		}
	case reflect.Map:
		if len(d.Elements) == 1 && len(d.Elements[0].Elements) == 2 {
			e := &d.Elements[0]
			if e.ExplicitPresence {
				return path + ": map entry flagged with explicit presence"
			}
			if r := checkPresenceFlags(&e.Elements[0], t.Key(), path+".key"); r != "" {
				return r
			}
			return checkPresenceFlags(&e.Elements[1], t.Elem(), path+".value")
		}
	}
	return ""
}

func c09Case(c *core.Ctx, idx int) {
	rec := c.Rec
	if idx%37 == 5 {
		// presence after a codec build that failed first (see lateRecursive)
		for k := 0; k < 4; k++ {
			rec.Eval(1)
			if d := lateRecursive(c.Rand(idx*4 + k)); d != "" {
				rec.Violation("presence", "a type that refers to itself around a field whose codec is registered after a first, failed use: "+d, nil)
				return
			}
			rec.Count("late_registration_presence_trials", 1)
		}
		rec.NonTrivial(core.Hash64("late-recursive", fmt.Sprint(idx)))
		return
	}
	r := c.RandFor(idx, "type")
	cfgs := instCfgs()
	cfg := cfgs[idx%4]
	tg := &gen.TG{R: r, C: cfg, Lib: true}
	var T reflect.Type
	for {
		T = tg.Type(1+r.IntN(2), gen.PosPtr)
		if T.Kind() != reflect.Map && T.Kind() != reflect.Interface && T != model.JSONMapT {
			break
		}
	}
	K := c09Keys[r.IntN(len(c09Keys))]
	N := c09Nulls[r.IntN(len(c09Nulls))]
	typ := c09Type(T, K, N, r.IntN(2) == 0)
	if why := cfg.Validate(typ, ""); why != "" {
		rec.Count("skipped_invalid_shape", 1)
		return
	}
	tc := &tcase{cfg: cfg, name: cfgName(cfg), p: instNew(cfg), typ: typ}
	codec, err := tc.p.CodecForType(typ)
	if err != nil {
		rec.Violation("valid-type-rejected", fmt.Sprintf("[%s] %v\n  type %s", tc.name, err, typeString(typ)), nil)
		return
	}
	if !isRecursive(typ) {
		if idx%3 == 1 {
			// the first descriptions of a type may be asked for by several goroutines at once
			const g = 4
			var wg sync.WaitGroup
			whys := make([]string, g)
			start := make(chan struct{})
			for w := 0; w < g; w++ {
				wg.Add(1)
				go func(w int) {
					defer wg.Done()
					<-start
					for k := 0; k < 3 && whys[w] == ""; k++ {
						var dw plenccodec.Descriptor
						if pn := core.Guard(func() { dw = codec.Descriptor() }); pn != "" {
							whys[w] = "panic: " + pn
							return
						}
						whys[w] = checkPresenceFlags(&dw, typ, "$")
					}
				}(w)
			}
			close(start)
			wg.Wait()
			rec.Eval(3 * g)
			for w, why := range whys {
				if why != "" {
					rec.Violation("presence-flag", fmt.Sprintf("Descriptor() called by %d goroutines at once, goroutine %d: explicit-presence flag wrong: %s\n  type %s", g, w, why, typeString(typ)), nil)
					return
				}
			}
			rec.Count("concurrent_first_descriptions", 1)
		}
		d := codec.Descriptor()
		rec.Eval(1)
		if why := checkPresenceFlags(&d, typ, "$"); why != "" {
			rec.Violation("presence-flag", fmt.Sprintf("Descriptor explicit-presence flag wrong: %s\n  type %s", why, typeString(typ)), nil)
			return
		}
		rec.Count("descriptors_checked", 1)
	}
	rv := c.RandFor(idx, "values")
	nv := 16
	if c.Thorough() {
		nv = 40
	}
	pt := reflect.PointerTo(T)
	// the presence states of one pointer: absent, present zero, present generated
	mk := func(state int) reflect.Value {
		p := reflect.New(pt).Elem()
		vg := &gen.VG{R: rv, C: cfg, Budget: 40}
		switch state % 3 {
		case 0:
			return p
		case 1:
			p.Set(reflect.New(T))
			// D4: keep every inner pointer level present too
			for q := p.Elem(); q.Kind() == reflect.Ptr; q = q.Elem() {
				q.Set(reflect.New(q.Type().Elem()))
			}
			if (T.Kind() == reflect.Slice || T.Kind() == reflect.Map) && cfg.Repeated(pt, "") {
				return reflect.New(pt).Elem() // D22 exclusion
			}
			if T.Kind() == reflect.Slice && state%2 == 0 && !cfg.Repeated(pt, "") {
				p.Elem().Set(reflect.MakeSlice(T, 0, 0)) // present and empty
			}
			return p
		}
		for i := 0; i < 4; i++ {
			g := vg.Value(pt, "")
			if !g.IsNil() {
				return g
			}
		}
		return p
	}
	var prev reflect.Value
	for j := 0; j < nv; j++ {
		vg := &gen.VG{R: rv, C: cfg, Budget: 120}
		v := vg.Value(typ, "")
		// force the presence states systematically
		v.Field(0).Set(mk(j))
		m := reflect.MakeMap(v.Field(2).Type())
		zk := reflect.New(K).Elem()
		m.SetMapIndex(zk, mk(j/3))
		nk := reflect.New(K).Elem()
		for i := 0; i < 3 && model.Omits(cfg, nk, ""); i++ {
			nk = (&gen.VG{R: rv, C: cfg, Budget: 10}).Value(K, "")
		}
		if K.Kind() == reflect.Float64 && nk.Float() != nk.Float() {
			nk.SetFloat(1)
		}
		m.SetMapIndex(nk, mk(j/9+1))
		if j%7 != 6 {
			v.Field(2).Set(m)
		}
		if K.Kind() == reflect.Struct {
			// two keys that differ only in what an invalid null.* field of theirs carries are one key
			// after a round trip: keep one of them
			for _, fi := range []int{2, 6} {
				old := v.Field(fi)
				if old.IsNil() {
					continue
				}
				canon := reflect.MakeMap(old.Type())
				for it := old.MapRange(); it.Next(); {
					ck := cfg.Normalise(it.Key(), "", true)
					if !canon.MapIndex(ck).IsValid() {
						canon.SetMapIndex(ck, it.Value())
					}
				}
				old.Set(canon)
			}
		}
		inner := v.Field(4)
		inner.Field(0).Set(mk(j + 1))
		l := reflect.MakeSlice(v.Field(3).Type(), 3, 3)
		for i := 0; i < 3; i++ {
			l.Index(i).Field(0).Set(mk(j + i))
		}
		v.Field(3).Set(l)
		if j == 5 || j == 11 {
			// present values far longer than anything a codec may treat specially (64 KiB, 256 KiB, 1 MiB)
			ln := []int{65535, 65536, 262144, 262145, 1<<20 + 1}[(idx+j)%5]
			if N == model.NullStringT {
				nv := reflect.New(N).Elem()
				nv.FieldByName("String").SetString(strings.Repeat("s", ln))
				nv.FieldByName("Valid").SetBool(true)
				v.Field(5).Set(nv)
			}
			if T.Kind() == reflect.String {
				p := reflect.New(T)
				p.Elem().SetString(strings.Repeat("p", ln))
				v.Field(0).Set(p)
			}
			rec.Count("long_present_values", 1)
		}

		rec.Eval(1)
		noteShape(c, tc, v)
		data, err, pn := marshal(tc.p, nil, ptrTo(v))
		if err != nil || pn != "" {
			rec.Violation("marshal-error", fmt.Sprintf("[%s] %v %s\n  type %s\n  value %s", tc.name, err, pn, typeString(typ), model.Show(v)), caseExtra(tc, v, nil))
			return
		}
		if j%2 == 1 && len(data) > 1 {
			// decodes that fail half way, of damaged copies of this very message, come before the good
			// one: what a failed decode leaves behind in the instance is no part of the next result
			for k := 0; k < 4; k++ {
				bad := damage(rv, data)
				junk := reflect.New(typ)
				var berr error
				core.Guard(func() { berr = tc.p.Unmarshal(bad, junk.Interface()) })
				if berr != nil {
					rec.Count("failed_decodes_before_a_good_one", 1)
				}
			}
		}
		out := reflect.New(typ)
		if err, pn := unmarshal(tc.p, data, out.Interface()); err != nil || pn != "" {
			rec.Violation("unmarshal-error", fmt.Sprintf("[%s] %v %s\n  type %s\n  value %s\n  bytes %s", tc.name, err, pn, typeString(typ), model.Show(v), hexHead(data)), caseExtra(tc, v, data))
			return
		}
		want := cfg.Normalise(v, "", true)
		if d := presenceDiff(want, out.Elem(), "$"); d != "" {
			rec.Violation("presence", fmt.Sprintf("presence changed over a round trip [%s]: %s\n  type %s\n  value %s\n  got   %s\n  bytes %s", tc.name, d, typeString(typ), model.Show(v), model.Show(out.Elem()), hexHead(data)), caseExtra(tc, v, data))
			return
		}
		if d := model.Diff(want, out.Elem(), "$"); d != "" {
			rec.Violation("presence-value", fmt.Sprintf("value under a presence-bearing position changed [%s]: %s\n  type %s\n  value %s\n  got   %s\n  bytes %s", tc.name, d, typeString(typ), model.Show(v), model.Show(out.Elem()), hexHead(data)), caseExtra(tc, v, data))
			return
		}
		// a pointer passed in a struct by value: structs of exactly one pointer, with and without fields
		// of size zero around it, are what Go may keep in the interface word itself. Presence is that of
		// the pointer, as when the struct is passed by pointer
		if !cfg.Repeated(pt, "") {
			for how := 2; how <= 4; how++ {
				st := pointerShaped(T, how)
				if how == 2 {
					st = reflect.StructOf([]reflect.StructField{{Name: "X", Type: pt, Tag: `plenc:"1"`}})
				}
				if cfg.Validate(st, "") != "" {
					continue
				}
				w := reflect.New(st).Elem()
				w.FieldByName("X").Set(mk(j + how))
				if model.HasMultiMap(w) {
					continue // the order of map entries is free
				}
				byPtr, err1, pn1 := marshal(tc.p, nil, ptrTo(w))
				byVal, err2, pn2 := marshal(tc.p, nil, w.Interface())
				rec.Eval(1)
				if err1 != nil || err2 != nil || pn1 != "" || pn2 != "" || !bytes.Equal(byPtr, byVal) {
					rec.Violation("presence", fmt.Sprintf("[%s] a struct holding one pointer (%s) passed to Marshal by value encodes as %x, by pointer as %x (%v %v %s %s)\n  type %s\n  value %s", tc.name, map[bool]string{true: "nil", false: "set"}[w.FieldByName("X").IsNil()], byVal, byPtr, err1, err2, trunc1(pn1), trunc1(pn2), typeString(st), model.Show(w)), nil)
					return
				}
				back := reflect.New(st)
				if err, pn := unmarshal(tc.p, byVal, back.Interface()); err != nil || pn != "" || back.Elem().FieldByName("X").IsNil() != cfg.Normalise(w, "", true).FieldByName("X").IsNil() {
					rec.Violation("presence", fmt.Sprintf("[%s] presence of the one pointer of a struct passed to Marshal by value changed over the round trip (%v %s)\n  type %s\n  value %s\n  got   %s\n  bytes %x", tc.name, err, trunc1(pn), typeString(st), model.Show(w), model.Show(back.Elem()), byVal), nil)
					return
				}
				rec.Count("one_pointer_structs_by_value", 1)
			}
		}
		// the same message into the target of the previous iteration (other presence states, other
		// values still in place): present positions take the message's value, whatever was there
		if prev.IsValid() {
			got, exp := reflect.New(typ), reflect.New(typ)
			got.Elem().Set(model.DeepCopy(prev))
			exp.Elem().Set(model.DeepCopy(prev))
			if err := cfg.Decode(exp.Elem(), data); err == nil {
				err, pn := unmarshal(tc.p, data, got.Interface())
				rec.Eval(1)
				if err != nil || pn != "" {
					rec.Violation("unmarshal-error", fmt.Sprintf("[%s] into a re-used target: %v %s", tc.name, err, pn), caseExtra(tc, v, data))
					return
				}
				d := presenceDiff(exp.Elem(), got.Elem(), "$")
				if d == "" {
					d = model.Diff(exp.Elem(), got.Elem(), "$")
				}
				if d != "" {
					rec.Violation("presence-value", fmt.Sprintf("decoding into a target that held another value: a present position does not take the message's value (or an absent one is touched) [%s]: %s\n  type %s\n  value %s\n  target before %s\n  target after  %s\n  bytes %s", tc.name, d, typeString(typ), model.Show(v), model.Show(prev), model.Show(got.Elem()), hexHead(data)), caseExtra(tc, v, data))
					return
				}
				rec.Count("reused_target_decodes", 1)
			}
		}
		// the same value written in the repeated-field form (by an instance with ProtoCompatibleArrays)
		// and read by this default-mode instance into a recycled target: slices cut to [:0], the rest
		// zeroed. Absent stays absent there too.
		if !cfg.ProtoArrays && prev.IsValid() && j%2 == 1 {
			wcfg := cfg
			wcfg.ProtoArrays = true
			if wcfg.Validate(typ, "") == "" {
				if rdata, err, pn := marshal(instNew(wcfg), nil, ptrTo(v)); err == nil && pn == "" {
					got := reflect.New(typ)
					got.Elem().Set(model.DeepCopy(prev))
					recycle(got.Elem())
					err, pn := unmarshal(tc.p, rdata, got.Interface())
					rec.Eval(1)
					exp := wcfg.Normalise(v, "", true)
					if err != nil || pn != "" {
						rec.Violation("unmarshal-error", fmt.Sprintf("[%s] the repeated-field form into a recycled target: %v %s", tc.name, err, pn), caseExtra(tc, v, rdata))
						return
					}
					if d := presenceDiff(exp, got.Elem(), "$"); d != "" {
						rec.Violation("presence", fmt.Sprintf("presence changed when a default-mode instance read the repeated-field form into a recycled target (slices cut to [:0]) [%s]: %s\n  type %s\n  value %s\n  got   %s\n  bytes %s", tc.name, d, typeString(typ), model.Show(v), model.Show(got.Elem()), hexHead(rdata)), caseExtra(tc, v, rdata))
						return
					}
					rec.Count("repeated_form_into_recycled_targets", 1)
				}
			}
		}
		prev = out.Elem()
		// plain (non-pointer) scalar, string, slice and time fields have no presence:
		// field 2 (Q, the plain twin of P) must be absent from the encoding exactly when it is zero
		if T.Kind() != reflect.Struct || T == model.TimeT {
			q := v.Field(1)
			isZero := model.Omits(cfg, q, "")
			inData := false
			for _, f := range model.SplitFields(data) {
				if f.Index == 2 {
					inData = true
				}
			}
			if isZero == inData && T.Kind() != reflect.Ptr {
				rec.Violation("plain-presence", fmt.Sprintf("plain field Q (%s) zero=%v but present in the encoding=%v [%s]\n  value %s\n  bytes %s", T, isZero, inData, tc.name, model.Show(v), hexHead(data)), caseExtra(tc, v, data))
				return
			}
			rec.Count("plain_twin_checked", 1)
		}
		if rec.WantSample() && len(data) < 70 && len(data) > 6 {
			rec.Sample(map[string]any{"config": tc.name, "pointee": T.String(), "key": K.String(), "null": N.String(), "value": model.Show(v), "bytes": fmt.Sprintf("%x", data)})
		}
	}
}

func init() {
	core.Register(&core.Prop{
		ID:        "C09",
		Technique: "presence monitor: pointer / pointer-map-value / null.* positions driven through {absent, present zero, present empty, present non-zero}; nil-ness and Valid compared across the real round trip; Descriptor ExplicitPresence flags compared with the type",
		Rule: "every 37th case: a type that refers to itself around a field whose type gets its codec only after a first, failed use of the type on the instance; afterwards bytes as on an instance that had the codec from the start, and every pointer to a zero value still present after a round trip. structs of exactly one pointer (plain, a zero-size field before or after it) are marshalled by value and by pointer for every presence state; four damaged copies of a message are decoded (and mostly rejected) before every second good decode; every message is also decoded into the previous iteration's target; the first descriptions of a type are asked for by 4 goroutines at once in a third of the cases. A generated pointee type T, key type K (8 kinds incl. two struct keys, one with null.Int / null.Bool fields) and null type N are placed in every presence-bearing position (field, map value under zero and non-zero keys, inside a slice of structs, nested struct, pointer to struct); the pointer states absent / present-zero / present-empty / present-generated are cycled systematically, the rest of the value is boundary-biased. " +
			"distinct = (type, configuration, value-shape) hashes",
		Assume: []string{"known findings D4 (pointer to nil pointer), D22 (pointer to empty repeated slice) and D24 (null.* as slice element or pointer target) are excluded from generation"},
		Plan: func(tier string) []core.Lane {
			if tier == "thorough" {
				return []core.Lane{{Lane: "plain", Cases: 800000, Shards: 16, TimeoutS: 3600}}
			}
			return []core.Lane{{Lane: "plain", Cases: 12000, Shards: 16, TimeoutS: 1200}}
		},
		Case: c09Case,
	})
}
