package work

import (
	"bytes"
	"fmt"
	"hash/adler32"
	"hash/crc32"
	"hash/fnv"
	"math/rand/v2"
	"reflect"
	"strings"
	"sync"
	"unsafe"

	"github.com/philpearl/plenc"
	"github.com/philpearl/plenc/plenccodec"
	"github.com/philpearl/plenc/plenccore"
	"github.com/unravelin/null"

	"verifharness/core"
	"verifharness/model"
	"verifharness/mon"
)

// C19: interning is transparent.

type c19Inner struct {
	S string `plenc:"1,intern"`
	T string `plenc:"2"`
}
type c19Intern struct {
	A string              `plenc:"1,intern"`
	B string              `plenc:"2,intern"`
	N null.String         `plenc:"3,intern"`
	C string              `plenc:"4"`
	L []c19Inner          `plenc:"5"`
	P *string             `plenc:"6,intern"`
	M map[string]c19Inner `plenc:"7"`
	I int                 `plenc:"8,intern"`
}
type c19InnerPlain struct {
	S string `plenc:"1"`
	T string `plenc:"2"`
}
type c19Plain struct {
	A string                   `plenc:"1"`
	B string                   `plenc:"2"`
	N null.String              `plenc:"3"`
	C string                   `plenc:"4"`
	L []c19InnerPlain          `plenc:"5"`
	P *string                  `plenc:"6"`
	M map[string]c19InnerPlain `plenc:"7"`
	I int                      `plenc:"8"`
}

// revStrCodec is a user's own codec for the named string type MarkStr: the bytes are written back to
// front. With it registered, the intern option on a MarkStr field has nothing to intern (the codec
// offers no interning) and must change nothing.
type revStrCodec struct{}

func revBytes(s string) []byte {
	b := []byte(s)
	for i, j := 0, len(b)-1; i < j; i, j = i+1, j-1 {
		b[i], b[j] = b[j], b[i]
	}
	return b
}
func (revStrCodec) Omit(ptr unsafe.Pointer) bool { return len(*(*string)(ptr)) == 0 }
func (revStrCodec) WireType() plenccore.WireType { return plenccore.WTLength }
func (revStrCodec) Descriptor() plenccodec.Descriptor {
	return plenccodec.Descriptor{Type: plenccodec.FieldTypeString}
}
func (revStrCodec) New() unsafe.Pointer { return unsafe.Pointer(new(MarkStr)) }
func (revStrCodec) Read(data []byte, ptr unsafe.Pointer, wt plenccore.WireType) (int, error) {
	*(*string)(ptr) = string(revBytes(string(data)))
	return len(data), nil
}
func (revStrCodec) Size(ptr unsafe.Pointer, tag []byte) int {
	l := len(*(*string)(ptr))
	if len(tag) == 0 {
		return l
	}
	return len(tag) + plenccore.SizeVarUint(uint64(l)) + l
}
func (revStrCodec) Append(data []byte, ptr unsafe.Pointer, tag []byte) []byte {
	s := *(*string)(ptr)
	if len(tag) != 0 {
		data = append(data, tag...)
		data = plenccore.AppendVarUint(data, uint64(len(s)))
	}
	return append(data, revBytes(s)...)
}

// dblStrCodec is another user's codec for MarkStr whose encoding is twice as long as the string
// (every byte written twice); enumStrCodec writes the strings of a fixed list as their position in
// the list, a varint. With either, the number of bytes a field takes is not the length of the
// string it decodes to (round 12: k19).
type dblStrCodec struct{}

func (dblStrCodec) Omit(ptr unsafe.Pointer) bool { return len(*(*string)(ptr)) == 0 }
func (dblStrCodec) WireType() plenccore.WireType { return plenccore.WTLength }
func (dblStrCodec) Descriptor() plenccodec.Descriptor {
	return plenccodec.Descriptor{Type: plenccodec.FieldTypeString}
}
func (dblStrCodec) New() unsafe.Pointer { return unsafe.Pointer(new(MarkStr)) }
func (dblStrCodec) Read(data []byte, ptr unsafe.Pointer, wt plenccore.WireType) (int, error) {
	if len(data)%2 != 0 {
		return 0, fmt.Errorf("dblStrCodec: odd length %d", len(data))
	}
	b := make([]byte, len(data)/2)
	for i := range b {
		b[i] = data[2*i]
	}
	*(*string)(ptr) = string(b)
	return len(data), nil
}
func (dblStrCodec) Size(ptr unsafe.Pointer, tag []byte) int {
	l := 2 * len(*(*string)(ptr))
	if len(tag) != 0 {
		l += len(tag) + plenccore.SizeVarUint(uint64(l))
	}
	return l
}
func (dblStrCodec) Append(data []byte, ptr unsafe.Pointer, tag []byte) []byte {
	s := *(*string)(ptr)
	if len(tag) != 0 {
		data = append(data, tag...)
		data = plenccore.AppendVarUint(data, uint64(2*len(s)))
	}
	for i := 0; i < len(s); i++ {
		data = append(data, s[i], s[i])
	}
	return data
}

var enumStrings = []string{"", "pending", "a", "shipped-and-delivered-to-the-customer", "x", "cancelled", "returned", "zz"}

type enumStrCodec struct{}

func (enumStrCodec) Omit(ptr unsafe.Pointer) bool { return len(*(*string)(ptr)) == 0 }
func (enumStrCodec) WireType() plenccore.WireType { return plenccore.WTVarInt }
func (enumStrCodec) Descriptor() plenccodec.Descriptor {
	return plenccodec.Descriptor{Type: plenccodec.FieldTypeUint}
}
func (enumStrCodec) New() unsafe.Pointer { return unsafe.Pointer(new(MarkStr)) }
func (enumStrCodec) pos(ptr unsafe.Pointer) uint64 {
	for i, e := range enumStrings {
		if e == *(*string)(ptr) {
			return uint64(i)
		}
	}
	return 0
}
func (enumStrCodec) Read(data []byte, ptr unsafe.Pointer, wt plenccore.WireType) (int, error) {
	v, n := plenccore.ReadVarUint(data)
	if n <= 0 || v >= uint64(len(enumStrings)) {
		return 0, fmt.Errorf("enumStrCodec: bad value")
	}
	*(*string)(ptr) = enumStrings[v]
	return n, nil
}
func (c enumStrCodec) Size(ptr unsafe.Pointer, tag []byte) int {
	return len(tag) + plenccore.SizeVarUint(c.pos(ptr))
}
func (c enumStrCodec) Append(data []byte, ptr unsafe.Pointer, tag []byte) []byte {
	return plenccore.AppendVarUint(append(data, tag...), c.pos(ptr))
}

// embStrCodec is a user's codec written the way the null package writes its own: it embeds the
// library's StringCodec (and with it every method it does not override, WithInterning included) and
// changes the bytes: here they are written back to front.
type embStrCodec struct{ plenccodec.StringCodec }

func (embStrCodec) New() unsafe.Pointer { return unsafe.Pointer(new(MarkStr)) }
func (embStrCodec) Read(data []byte, ptr unsafe.Pointer, wt plenccore.WireType) (int, error) {
	return revStrCodec{}.Read(data, ptr, wt)
}
func (embStrCodec) Append(data []byte, ptr unsafe.Pointer, tag []byte) []byte {
	return revStrCodec{}.Append(data, ptr, tag)
}

// a field of the registered type WITHOUT the option, declared after fields that carry it
type c19AfterIntern struct {
	A string  `plenc:"1,intern"`
	N int     `plenc:"2"`
	C MarkStr `plenc:"3"`
	D MarkStr `plenc:"4"`
}
type c19AfterPlain struct {
	A string  `plenc:"1"`
	N int     `plenc:"2"`
	C MarkStr `plenc:"3"`
	D MarkStr `plenc:"4"`
}

type c19OwnIntern struct {
	A MarkStr `plenc:"1,intern"`
	B string  `plenc:"2,intern"`
	C MarkStr `plenc:"3"`
}
type c19OwnPlain struct {
	A MarkStr `plenc:"1"`
	B string  `plenc:"2"`
	C MarkStr `plenc:"3"`
}

// afterInternCheck: the option belongs to the field that carries it - fields declared after an
// interned one keep the codec registered for their type (used by C19 and C17)
func afterInternCheck(c *core.Ctx, r *rand.Rand, cfg model.Cfg, name string, vocab []string, kind string) bool {
	rec := c.Rec
	fresh := 5000000
	q := instNew(cfg)
	q.RegisterCodec(markStrT, embStrCodec{})
	for op := 0; op < 30; op++ {
		a := c19AfterIntern{A: c19Str(r, vocab, &fresh), N: op, C: MarkStr(c19Str(r, vocab, &fresh)), D: MarkStr(c19Str(r, vocab, &fresh))}
		b := c19AfterPlain{A: a.A, N: a.N, C: a.C, D: a.D}
		da, err1, pn1 := marshal(q, nil, &a)
		db, err2, pn2 := marshal(q, nil, &b)
		rec.Eval(2)
		if err1 != nil || err2 != nil || pn1 != "" || pn2 != "" || !bytes.Equal(da, db) {
			rec.Violation(kind, fmt.Sprintf("[%s] fields of a type with a registered codec, declared after an interned field: the encoding of the struct changes with the intern option of the OTHER field: %s vs %s (%v %v %s %s)", name, hexHead(da), hexHead(db), err1, err2, trunc1(pn1), trunc1(pn2)), nil)
			return false
		}
		var ga c19AfterIntern
		var gb c19AfterPlain
		e1, p1 := unmarshal(q, db, &ga)
		e2, p2 := unmarshal(q, db, &gb)
		if e1 != nil || e2 != nil || p1 != "" || p2 != "" || ga.A != gb.A || ga.C != gb.C || ga.D != gb.D || ga.C != a.C || ga.D != a.D {
			rec.Violation(kind, fmt.Sprintf("[%s] fields of a type with a registered codec, declared after an interned field, decode to other strings: (%q, %q, %q) vs (%q, %q, %q) (%v %v %s %s)", name, ga.A, ga.C, ga.D, gb.A, gb.C, gb.D, e1, e2, trunc1(p1), trunc1(p2)), nil)
			return false
		}
	}
	return true
}

// c19OwnCodec: a named string type with the user's own codec registered, under the intern option
func c19OwnCodec(c *core.Ctx, idx int) {
	rec := c.Rec
	r := c.Rand(idx)
	cfg := instCfgs()[idx%4]
	name := cfgName(cfg)
	p := instNew(cfg)
	vocab := c19Vocab(r)
	ownStr := func(fresh *int) MarkStr { return MarkStr(c19Str(r, vocab, fresh)) }
	switch (idx / 4) % 3 {
	case 0:
		p.RegisterCodec(markStrT, revStrCodec{})
	case 1:
		p.RegisterCodec(markStrT, dblStrCodec{})
	default:
		p.RegisterCodec(markStrT, enumStrCodec{})
		ownStr = func(*int) MarkStr { return MarkStr(enumStrings[r.IntN(len(enumStrings))]) }
	}
	fresh := 0
	for op := 0; op < 60; op++ {
		a := c19OwnIntern{A: ownStr(&fresh), B: c19Str(r, vocab, &fresh), C: ownStr(&fresh)}
		b := c19OwnPlain{A: a.A, B: a.B, C: a.C}
		da, err1, pn1 := marshal(p, nil, &a)
		db, err2, pn2 := marshal(p, nil, &b)
		rec.Eval(2)
		if err1 != nil || err2 != nil || pn1 != "" || pn2 != "" || !bytes.Equal(da, db) {
			rec.Violation("interning", fmt.Sprintf("[%s] a named string type with a registered codec of its own: the encoding changes with the intern option: %s vs %s (%v %v %s %s)", name, hexHead(da), hexHead(db), err1, err2, trunc1(pn1), trunc1(pn2)), nil)
			return
		}
		var ga c19OwnIntern
		var gb c19OwnPlain
		e1, p1 := unmarshal(p, db, &ga)
		e2, p2 := unmarshal(p, db, &gb)
		if e1 != nil || e2 != nil || p1 != "" || p2 != "" || ga.A != gb.A || ga.B != gb.B || ga.C != gb.C || ga.A != a.A || ga.B != a.B {
			rec.Violation("interning", fmt.Sprintf("[%s] a named string type with a registered codec of its own: the field decodes to other strings with the intern option: (%q, %q, %q) vs (%q, %q, %q) (%v %v %s %s)", name, ga.A, ga.B, ga.C, gb.A, gb.B, gb.C, e1, e2, trunc1(p1), trunc1(p2)), nil)
			return
		}
	}
	if !afterInternCheck(c, r, cfg, name, vocab, "interning") {
		return
	}
	rec.Count("own_codec_trials", 1)
	rec.NonTrivial(core.Hash64("own", name, fmt.Sprint(idx)))
}

// c19CollisionsOnce: pairs of distinct strings that common 32-bit string hashes cannot tell apart
// (FNV-1 and FNV-1a, CRC-32 with both usual polynomials, Adler-32, the multiply-by-31 hash), found
// once per process by a birthday search over generated words. A table keyed by such a hash instead
// of the string itself confuses exactly these.
var c19CollisionsOnce = sync.OnceValue(func() [][2]string {
	hashes := []func(string) uint32{
		func(s string) uint32 { h := fnv.New32(); h.Write([]byte(s)); return h.Sum32() },
		func(s string) uint32 { h := fnv.New32a(); h.Write([]byte(s)); return h.Sum32() },
		func(s string) uint32 { return crc32.ChecksumIEEE([]byte(s)) },
		func(s string) uint32 { return crc32.Checksum([]byte(s), crc32.MakeTable(crc32.Castagnoli)) },
		func(s string) uint32 { return adler32.Checksum([]byte(s)) },
		func(s string) uint32 {
			var h uint32
			for i := 0; i < len(s); i++ {
				h = h*31 + uint32(s[i])
			}
			return h
		},
	}
	out := [][2]string{{"costarring", "liquid"}, {"declinate", "macallums"}, {"altarage", "zinke"}} // FNV-1a, well known
	r := rand.New(rand.NewPCG(19, 19))
	for _, hf := range hashes {
		seen := map[uint32]string{}
		found := 0
		for i := 0; i < 400000 && found < 3; i++ {
			b := make([]byte, 5+r.IntN(6))
			for j := range b {
				b[j] = byte('a' + r.IntN(26))
			}
			s := string(b)
			h := hf(s)
			if o, ok := seen[h]; ok && o != s {
				out = append(out, [2]string{o, s})
				found++
			}
			seen[h] = s
		}
	}
	return out
})

func c19Vocab(r *rand.Rand) []string {
	v := []string{"", "a", "ab", "abc", "abcd", "\x00", "\x00\x00", "héllo", "\xff\xfe", strings.Repeat("k", 127), strings.Repeat("k", 128), strings.Repeat("prefix-", 8), strings.Repeat("prefix-", 8) + "x", strings.Repeat("L", 5000)}
	for i := 0; i < 6; i++ {
		b := make([]byte, 1+r.IntN(20))
		for j := range b {
			b[j] = byte(r.IntN(256))
		}
		v = append(v, string(b))
	}
	for i := 0; i < 3; i++ {
		pair := c19CollisionsOnce()[r.IntN(len(c19CollisionsOnce()))]
		v = append(v, pair[0], pair[1])
	}
	return v
}

// c19FreshP is the probability (in 1/100) of a never-seen string; growth trials raise it so
// that the tables of the interned fields grow to thousands of entries
var c19FreshP = 20

func c19Str(r *rand.Rand, vocab []string, fresh *int) string {
	if r.IntN(100) < c19FreshP {
		*fresh++
		return fmt.Sprintf("new-%d-%d", *fresh, r.Uint32())
	}
	return vocab[r.IntN(len(vocab))]
}

func c19Value(r *rand.Rand, vocab []string, fresh *int) (c19Intern, c19Plain) {
	var a c19Intern
	var b c19Plain
	a.A = c19Str(r, vocab, fresh)
	a.B = c19Str(r, vocab, fresh)
	a.N = null.NewString(c19Str(r, vocab, fresh), true)
	if r.IntN(3) == 0 {
		a.N = null.String{} // absent: nothing is written
	}
	a.C = c19Str(r, vocab, fresh)
	a.I = r.IntN(1000) - 500
	if r.IntN(2) == 0 {
		s := c19Str(r, vocab, fresh)
		a.P = &s
	}
	for i := r.IntN(4); i > 0; i-- {
		a.L = append(a.L, c19Inner{S: c19Str(r, vocab, fresh), T: c19Str(r, vocab, fresh)})
	}
	if r.IntN(2) == 0 {
		a.M = map[string]c19Inner{}
		for i := r.IntN(3); i > 0; i-- {
			a.M[c19Str(r, vocab, fresh)] = c19Inner{S: c19Str(r, vocab, fresh), T: c19Str(r, vocab, fresh)}
		}
	}
	b.A, b.B, b.N, b.C, b.I = a.A, a.B, a.N, a.C, a.I
	if a.P != nil {
		s := *a.P
		b.P = &s
	}
	for _, e := range a.L {
		b.L = append(b.L, c19InnerPlain{e.S, e.T})
	}
	if a.M != nil {
		b.M = map[string]c19InnerPlain{}
		for k, e := range a.M {
			b.M[k] = c19InnerPlain{e.S, e.T}
		}
	}
	return a, b
}

type c19Retained struct {
	s     string
	clone string
	where string
}

func c19Collect(v *c19Intern, where string, out *[]c19Retained) {
	add := func(s string, f string) {
		if len(s) > 0 {
			*out = append(*out, c19Retained{s, strings.Clone(s), where + "." + f})
		}
	}
	add(v.A, "A")
	add(v.B, "B")
	add(v.N.String, "N")
	add(v.C, "C")
	if v.P != nil {
		add(*v.P, "P")
	}
	for i, e := range v.L {
		add(e.S, fmt.Sprintf("L[%d].S", i))
		add(e.T, fmt.Sprintf("L[%d].T", i))
	}
	for k, e := range v.M {
		add(k, "M.key")
		add(e.S, "M.S")
		add(e.T, "M.T")
	}
}

func c19Worker(c *core.Ctx, idx, w int, p *plenc.Plenc, name string, nops int, vocab []string) (fail string, retained []c19Retained, scratch *mon.Scratch) {
	r := c.RandFor(idx, fmt.Sprintf("w%d", w))
	scratch, err := mon.NewScratch(16384)
	if err != nil {
		return "mmap: " + err.Error(), nil, nil
	}
	lo, hi := scratch.Range()
	fresh := w * 1000000
	// whole results kept for later (a pointer field can be changed behind its owner's back without any
	// string's bytes changing), and one target that is decoded into again and again
	type keptResult struct {
		got  *c19Intern
		want c19Intern
		op   int
	}
	var kept []keptResult
	var reused c19Intern
	for op := 0; op < nops; op++ {
		a, b := c19Value(r, vocab, &fresh)
		da, err, pn := marshal(p, nil, &a)
		if err != nil || pn != "" {
			return fmt.Sprintf("Marshal: %v %s", err, pn), retained, scratch
		}
		db, err, pn := marshal(p, nil, &b)
		if err != nil || pn != "" {
			return fmt.Sprintf("Marshal: %v %s", err, pn), retained, scratch
		}
		if !bytes.Equal(da, db) && len(a.M) < 2 {
			return fmt.Sprintf("the encoding changes with the intern option: %s vs %s", hexHead(da), hexHead(db)), retained, scratch
		}
		if len(da) > len(scratch.Mem) {
			continue
		}
		// ONE input buffer, re-used for every message and overwritten after each call
		in := scratch.Mem[:len(da):len(da)]
		copy(in, da)
		var got c19Intern
		if err, pn := unmarshal(p, in, &got); err != nil || pn != "" {
			return fmt.Sprintf("Unmarshal: %v %s", err, pn), retained, scratch
		}
		var gotPlain c19Plain
		if err, pn := unmarshal(p, in, &gotPlain); err != nil || pn != "" {
			return fmt.Sprintf("Unmarshal (twin): %v %s", err, pn), retained, scratch
		}
		if err, pn := unmarshal(p, in, &reused); err != nil || pn != "" {
			return fmt.Sprintf("Unmarshal into a re-used target: %v %s", err, pn), retained, scratch
		}
		for i := range in {
			in[i] = ^in[i] // the caller re-uses its buffer
		}
		if op%4 == 1 && len(kept) < 64 {
			g := got
			kept = append(kept, keptResult{&g, a, op})
		}
		if d := model.Diff(reflect.ValueOf(a), reflect.ValueOf(got), "$"); d != "" {
			return fmt.Sprintf("op %d: interned decode differs from the value that was encoded: %s", op, d), retained, scratch
		}
		// the twin without the option decodes to the same strings
		if got.A != gotPlain.A || got.B != gotPlain.B || got.N != gotPlain.N || got.C != gotPlain.C || len(got.L) != len(gotPlain.L) {
			return fmt.Sprintf("op %d: interned field decodes to other strings than its twin without the option: %q/%q/%q vs %q/%q/%q", op, got.A, got.B, got.N.String, gotPlain.A, gotPlain.B, gotPlain.N.String), retained, scratch
		}
		for i := range got.L {
			if got.L[i].S != gotPlain.L[i].S {
				return fmt.Sprintf("op %d: L[%d].S %q vs twin %q", op, i, got.L[i].S, gotPlain.L[i].S), retained, scratch
			}
		}
		before := len(retained)
		c19Collect(&got, fmt.Sprintf("worker %d op %d", w, op), &retained)
		for _, rt := range retained[before:] {
			pp := uintptr(unsafe.Pointer(unsafe.StringData(rt.s)))
			if pp >= lo && pp < hi {
				return fmt.Sprintf("%s: decoded string %q references the caller's buffer", rt.where, rt.clone), retained, scratch
			}
		}
		// quiescent re-verification of everything ever returned
		if op%16 == 15 {
			for _, rt := range retained {
				if rt.s != rt.clone {
					return fmt.Sprintf("%s: a string returned earlier changed from %q to %q", rt.where, rt.clone, rt.s), retained, scratch
				}
			}
			for _, k := range kept {
				if d := model.Diff(reflect.ValueOf(k.want), reflect.ValueOf(*k.got), "$"); d != "" {
					return fmt.Sprintf("worker %d: the value decoded at op %d changed after it was returned (by op %d): %s", w, k.op, op, d), retained, scratch
				}
			}
		}
	}
	return "", retained, scratch
}

// c19Fills: equal-sized fresh values of 8..1024 bytes through one interned field, so that whatever
// the codec keeps them in is filled to every multiple of their size, and after each of them an
// empty value (a valid empty null.String, which plenc writes; an explicit zero-length string, which
// other writers do): the interned fields decode what their twins without the option decode.
func c19Fills(c *core.Ctx, idx int) {
	rec := c.Rec
	cfg := instCfgs()[idx%4]
	name := cfgName(cfg)
	check := func(p *plenc.Plenc, m []byte, what string, extra map[string]any) bool {
		var got c19Intern
		var twin c19Plain
		err1, pn1 := unmarshal(p, m, &got)
		err2, pn2 := unmarshal(p, m, &twin)
		rec.Eval(2)
		if (err1 != nil) != (err2 != nil) || pn1 != pn2 || got.A != twin.A || got.B != twin.B || got.N != twin.N {
			rec.Violation("interning", fmt.Sprintf("[%s] %s, message %x decodes differently with the intern option: (%q, %q, %+v, err %v %s) vs (%q, %q, %+v, err %v %s) without", name, what, head(m, 24), trunc1(got.A), got.B, got.N.Valid, err1, trunc1(pn1), trunc1(twin.A), twin.B, twin.N.Valid, err2, trunc1(pn2)), extra)
			return false
		}
		return true
	}
	emptyN, _, _ := marshal(instNew(cfg), nil, &c19Intern{N: null.StringFrom("")})
	empties := [][]byte{emptyN, {0x0a, 0x00, 0x12, 0x00}} // a valid empty null.String; fields 1 and 2 present with length zero
	for _, size := range []int{8, 16, 32, 64, 128, 256, 512, 1024} {
		for _, total := range []int{512, 1024, 2048, 4096, 8192, 16384, 65536} {
			n := total / size
			if n < 1 || n > 1100 {
				continue
			}
			// the first empty value arrives when exactly `total` bytes of values have gone through the field
			p := instNew(cfg)
			for i := 0; i < n; i++ {
				s := fmt.Sprintf("%0*d", size, i+idx*100000)
				b, err, pn := marshal(p, nil, &c19Intern{A: s, N: null.StringFrom(s)})
				if err != nil || pn != "" {
					rec.Violation("interning", fmt.Sprintf("[%s] Marshal: %v %s", name, err, pn), nil)
					return
				}
				if !check(p, b, fmt.Sprintf("fresh value %d of %d bytes", i+1, size), nil) {
					return
				}
			}
			for _, m := range empties {
				if !check(p, m, fmt.Sprintf("after %d fresh values of %d bytes each (%d bytes in all) through one interned field, the first empty value", n, size, total), map[string]any{"size": size, "values": n}) {
					return
				}
			}
			rec.Count("exact_fill_runs", 1)
		}
	}
	rec.NonTrivial(core.Hash64("fills", name, fmt.Sprint(idx)))
}

// c19Neighbours: pairs of values of every length from 1 to 17 bytes that differ in a single bit of
// their first, middle or last byte, decoded one after the other through one interned field: a
// table whose key loses one bit of the value confuses exactly such a pair
func c19Neighbours(c *core.Ctx, idx int) {
	rec := c.Rec
	r := c.Rand(idx)
	cfg := instCfgs()[idx%4]
	name := cfgName(cfg)
	p := instNew(cfg)
	for l := 1; l <= 17; l++ {
		base := make([]byte, l)
		for i := range base {
			base[i] = byte('0' + r.IntN(75))
		}
		for _, pos := range []int{0, l / 2, l - 1} {
			for bit := 0; bit < 8; bit++ {
				other := append([]byte(nil), base...)
				other[pos] ^= 1 << uint(bit)
				for _, s := range []string{string(base), string(other)} {
					a := c19Intern{A: s, N: null.StringFrom(s), I: 1}
					data, err, pn := marshal(p, nil, &a)
					if err != nil || pn != "" {
						rec.Violation("interning", fmt.Sprintf("[%s] Marshal: %v %s", name, err, pn), nil)
						return
					}
					var got c19Intern
					var twin c19Plain
					e1, p1 := unmarshal(p, data, &got)
					e2, p2 := unmarshal(p, data, &twin)
					rec.Eval(2)
					if e1 != nil || e2 != nil || p1 != "" || p2 != "" || got.A != twin.A || got.N != twin.N || got.A != s {
						rec.Violation("interning", fmt.Sprintf("[%s] two %d-byte values that differ in bit %d of byte %d through one interned field: %q decodes to %q / %q with the option, to %q / %q without (%v %v %s %s)", name, l, bit, pos, s, got.A, got.N.String, twin.A, twin.N.String, e1, e2, trunc1(p1), trunc1(p2)), nil)
						return
					}
				}
			}
		}
	}
	// targets the caller prepared by hand: every combination of what the target holds already (the
	// incoming string or another one, marked valid or not, the pointer set or nil) and what arrives
	// (present, empty but present, absent) gives what the field gives without the option
	pool := []string{"GBP", "", "EUR", "a value that is somewhat longer than the others"}
	for _, held := range pool {
		for _, heldValid := range []bool{false, true} {
			for _, in := range pool {
				for _, inValid := range []bool{true, false} {
					msg := c19Intern{A: in, N: null.NewString(in, inValid), P: &in, I: 2}
					data, err, pn := marshal(p, nil, &msg)
					if err != nil || pn != "" {
						rec.Violation("interning", fmt.Sprintf("[%s] Marshal: %v %s", name, err, pn), nil)
						return
					}
					h1, h2 := held, held
					got := c19Intern{A: held, B: held, N: null.NewString(held, heldValid), P: &h1, C: "c"}
					twin := c19Plain{A: held, B: held, N: null.NewString(held, heldValid), P: &h2, C: "c"}
					e1, p1 := unmarshal(p, data, &got)
					e2, p2 := unmarshal(p, data, &twin)
					rec.Eval(2)
					if e1 != nil || e2 != nil || p1 != "" || p2 != "" || got.A != twin.A || got.B != twin.B || got.N != twin.N || (got.P == nil) != (twin.P == nil) || (got.P != nil && *got.P != *twin.P) {
						rec.Violation("interning", fmt.Sprintf("[%s] a target prepared by hand (strings %q, null.String valid=%v) that decodes a message carrying %q (valid=%v): with the option A=%q B=%q N=%+v, without A=%q B=%q N=%+v (%v %v %s %s)", name, held, heldValid, in, inValid, got.A, got.B, got.N, twin.A, twin.B, twin.N, e1, e2, trunc1(p1), trunc1(p2)), nil)
						return
					}
				}
			}
		}
	}
	rec.Count("one_bit_neighbour_runs", 1)
	rec.NonTrivial(core.Hash64("neighbours", name, fmt.Sprint(idx)))
}

func c19Case(c *core.Ctx, idx int) {
	if idx%31 == 13 {
		c19Neighbours(c, idx)
		return
	}
	if idx%23 == 9 {
		c19Fills(c, idx)
		return
	}
	if idx%29 == 11 {
		c19OwnCodec(c, idx)
		return
	}
	rec := c.Rec
	r := c.Rand(idx)
	cfgs := instCfgs()
	cfg := cfgs[idx%4]
	name := cfgName(cfg)
	p := instNew(cfg)
	vocab := c19Vocab(r)
	nworkers := []int{1, 1, 2, 3, 4, 8, 16}[r.IntN(7)]
	nops := 20 + r.IntN(60)
	if c.Lane != "race" && nworkers > 1 {
		nops = 8 + r.IntN(12)
	}
	c19FreshP = 20
	if idx%17 == 7 {
		// growth trial: thousands of distinct values through the same interned fields ("however the table grows afterwards")
		nworkers, nops, c19FreshP = 1, 1100+r.IntN(400), 90
		if c.Lane == "race" {
			nworkers, nops = 2, 200
		}
		rec.Count("growth_trials", 1)
	}
	type res struct {
		fail     string
		retained []c19Retained
		scratch  *mon.Scratch
	}
	results := make([]res, nworkers)
	fns := make([]func(), nworkers)
	for w := range fns {
		w := w
		fns[w] = func() {
			var rs res
			if pn := core.Guard(func() { rs.fail, rs.retained, rs.scratch = c19Worker(c, idx, w, p, name, nops, vocab) }); pn != "" {
				rs.fail = "panic: " + pn
			}
			results[w] = rs
		}
	}
	rec.Eval(nworkers * nops * 2)
	rec.Count("trials", 1)
	rec.Count(fmt.Sprintf("goroutines_%d", nworkers), 1)
	extra := map[string]any{"config": name, "goroutines": nworkers, "ops": nops}
	switch {
	case nworkers == 1:
		fns[0]()
	case c.Lane == "race":
		c07YieldMode = 1
		var wg sync.WaitGroup
		start := make(chan struct{})
		for _, fn := range fns {
			wg.Add(1)
			go func(fn func()) { defer wg.Done(); <-start; fn() }(fn)
		}
		close(start)
		wg.Wait()
		c07YieldMode = 0
	default:
		s := mon.NewSched(c.RandFor(idx, "sched"), nworkers, 1+r.IntN(6), 50+r.IntN(300))
		c07Sched = s
		c07YieldMode = 2
		ok := s.Run(fns)
		c07YieldMode = 0
		c07Sched = nil
		rec.Count("blocked_worker_bypassed", s.Blocked)
		rec.Count("idle_but_runnable_not_a_deadlock", s.Starved)
		if !ok && s.Why == "watchdog" {
			rec.Count("inconclusive_trials", 1)
			return
		}
		if !ok {
			rec.Violation("scheduler-stuck", "every unfinished goroutine is blocked and the process has been idle for 3 s (deadlock)", extra)
			return
		}
		h := core.Hash64(name)
		for _, t := range s.Trace {
			h = h*1099511628211 ^ uint64(t)
		}
		rec.Distinct("interleavings", h)
	}
	total := 0
	for w, rs := range results {
		if rs.fail != "" {
			rec.Violation("interning", fmt.Sprintf("[%s] %d goroutines, goroutine %d: %s", name, nworkers, w, rs.fail), extra)
			for _, rs := range results {
				if rs.scratch != nil {
					rs.scratch.Free()
				}
			}
			return
		}
		total += len(rs.retained)
	}
	// the callers' buffers go away; every string ever returned must still be intact and readable
	for _, rs := range results {
		if rs.scratch != nil {
			rs.scratch.Free()
		}
	}
	for w, rs := range results {
		var bad string
		fault := mon.Faulting(func() {
			for _, rt := range rs.retained {
				if rt.s != rt.clone {
					bad = fmt.Sprintf("%s: returned string changed from %q to %q", rt.where, rt.clone, rt.s)
					return
				}
			}
		})
		if fault != "" || bad != "" {
			rec.Violation("interned-string-not-private", fmt.Sprintf("[%s] goroutine %d: %s %s (after the input buffers were unmapped)", name, w, bad, fault), extra)
			return
		}
	}
	rec.Count("retained_strings_reverified", total)
	rec.Max("distinct_strings_through_one_instance", float64(total))
	rec.NonTrivial(core.Hash64(name, fmt.Sprint(idx), fmt.Sprint(total)))
	if rec.WantSample() {
		rec.Sample(map[string]any{"config": name, "goroutines": nworkers, "ops_per_goroutine": nops, "vocabulary": len(vocab), "strings_retained_and_reverified": total})
	}
}

func init() {
	core.Register(&core.Prop{
		ID:        "C19",
		Technique: "interning monitor: twin types with/without intern over seeded histories through one re-used, overwritten, finally unmapped input buffer per goroutine; every string ever returned is kept with a private clone and re-verified; race lane free-running, plain lane serialised at the intern-miss yield hook",
		Rule: "every 31st trial: for every length 1-17 and every bit of the first, middle and last byte, two values that differ in that bit through one interned field; targets prepared by hand in every combination of held string, held validity, incoming string and validity. Otherwise one trial = a fresh instance, a vocabulary of ~20 strings (empty, prefix-sharing, binary, 127/128/5000 bytes) plus fresh strings (p=1/5), 1-16 goroutines x 8-80 messages of a struct with 5 interned string positions (two plain fields, null.String, pointer, slice elements - one table each) and its twin without the option. " +
			"Per message: encoding equal to the twin's, decode from the goroutine's single mmap'd buffer which is then complemented, decoded strings equal to source and twin, data pointers outside the buffer; every message also decoded into one target that is never reset; all returned strings, and every fourth whole decoded value, re-verified every 16 messages and after the buffers are munmapped. distinct = trials that completed with re-verified strings",
		Assume: []string{"the race detector's happens-before analysis for the race lane"},
		Plan: func(tier string) []core.Lane {
			if tier == "thorough" {
				return []core.Lane{{Lane: "plain", Cases: 180000, Shards: 16, TimeoutS: 7200}, {Lane: "race", Cases: 20000, Shards: 16, TimeoutS: 3600}}
			}
			return []core.Lane{{Lane: "plain", Cases: 3200, Shards: 16, TimeoutS: 1200}, {Lane: "race", Cases: 480, Shards: 16, TimeoutS: 1200}}
		},
		Setup: func(c *core.Ctx) { plenccodec.SetVerifYield(c07Hook) },
		Case:  c19Case,
	})
}
