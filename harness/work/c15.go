package work

import (
	"bytes"
	"encoding/json"
	"fmt"
	"math"
	"math/rand/v2"
	"reflect"
	"strconv"
	"strings"
	"time"
	"unicode/utf8"

	"github.com/philpearl/plenc/plenccodec"

	"verifharness/core"
)

// C15: the JSON outputter turns any well-nested call sequence into matching, valid JSON.

const (
	jkInt = iota
	jkUint
	jkFloat64
	jkFloat32
	jkString
	jkBool
	jkTime
	jkRawNull
	jkRawNumber
	jkObject
	jkArray
)

type jnode struct {
	kind   int
	i      int64
	u      uint64
	f      float64
	s      string
	b      bool
	t      time.Time
	names  []string
	kids   []*jnode
	nodesN int
}

var c15Strings = []string{"", "a", "\"", "\\", "\"\\", "\\\"", "/", "\b\f", "\n", "\r", "\t", "\r\n", ",\n", "\x00", "\x1f", "\x7f", "\u2028", "\u2029", "  x", "é", "日本語", "😀", "a\"b\\c/d", "</script>", "tab\there", " lead", "trail ", "{}", "[]", "null", "true", ":", ",", " ", "\ufeff", "\U0010ffff"}

func c15String(r *rand.Rand) (s string, valid bool) {
	switch r.IntN(10) {
	case 0, 1, 2, 3:
		return c15Strings[r.IntN(len(c15Strings))], true
	case 4:
		// every byte value in first / middle / last position
		b := byte(r.IntN(256))
		s = []string{string([]byte{b}) + "xy", "x" + string([]byte{b}) + "y", "xy" + string([]byte{b})}[r.IntN(3)]
	case 5:
		// all two-byte combinations of the JSON-significant bytes
		sig := []byte{'"', '\\', '/', '\n', '\r', '\t', 0, 0x1f, ',', ':', '{', '}', '[', ']', ' ', 0x7f}
		s = string([]byte{sig[r.IntN(len(sig))], sig[r.IntN(len(sig))]})
	case 6:
		n := r.IntN(8)
		rs := make([]rune, n)
		for i := range rs {
			// (after the classics: code points whose UTF-8 shares its first and last byte, or its first two,
			// with U+2028 / U+2029, which is all a careless recogniser looks at)
			rs[i] = []rune{'a', 'é', 0x2028, 0x2029, '"', '\\', 0x1F600, 0xFFFD, 0x7f, 0x80, 0xD7FF, 0xE000, 1, 31,
				0x20A9, 0x2728, 0x2229, 0x2228, 0x21A9, 0x2669, 0x2027, 0x202A, 0x2000, 0x203F, 0x1028, 0x3028, 0xE2, 0xA8}[r.IntN(28)]
		}
		s = string(rs)
	case 7:
		n := r.IntN(6)
		b := make([]byte, n)
		for i := range b {
			b[i] = byte(r.IntN(256))
		}
		s = string(b)
	case 8:
		s = strings.Repeat(c15Strings[r.IntN(len(c15Strings))], 1+r.IntN(40))
	default:
		s = fmt.Sprintf("k%d", r.IntN(1000))
	}
	return s, utf8.ValidString(s)
}

var c15Floats = []float64{9223372036854775808, -9223372036854775808, 9223372036854774784, 18446744073709551616, 18446744073709549568, 4294967296, 2147483648, -2147483649, 4503599627370496, 1e15, 1e16, 1e17, 1e18, 1e19, 123456789012345680, 0, math.Copysign(0, -1), 1, -1, 0.1, 1e21, 1e20, 999999999999999900000, 1e-7, 1e-6, 0.000001, 123456789.125, math.MaxFloat64, -math.MaxFloat64, math.SmallestNonzeroFloat64, math.MaxFloat32, math.SmallestNonzeroFloat32, 1 << 53, 1<<53 + 2, 3.141592653589793, 2.5e-300, 100, 1e6, 1e-5}

func c15Scalar(r *rand.Rand) *jnode {
	n := &jnode{nodesN: 1}
	switch r.IntN(12) {
	case 0, 1:
		n.kind = jkInt
		n.i = []int64{0, 1, -1, math.MaxInt64, math.MinInt64, 1 << 53, -(1 << 53) - 1, 9007199254740993, int64(r.Uint64())}[r.IntN(9)]
	case 2:
		n.kind = jkUint
		n.u = []uint64{0, 1, math.MaxUint64, 1 << 63, 1<<53 + 1, r.Uint64()}[r.IntN(6)]
	case 3, 4:
		n.kind = jkFloat64
		n.f = c15Floats[r.IntN(len(c15Floats))]
		if r.IntN(3) == 0 {
			for {
				n.f = math.Float64frombits(r.Uint64())
				if !math.IsNaN(n.f) && !math.IsInf(n.f, 0) {
					break
				}
			}
		}
	case 5:
		n.kind = jkFloat32
		for {
			n.f = float64(math.Float32frombits(r.Uint32()))
			if !math.IsNaN(n.f) && !math.IsInf(n.f, 0) {
				break
			}
		}
		if r.IntN(3) == 0 {
			n.f = float64(float32(c15Floats[r.IntN(len(c15Floats))]))
			if math.IsInf(n.f, 0) {
				n.f = 1
			}
		}
	case 6, 7, 8:
		n.kind = jkString
		n.s, _ = c15String(r)
	case 9:
		n.kind = jkBool
		n.b = r.IntN(2) == 0
	case 10:
		n.kind = jkTime
		n.t = []time.Time{{}, time.Unix(0, 0).UTC(), time.Unix(1700000000, 123456789).UTC(), time.Date(9999, 12, 31, 23, 59, 59, 999999999, time.UTC), time.Date(2020, 1, 1, 0, 0, 0, 0, time.FixedZone("x", 3600)), time.Date(1, 1, 1, 0, 0, 0, 1, time.UTC)}[r.IntN(6)]
	default:
		if r.IntN(2) == 0 {
			n.kind = jkRawNull
		} else {
			n.kind = jkRawNumber
			n.s = []string{"0", "-0", "12345678901234567890123", "1.5e300", "-3.25", "1E-9", "true", "null", "\"raw\"", "0e0", "0E5", "-0e-2", "0e+7", "0.0e0", "-0.0", "1e400", "[1, 2]", "{\"a\": null}", "false"}[r.IntN(19)]
		}
	}
	return n
}

// c15Days: times on the same and on neighbouring days around every calendar edge, also before year 1
// and in zones that move the date; written one after the other they exercise whatever an outputter
// remembers between two Time calls
var c15Days = func() []time.Time {
	var out []time.Time
	for _, base := range []time.Time{{}, time.Date(0, 6, 14, 12, 0, 0, 0, time.UTC), time.Date(-1, 12, 31, 23, 0, 0, 0, time.UTC), time.Unix(0, 0).UTC(), time.Date(1970, 1, 1, 0, 0, 0, 0, time.UTC),
		time.Date(2000, 2, 28, 23, 59, 59, 999999999, time.UTC), time.Date(9999, 12, 31, 0, 0, 0, 0, time.UTC), time.Date(1, 1, 1, 0, 0, 0, 0, time.FixedZone("e", 14*3600)), time.Date(0, 12, 31, 0, 0, 0, 0, time.FixedZone("w", -12*3600))} {
		for _, d := range []time.Duration{-48 * time.Hour, -25 * time.Hour, -24 * time.Hour, -12 * time.Hour, -time.Hour, -time.Nanosecond, 0, time.Nanosecond, time.Hour, 12 * time.Hour, 24 * time.Hour, 36 * time.Hour} {
			// RFC 3339 has four-digit years: 0000 to 9999
			if t := base.Add(d); t.Year() >= 0 && t.Year() <= 9999 && t.UTC().Year() >= 0 && t.UTC().Year() <= 9999 {
				out = append(out, t)
			}
		}
	}
	return out
}()

func c15Tree(r *rand.Rand, depth, width int) *jnode {
	if depth > 0 && r.IntN(25) == 0 {
		// an array of times of neighbouring days
		n := &jnode{kind: jkArray, nodesN: 1}
		at := r.IntN(len(c15Days))
		for i := 2 + r.IntN(4); i > 0; i-- {
			n.kids = append(n.kids, &jnode{kind: jkTime, t: c15Days[(at+r.IntN(5)+len(c15Days)-2)%len(c15Days)], nodesN: 1})
			n.nodesN++
		}
		return n
	}
	k := r.IntN(10)
	if depth <= 0 || k < 4 {
		return c15Scalar(r)
	}
	n := &jnode{nodesN: 1}
	cnt := []int{0, 0, 1, 1, 2, 3, width}[r.IntN(7)]
	if k < 7 {
		n.kind = jkObject
		seen := map[string]bool{}
		for i := 0; i < cnt; i++ {
			name, _ := c15String(r)
			key := string([]rune(name)) // encoding/json replaces each invalid byte by U+FFFD
			if seen[key] {
				continue
			}
			seen[key] = true
			kid := c15Tree(r, depth-1, width)
			n.names = append(n.names, name)
			n.kids = append(n.kids, kid)
			n.nodesN += kid.nodesN
		}
	} else {
		n.kind = jkArray
		for i := 0; i < cnt; i++ {
			kid := c15Tree(r, depth-1, width)
			n.kids = append(n.kids, kid)
			n.nodesN += kid.nodesN
		}
	}
	return n
}

func c15Emit(o plenccodec.Outputter, n *jnode) {
	switch n.kind {
	case jkInt:
		o.Int64(n.i)
	case jkUint:
		o.Uint64(n.u)
	case jkFloat64:
		o.Float64(n.f)
	case jkFloat32:
		o.Float32(float32(n.f))
	case jkString:
		o.String(n.s)
	case jkBool:
		o.Bool(n.b)
	case jkTime:
		o.Time(n.t)
	case jkRawNull:
		o.Raw("null")
	case jkRawNumber:
		o.Raw(n.s)
	case jkObject:
		o.StartObject()
		for i, k := range n.kids {
			o.NameField(n.names[i])
			c15Emit(o, k)
		}
		o.EndObject()
	case jkArray:
		o.StartArray()
		for _, k := range n.kids {
			c15Emit(o, k)
		}
		o.EndArray()
	}
}

// c15Match compares the parse of the output with the call tree
func c15Match(n *jnode, got any, path string) string {
	switch n.kind {
	case jkInt:
		if x, ok := got.(json.Number); !ok || string(x) != strconv.FormatInt(n.i, 10) {
			return fmt.Sprintf("%s: Int64(%d) parsed as %v", path, n.i, got)
		}
	case jkUint:
		if x, ok := got.(json.Number); !ok || string(x) != strconv.FormatUint(n.u, 10) {
			return fmt.Sprintf("%s: Uint64(%d) parsed as %v", path, n.u, got)
		}
	case jkFloat64, jkFloat32:
		x, ok := got.(json.Number)
		if !ok {
			return fmt.Sprintf("%s: float %v parsed as %T %v", path, n.f, got, got)
		}
		f, err := strconv.ParseFloat(string(x), 64)
		if err != nil || f != n.f {
			return fmt.Sprintf("%s: float %v (%x) parsed as %q = %v", path, n.f, math.Float64bits(n.f), x, f)
		}
	case jkString:
		want := string([]rune(n.s))
		if x, ok := got.(string); !ok || x != want {
			return fmt.Sprintf("%s: String(%q) parsed as %#v", path, n.s, got)
		}
	case jkBool:
		if x, ok := got.(bool); !ok || x != n.b {
			return fmt.Sprintf("%s: Bool(%v) parsed as %v", path, n.b, got)
		}
	case jkTime:
		x, ok := got.(string)
		if !ok {
			return fmt.Sprintf("%s: Time parsed as %T", path, got)
		}
		tm, err := time.Parse(time.RFC3339Nano, x)
		if err != nil || !tm.Equal(n.t) {
			return fmt.Sprintf("%s: Time(%v) parsed as %q (%v)", path, n.t, x, err)
		}
	case jkRawNull:
		if got != nil {
			return fmt.Sprintf("%s: Raw(null) parsed as %v", path, got)
		}
	case jkRawNumber:
		var want any
		d := json.NewDecoder(strings.NewReader(n.s))
		d.UseNumber()
		d.Decode(&want)
		if !reflect.DeepEqual(want, got) {
			return fmt.Sprintf("%s: Raw(%s) parsed as %#v, the text itself parses as %#v", path, n.s, got, want)
		}
	case jkObject:
		m, ok := got.(map[string]any)
		if !ok {
			return fmt.Sprintf("%s: object parsed as %T", path, got)
		}
		if len(m) != len(n.kids) {
			return fmt.Sprintf("%s: object with %d pairs parsed with %d", path, len(n.kids), len(m))
		}
		for i, k := range n.kids {
			key := string([]rune(n.names[i]))
			g, ok := m[key]
			if !ok {
				return fmt.Sprintf("%s: field name %q missing after parsing", path, n.names[i])
			}
			if d := c15Match(k, g, path+"."+strconv.Quote(n.names[i])); d != "" {
				return d
			}
		}
	case jkArray:
		a, ok := got.([]any)
		if !ok {
			return fmt.Sprintf("%s: array parsed as %T", path, got)
		}
		if len(a) != len(n.kids) {
			return fmt.Sprintf("%s: array of %d elements parsed with %d", path, len(n.kids), len(a))
		}
		for i, k := range n.kids {
			if d := c15Match(k, a[i], fmt.Sprintf("%s[%d]", path, i)); d != "" {
				return d
			}
		}
	}
	return ""
}

func c15Describe(n *jnode) string {
	var b strings.Builder
	var w func(n *jnode)
	w = func(n *jnode) {
		if b.Len() > 600 {
			return
		}
		switch n.kind {
		case jkObject:
			b.WriteString("Obj{")
			for i, k := range n.kids {
				fmt.Fprintf(&b, "%q:", n.names[i])
				w(k)
				b.WriteString(" ")
			}
			b.WriteString("}")
		case jkArray:
			b.WriteString("Arr[")
			for _, k := range n.kids {
				w(k)
				b.WriteString(" ")
			}
			b.WriteString("]")
		case jkInt:
			fmt.Fprintf(&b, "Int64(%d)", n.i)
		case jkUint:
			fmt.Fprintf(&b, "Uint64(%d)", n.u)
		case jkFloat64:
			fmt.Fprintf(&b, "Float64(%v)", n.f)
		case jkFloat32:
			fmt.Fprintf(&b, "Float32(%v)", float32(n.f))
		case jkString:
			fmt.Fprintf(&b, "String(%q)", n.s)
		case jkBool:
			fmt.Fprintf(&b, "Bool(%v)", n.b)
		case jkTime:
			fmt.Fprintf(&b, "Time(%s)", n.t.Format(time.RFC3339Nano))
		case jkRawNull:
			b.WriteString("Raw(null)")
		case jkRawNumber:
			fmt.Fprintf(&b, "Raw(%s)", n.s)
		}
	}
	w(n)
	return b.String()
}

// c15Check drives one tree through an outputter and checks the document
func c15Check(c *core.Ctx, jo *plenccodec.JSONOutput, n *jnode) (out []byte, ok bool) {
	rec := c.Rec
	rec.Eval(1)
	if pn := core.Guard(func() {
		c15Emit(jo, n)
		out = append([]byte(nil), jo.Done()...)
	}); pn != "" {
		rec.Violation("outputter-panic", fmt.Sprintf("call tree %s: %s", c15Describe(n), pn), nil)
		return nil, false
	}
	dec := json.NewDecoder(bytes.NewReader(out))
	dec.UseNumber()
	var parsed any
	if err := dec.Decode(&parsed); err != nil {
		rec.Violation("invalid-json", fmt.Sprintf("output is not valid JSON: %v\n  calls %s\n  output %q", err, c15Describe(n), trunc1(string(out))), map[string]any{"calls": c15Describe(n)})
		return out, false
	}
	if dec.More() {
		rec.Violation("invalid-json", fmt.Sprintf("output holds more than one JSON document\n  calls %s\n  output %q", c15Describe(n), trunc1(string(out))), nil)
		return out, false
	}
	if d := c15Match(n, parsed, "$"); d != "" {
		rec.Violation("json-mismatch", fmt.Sprintf("the parse of the output differs from the call tree: %s\n  calls %s\n  output %q", d, c15Describe(n), trunc1(string(out))), map[string]any{"calls": c15Describe(n)})
		return out, false
	}
	return out, true
}

// c15Shapes enumerates all call trees with exactly n calls (a scalar is one call,
// a container counts as one call plus its children; field names are calls too but not counted)
func c15Shapes(n int) []*jnode {
	if n == 1 {
		return []*jnode{{kind: jkInt, i: 7, nodesN: 1}, {kind: jkString, s: "s", nodesN: 1}, {kind: jkObject, nodesN: 1}, {kind: jkArray, nodesN: 1}}
	}
	var out []*jnode
	// a container whose children use n-1 calls in total
	var seqs func(rem int) [][]*jnode
	seqs = func(rem int) [][]*jnode {
		if rem == 0 {
			return [][]*jnode{nil}
		}
		var res [][]*jnode
		for first := 1; first <= rem; first++ {
			for _, f := range c15Shapes(first) {
				for _, rest := range seqs(rem - first) {
					res = append(res, append([]*jnode{f}, rest...))
				}
			}
		}
		return res
	}
	for _, kids := range seqs(n - 1) {
		o := &jnode{kind: jkObject, kids: kids, nodesN: n}
		for i := range kids {
			o.names = append(o.names, fmt.Sprintf("f%d", i))
		}
		out = append(out, o, &jnode{kind: jkArray, kids: kids, nodesN: n})
	}
	return out
}

// c15Deep builds a chain of `depth` nested containers, each an object or an array with up to two
// small siblings before and after the nested child: deeper than any fixed-size state an outputter
// may keep per level, with something still to write at every level on the way back out.
func c15Deep(r *rand.Rand, depth int) *jnode {
	n := c15Scalar(r)
	for d := 0; d < depth; d++ {
		p := &jnode{nodesN: 1}
		obj := r.IntN(3) != 0
		if obj {
			p.kind = jkObject
		} else {
			p.kind = jkArray
		}
		seen := map[string]bool{}
		add := func(kid *jnode) {
			if obj {
				name, _ := c15String(r)
				key := string([]rune(name))
				if seen[key] {
					return
				}
				seen[key] = true
				p.names = append(p.names, name)
			}
			p.kids = append(p.kids, kid)
			p.nodesN += kid.nodesN
		}
		for i := r.IntN(3); i > 0; i-- {
			add(c15Tree(r, 1, 2))
		}
		add(n)
		for i := r.IntN(3); i > 0; i-- {
			add(c15Tree(r, 1, 2))
		}
		n = p
	}
	return n
}

func c15Case(c *core.Ctx, idx int) {
	rec := c.Rec
	if idx < 5 {
		// exhaustive: every call tree with idx+1 calls over {int, string, object, array}
		shapes := c15Shapes(idx + 1)
		for _, n := range shapes {
			var jo plenccodec.JSONOutput
			if _, ok := c15Check(c, &jo, n); !ok {
				return
			}
			rec.NonTrivial(core.Hash64(c15Describe(n)))
		}
		rec.Count(fmt.Sprintf("exhaustive_trees_with_%d_calls", idx+1), len(shapes))
		return
	}
	r := c.Rand(idx)
	// a Reset/reuse history of 1-20 documents on one outputter
	var reused plenccodec.JSONOutput
	docs := 1 + r.IntN(20)
	for d := 0; d < docs; d++ {
		n := c15Tree(r, r.IntN(9), 2+r.IntN(11))
		if idx%7 == 3 && r.IntN(8) == 0 {
			dp := []int{20, 62, 63, 64, 65, 66, 100, 129, 200, 300}[r.IntN(10)]
			n = c15Deep(r, dp)
			rec.Count("deep_chains", 1)
			rec.Max("nesting_depth", float64(dp))
		}
		var fresh plenccodec.JSONOutput
		a, ok := c15Check(c, &fresh, n)
		if !ok {
			return
		}
		if r.IntN(3) == 0 {
			// an abandoned document: Reset may come at any point of a call sequence
			which := r.IntN(5)
			if idx%11 == 4 && d <= 1 {
				which = 5
			}
			switch which {
			case 5:
				// abandoned very deep down, beyond any limit an outputter may set itself (whether it goes on,
				// panics or starts ignoring calls there is its business; the next document is not)
				depth := []int{600, 1000, 2000}[r.IntN(3)]
				if idx%89 == 3 && d == 1 {
					depth = []int{10001, 10002, 12000}[r.IntN(3)] // (the indentation alone is 100 MB by then)
				}
				core.Guard(func() {
					for i := 0; i < depth; i++ {
						if i%2 == 0 {
							reused.StartArray()
						} else {
							reused.StartObject()
							reused.NameField("d")
						}
					}
					if r.IntN(2) == 0 {
						for i := depth - 1; i >= 0; i-- {
							if i%2 == 0 {
								reused.EndArray()
							} else {
								reused.EndObject()
							}
						}
						reused.Done()
					}
				})
				rec.Count("abandoned_very_deep_documents", 1)
			case 4:
				// abandoned after a lot of output (an outputter may decide not to keep a big buffer), with
				// containers still open
				reused.StartObject()
				reused.NameField("big")
				reused.StartArray()
				for i, n := 0, 1500+r.IntN(3000); i < n; i++ {
					reused.String("0123456789012345678901234567890123456789")
				}
				if r.IntN(2) == 0 {
					reused.StartObject()
					reused.NameField("open")
				}
				rec.Count("abandoned_large_documents", 1)
			case 0:
				reused.StartObject()
				reused.NameField("abandoned")
			case 1:
				reused.StartArray()
				reused.Int64(1)
				reused.StartObject()
			case 2:
				reused.StartObject()
				reused.NameField("a")
				reused.StartArray()
				reused.String("x")
			default:
				reused.String("lonely")
			}
			rec.Count("abandoned_documents", 1)
		}
		reused.Reset()
		b, ok := c15Check(c, &reused, n)
		if !ok {
			return
		}
		if !bytes.Equal(a, b) {
			rec.Violation("reset", fmt.Sprintf("after Reset (document %d of a reuse history) the outputter behaves differently from a new one\n  calls %s\n  fresh  %q\n  reused %q", d, c15Describe(n), trunc1(string(a)), trunc1(string(b))), nil)
			return
		}
		rec.Count("reset_histories_docs", 1)
		if n.nodesN > 1 {
			rec.NonTrivial(core.Hash64(c15Describe(n)))
		}
		if rec.WantSample() && n.nodesN > 3 && len(a) < 200 {
			rec.Sample(map[string]any{"calls": c15Describe(n), "output": string(a)})
		}
	}
}

func init() {
	core.Register(&core.Prop{
		ID:        "C15",
		Technique: "call-tree monitor: the real JSONOutput driven with generated and exhaustively enumerated well-nested call sequences; output parsed by encoding/json (UseNumber) and compared with the call tree; Reset/reuse histories compared with fresh outputters",
		Rule: "cases 0-4 enumerate ALL call trees with 1..5 calls over {Int64, String, object, array}; the other cases are Reset/reuse histories of 1-20 random trees (among them arrays of times on neighbouring days around year 0/1, 1970, leap days and 9999 in UTC and +14h/-12h zones; depth <= 8, width <= 12; now and then a chain of 20..300 nested containers with siblings before and after the nested child at every level, every adjacency of scalar/object/array/empty container) whose strings and field names cover every byte value in first/middle/last position, all pairs of JSON-significant bytes, U+2028/2029, multi-byte and invalid UTF-8, int64/uint64 limits, finite float64/float32 incl. -0, denormals and the 1e21/1e-7 format switches, times, Raw(null/number). " +
			"Invalid UTF-8 is compared after the replacement encoding/json performs. distinct = distinct call trees with more than one call",
		Assume:     []string{"encoding/json as the independent parser"},
		Exhaustive: []string{"all call trees with <= 5 calls over {Int64, String, object, array}"},
		Plan: func(tier string) []core.Lane {
			if tier == "thorough" {
				return []core.Lane{{Lane: "plain", Cases: 4000000, Shards: 16, TimeoutS: 3600}}
			}
			return []core.Lane{{Lane: "plain", Cases: 40000, Shards: 16, TimeoutS: 1200}}
		},
		Case: c15Case,
	})
}
