package work

import (
	"bytes"
	"fmt"
	"reflect"
	"strings"
	"unsafe"

	"verifharness/core"
	"verifharness/gen"
	"verifharness/model"
	"verifharness/mon"
	"verifharness/types"
)

// C11: no aliasing.

func overlaps(aLo, aHi, bLo, bHi uintptr) bool { return aLo < bHi && bLo < aHi }

func c11Case(c *core.Ctx, idx int) {
	rec := c.Rec
	tc := genType(c, idx, nil)
	if idx%9 == 4 {
		// values that are nothing but one string or one run of bytes: the cheapest thing to hand out
		// without copying
		tc.typ = []reflect.Type{reflect.TypeOf(""), reflect.TypeOf(types.MyStr("")), reflect.TypeOf([]byte(nil)), reflect.TypeOf(types.MyBytes(nil))}[(idx/9)%4]
	}
	if _, err := tc.p.CodecForType(tc.typ); err != nil {
		rec.Violation("valid-type-rejected", fmt.Sprintf("[%s] %v\n  type %s", tc.name, err, typeString(tc.typ)), nil)
		return
	}
	rv := c.RandFor(idx, "values")
	nv := 10
	if c.Thorough() {
		nv = 30
	}
	for j := 0; j < nv; j++ {
		v := (&gen.VG{R: rv, C: tc.cfg, Budget: 200}).Value(tc.typ, "")
		desc := func() string {
			return fmt.Sprintf("[%s]\n  type %s\n  value %s", tc.name, typeString(tc.typ), model.Show(v))
		}
		// --- Marshal side ---
		snap := model.DeepCopy(v)
		dst := make([]byte, 9, 9+rv.IntN(3)*64)
		for i := range dst {
			dst[i] = byte(0xA0 + i)
		}
		dstSnap := append([]byte(nil), dst...)
		out, err, pn := marshal(tc.p, dst, ptrTo(v))
		rec.Eval(1)
		if err != nil || pn != "" {
			rec.Violation("marshal-error", fmt.Sprintf("%v %s %s", err, pn, desc()), caseExtra(tc, v, nil))
			return
		}
		if d := model.Diff(snap, v, "$"); d != "" {
			rec.Violation("marshal-modified-value", fmt.Sprintf("Marshal modified the value it was given: %s %s", d, desc()), caseExtra(tc, v, nil))
			return
		}
		if !bytes.Equal(dst, dstSnap) {
			rec.Violation("marshal-modified-prefix", "Marshal changed bytes of the destination below its length "+desc(), caseExtra(tc, v, nil))
			return
		}
		var refs []mon.Ref
		mon.Refs(v, "$", &refs, 0)
		if cap(out) > 0 {
			oLo := uintptr(unsafe.Pointer(unsafe.SliceData(out)))
			oHi := oLo + uintptr(cap(out))
			for _, r := range refs {
				if overlaps(oLo, oHi, r.Lo, r.Hi) {
					rec.Violation("output-aliases-value", fmt.Sprintf("the bytes Marshal returned share memory with %s of the value %s", r.Path, desc()), caseExtra(tc, v, nil))
					return
				}
			}
		}
		rec.Count("value_refs_checked", len(refs))
		data := append([]byte(nil), out[9:]...)
		// scribbling over the output must not change the value
		for i := range out {
			out[i] ^= 0xff
		}
		if d := model.Diff(snap, v, "$"); d != "" {
			rec.Violation("output-aliases-value", fmt.Sprintf("overwriting the bytes Marshal returned changed the value: %s %s", d, desc()), caseExtra(tc, v, nil))
			return
		}

		// the same with no destination at all, by pointer and by value: what comes back is the caller's
		// to scribble on
		for k, arg := range []any{ptrTo(v), v.Interface()} {
			o, err, pn := marshal(tc.p, nil, arg)
			rec.Eval(1)
			if err != nil || pn != "" || cap(o) == 0 {
				continue
			}
			how := []string{"Marshal(nil, &v)", "Marshal(nil, v)"}[k]
			oLo := uintptr(unsafe.Pointer(unsafe.SliceData(o)))
			oHi := oLo + uintptr(cap(o))
			for _, r := range refs {
				if overlaps(oLo, oHi, r.Lo, r.Hi) {
					rec.Violation("output-aliases-value", fmt.Sprintf("the bytes %s returned share memory with %s of the value %s", how, r.Path, desc()), caseExtra(tc, v, nil))
					return
				}
			}
			if fault := mon.Faulting(func() {
				for i := range o {
					o[i] ^= 0xff
				}
			}); fault != "" {
				rec.Violation("output-aliases-value", fmt.Sprintf("the bytes %s returned cannot be written to: %s %s", how, fault, desc()), caseExtra(tc, v, nil))
				return
			}
			if d := model.Diff(snap, v, "$"); d != "" {
				rec.Violation("output-aliases-value", fmt.Sprintf("overwriting the bytes %s returned changed the value: %s %s", how, d, desc()), caseExtra(tc, v, nil))
				return
			}
		}

		// --- Unmarshal side, input in a read-only mapping followed by an inaccessible page ---
		g, err := mon.NewGuard(data)
		if err != nil {
			rec.Violation("harness", "mmap failed: "+err.Error(), nil)
			return
		}
		target := reflect.New(tc.typ)
		var uerr error
		fault := mon.Faulting(func() { uerr = tc.p.Unmarshal(g.Data, target.Interface()) })
		rec.Eval(1)
		if fault != "" {
			lo, hi := g.DataRange()
			rec.Violation("input-access", fmt.Sprintf("Unmarshal faulted on a read-only input placed against an inaccessible page (input %#x..%#x): %s %s\n  bytes %s", lo, hi, fault, desc(), hexHead(data)), caseExtra(tc, v, data))
			g.Free()
			return
		}
		if uerr != nil {
			rec.Violation("unmarshal-error", fmt.Sprintf("%v %s\n  bytes %s", uerr, desc(), hexHead(data)), caseExtra(tc, v, data))
			g.Free()
			return
		}
		if !bytes.Equal(g.Data, data) {
			rec.Violation("input-modified", "Unmarshal modified its input "+desc(), caseExtra(tc, v, data))
			g.Free()
			return
		}
		mLo, mHi := g.Range()
		refs = refs[:0]
		mon.Refs(target.Elem(), "$", &refs, 0)
		for _, r := range refs {
			if overlaps(mLo, mHi, r.Lo, r.Hi) {
				rec.Violation("decoded-aliases-input", fmt.Sprintf("decoded %s points into the input buffer %s\n  bytes %s", r.Path, desc(), hexHead(data)), caseExtra(tc, v, data))
				g.Free()
				return
			}
		}
		rec.Count("decoded_refs_checked", len(refs))
		want := tc.cfg.Normalise(v, "", true)
		// the strongest form: the input mapping is gone; every byte of the decoded value must still be readable
		g.Free()
		if idx%5 == 2 {
			// ... and the program goes on: a collection, then small blocks and the byte buffers of later
			// messages are allocated. What the decoded value points to must be its own, reachable memory -
			// not blocks the collector could not see and has handed out again (round 12: k11)
			gcChurn()
			later := make([][]byte, 0, 3000)
			for i := 0; i < 3000; i++ {
				b := make([]byte, 8+8*(i%4))
				for k := range b {
					b[k] = 0xA5
				}
				later = append(later, b)
			}
			c11Later = later
			rec.Count("compared_after_collection_and_later_buffers", 1)
		}
		var d string
		fault = mon.Faulting(func() { d = model.Diff(want, target.Elem(), "$") })
		if fault != "" {
			rec.Violation("decoded-aliases-input", fmt.Sprintf("reading the decoded value after the input buffer was unmapped faulted: %s %s", fault, desc()), caseExtra(tc, v, data))
			return
		}
		if d != "" {
			rec.Violation("round-trip", fmt.Sprintf("%s %s", d, desc()), caseExtra(tc, v, data))
			return
		}
		rec.Count("unmapped_then_read", 1)

		// a target that is decoded into twice: the keys of its maps are already present the second
		// time. Both inputs are unmapped before the target is read.
		{
			g1, err1 := mon.NewGuard(data)
			g2, err2 := mon.NewGuard(data)
			if err1 == nil && err2 == nil {
				t2 := reflect.New(tc.typ)
				var e1, e2 error
				fault := mon.Faulting(func() {
					e1 = tc.p.Unmarshal(g1.Data, t2.Interface())
					e2 = tc.p.Unmarshal(g2.Data, t2.Interface())
				})
				rec.Eval(2)
				lo1, hi1 := g1.Range()
				lo2, hi2 := g2.Range()
				var refs2 []mon.Ref
				if fault == "" && e1 == nil && e2 == nil {
					mon.Refs(t2.Elem(), "$", &refs2, 0)
				}
				g1.Free()
				g2.Free()
				if fault != "" || e1 != nil || e2 != nil {
					rec.Violation("input-access", fmt.Sprintf("decoding twice into one target: %s %v %v %s", fault, e1, e2, desc()), caseExtra(tc, v, data))
					return
				}
				for _, r := range refs2 {
					if overlaps(lo1, hi1, r.Lo, r.Hi) || overlaps(lo2, hi2, r.Lo, r.Hi) {
						rec.Violation("decoded-aliases-input", fmt.Sprintf("after decoding twice into the same target, %s points into an input buffer %s", r.Path, desc()), caseExtra(tc, v, data))
						return
					}
				}
				var walked int
				fault = mon.Faulting(func() {
					var rr []mon.Ref
					mon.Refs(t2.Elem(), "$", &rr, 0)
					for _, r := range rr {
						walked += int(r.Hi - r.Lo)
					}
					_ = model.Show(t2.Elem())
					_, _ = model.ShapeHash(t2.Elem())
					// read every map through its keys: a key that points into unmapped memory faults
					probeMaps(t2.Elem(), 0)
				})
				if fault != "" {
					rec.Violation("decoded-aliases-input", fmt.Sprintf("reading a target that was decoded into twice faulted after both input buffers were unmapped: %s %s", fault, desc()), caseExtra(tc, v, data))
					return
				}
				rec.Count("twice_decoded_targets", 1)
			}
		}

		// --- a target whose byte slices already ARE the input (a message peeled in place: the payload
		// field of the envelope is decoded into the envelope again): Unmarshal only reads its input ---
		if len(data) > 0 {
			in := append([]byte(nil), data...)
			ta := reflect.New(tc.typ)
			ta.Elem().Set(model.DeepCopy(target.Elem()))
			if n := aliasBytes(ta.Elem(), in[:len(in):len(in)], 0); n > 0 {
				err, pn := unmarshal(tc.p, in, ta.Interface())
				rec.Eval(1)
				if !bytes.Equal(in, data) {
					rec.Violation("input-modified", fmt.Sprintf("Unmarshal changed its input when %d byte-slice position(s) of the target already held that very buffer (%v %s) %s\n  input before %s\n  input after  %s", n, err, trunc1(pn), desc(), hexHead(data), hexHead(in)), caseExtra(tc, v, data))
					return
				}
				rec.Count("targets_aliasing_the_input", 1)
			}
		}

		// --- damaged input: whatever Unmarshal returns, what it left in the target owns its memory ---
		if len(data) > 1 {
			older := (&editor{r: rv, tg: &gen.TG{R: rv, C: tc.cfg, Lib: true}, stats: map[string]int{}}).edit(tc.typ, 0)
			for k := 0; k < 3; k++ {
				bad := damage(rv, data)
				gb, err := mon.NewGuard(bad)
				if err != nil {
					break
				}
				// a fault inside the data of the mapping can only be a write: the bytes are readable.
				// The full type and an older version of it (fields removed, renamed, added: the
				// decoder skips what it does not know) both get the damaged bytes
				dLo, dHi := gb.DataRange()
				for _, rt := range []reflect.Type{tc.typ, older} {
					to := reflect.New(rt)
					var oerr error
					wf, at := mon.FaultAt(func() { oerr = tc.p.Unmarshal(gb.Data, to.Interface()) })
					rec.Eval(1)
					if wf != "" && at >= dLo && at < dHi {
						rec.Violation("input-modified", fmt.Sprintf("Unmarshal of a damaged input wrote to the input buffer at offset %d of %d (%s) %s\n  target type %s\n  damaged bytes %s", at-dLo, len(bad), wf, desc(), typeString(rt), hexHead(bad)), caseExtra(tc, v, bad))
						gb.Free()
						return
					}
					if wf == "" && oerr != nil {
						rec.Count("damaged_inputs_rejected_from_read_only_memory", 1)
					}
				}
				tb := reflect.New(tc.typ)
				var berr error
				fault := mon.Faulting(func() { berr = tc.p.Unmarshal(gb.Data, tb.Interface()) })
				rec.Eval(1)
				bLo, bHi := gb.Range()
				var brefs []mon.Ref
				if fault == "" {
					mon.Refs(tb.Elem(), "$", &brefs, 0)
				}
				gb.Free()
				if fault != "" {
					continue // a decoder that faults on damaged input is C04's finding
				}
				outcome := "was rejected"
				if berr == nil {
					outcome = "was accepted"
				}
				for _, r := range brefs {
					if overlaps(bLo, bHi, r.Lo, r.Hi) {
						rec.Violation("decoded-aliases-input", fmt.Sprintf("a damaged input %s (%v) and left %s of the target pointing into the input buffer %s\n  damaged bytes %s", outcome, berr, r.Path, desc(), hexHead(bad)), caseExtra(tc, v, bad))
						return
					}
				}
				fault = mon.Faulting(func() {
					_ = model.Show(tb.Elem())
					_, _ = model.ShapeHash(tb.Elem())
					probeMaps(tb.Elem(), 0)
				})
				if fault != "" {
					rec.Violation("decoded-aliases-input", fmt.Sprintf("a damaged input %s (%v); reading what it left in the target after the input buffer was unmapped faulted: %s %s\n  damaged bytes %s", outcome, berr, fault, desc(), hexHead(bad)), caseExtra(tc, v, bad))
					return
				}
				rec.Count("targets_of_damaged_inputs_probed", 1)
			}
		}

		// --- heap input, overwritten and re-used afterwards ---
		in := append([]byte(nil), data...)
		t2 := reflect.New(tc.typ)
		if err, pn := unmarshal(tc.p, in, t2.Interface()); err != nil || pn != "" {
			rec.Violation("unmarshal-error", fmt.Sprintf("%v %s %s", err, pn, desc()), caseExtra(tc, v, data))
			return
		}
		rec.Eval(1)
		before := model.DeepCopy(t2.Elem())
		for i := range in {
			in[i] = ^in[i]
		}
		if d := model.Diff(before, t2.Elem(), "$"); d != "" {
			rec.Violation("decoded-aliases-input", fmt.Sprintf("overwriting the input buffer after Unmarshal changed the decoded value: %s %s", d, desc()), caseExtra(tc, v, data))
			return
		}
		// decode something else from the same buffer (buffer re-use), then re-check the first value
		v2 := (&gen.VG{R: rv, C: tc.cfg, Budget: 100}).Value(tc.typ, "")
		if d2, err, _ := marshal(tc.p, in[:0], ptrTo(v2)); err == nil {
			t3 := reflect.New(tc.typ)
			unmarshal(tc.p, d2, t3.Interface())
			if d := model.Diff(before, t2.Elem(), "$"); d != "" {
				rec.Violation("decoded-aliases-input", fmt.Sprintf("re-using the input buffer for another message changed an earlier decoded value: %s %s", d, desc()), caseExtra(tc, v, data))
				return
			}
		}
		h, nt := model.ShapeHash(v)
		if nt && len(refs) > 0 {
			rec.NonTrivial(h ^ core.Hash64(tc.typ.String(), tc.name))
		}
		if rec.WantSample() && len(refs) > 1 && len(data) < 60 {
			rec.Sample(map[string]any{"config": tc.name, "type": typeString(tc.typ), "value": model.Show(v), "bytes": fmt.Sprintf("%x", data), "strings_and_byte_slices_in_decoded_value": len(refs), "input": "PROT_READ mapping, unmapped before the decoded value was compared"})
		}
	}
}

// aliasBytes sets the []byte positions of v (fields, pointer targets, the first elements of slices)
// to b and returns how many it set
func aliasBytes(v reflect.Value, b []byte, depth int) int {
	if depth > 8 {
		return 0
	}
	if v.Type() == model.BytesT {
		if v.CanSet() {
			v.SetBytes(b)
			return 1
		}
		return 0
	}
	n := 0
	switch v.Kind() {
	case reflect.Ptr:
		if !v.IsNil() {
			n += aliasBytes(v.Elem(), b, depth+1)
		}
	case reflect.Struct:
		if v.Type() == model.TimeT {
			return 0
		}
		for i := 0; i < v.NumField(); i++ {
			if v.Type().Field(i).IsExported() {
				n += aliasBytes(v.Field(i), b, depth+1)
			}
		}
	case reflect.Slice:
		for i := 0; i < v.Len() && i < 3; i++ {
			n += aliasBytes(v.Index(i), b, depth+1)
		}
	}
	return n
}

// probeMaps looks every key of every map up again (hashing and comparing the key bytes)
func probeMaps(v reflect.Value, depth int) {
	if depth > 10 {
		return
	}
	switch v.Kind() {
	case reflect.Ptr, reflect.Interface:
		if !v.IsNil() {
			probeMaps(v.Elem(), depth+1)
		}
	case reflect.Struct:
		if v.Type() == model.TimeT {
			return
		}
		for i := 0; i < v.NumField(); i++ {
			if v.Type().Field(i).IsExported() {
				probeMaps(v.Field(i), depth+1)
			}
		}
	case reflect.Slice:
		for i := 0; i < v.Len(); i++ {
			probeMaps(v.Index(i), depth+1)
		}
	case reflect.Map:
		it := v.MapRange()
		for it.Next() {
			k := reflect.New(v.Type().Key()).Elem()
			k.Set(it.Key())
			_ = v.MapIndex(k)
			if k.Kind() == reflect.String {
				_ = strings.Clone(k.String())
			}
			probeMaps(it.Value(), depth+1)
		}
	}
}

type c11Grow struct {
	ID   int            `plenc:"1"`
	Name string         `plenc:"2,intern"`
	Tag  string         `plenc:"3,intern"`
	Key  map[string]int `plenc:"4"`
}

// c11Growth: many distinct values through one interned field of one long-lived instance, every
// message decoded from the same mapped buffer, which is finally unmapped
func c11Growth(c *core.Ctx) {
	rec := c.Rec
	p := newDefault()
	sc, err := mon.NewScratch(8192)
	if err != nil {
		rec.ViolationAt(-1, "harness", err.Error(), nil)
		return
	}
	lo, hi := sc.Range()
	type kept struct{ s, clone string }
	var all []kept
	n := 2500
	for i := 0; i < n; i++ {
		v := c11Grow{ID: i, Name: fmt.Sprintf("customer-%05d-%d", i, c.Shard), Tag: fmt.Sprintf("t%d", i%7), Key: map[string]int{fmt.Sprintf("k%d", i): i}}
		data, err := p.Marshal(nil, &v)
		if err != nil {
			rec.ViolationAt(-1, "marshal-error", err.Error(), nil)
			return
		}
		in := sc.Mem[:len(data):len(data)]
		copy(in, data)
		var out c11Grow
		if err := p.Unmarshal(in, &out); err != nil {
			rec.ViolationAt(-1, "unmarshal-error", err.Error(), nil)
			return
		}
		for j := range in {
			in[j] = 'X'
		}
		rec.Eval(1)
		for _, s := range []string{out.Name, out.Tag} {
			pp := uintptr(unsafe.Pointer(unsafe.StringData(s)))
			if pp >= lo && pp < hi {
				rec.ViolationAt(-1, "decoded-aliases-input", fmt.Sprintf("after %d distinct values through one interned field, the decoded string %q points into the input buffer", i, v.Name), map[string]any{"distinct_values": i})
				sc.Free()
				return
			}
		}
		if out.Name != v.Name || out.Tag != v.Tag {
			rec.ViolationAt(-1, "decoded-aliases-input", fmt.Sprintf("value %d: decoded %q/%q, want %q/%q (after the input buffer was overwritten)", i, out.Name, out.Tag, v.Name, v.Tag), nil)
			sc.Free()
			return
		}
		all = append(all, kept{out.Name, strings.Clone(out.Name)})
	}
	sc.Free()
	var bad string
	fault := mon.Faulting(func() {
		for i, k := range all {
			if k.s != k.clone {
				bad = fmt.Sprintf("value %d changed from %q to %q", i, k.clone, k.s)
				return
			}
		}
	})
	if fault != "" || bad != "" {
		rec.ViolationAt(-1, "decoded-aliases-input", fmt.Sprintf("interned strings after the input buffer was unmapped: %s %s", bad, fault), nil)
		return
	}
	rec.Count("growth_distinct_interned_values", n)
}

func init() {
	core.Register(&core.Prop{
		Finish:    c11Growth,
		ID:        "C11",
		Technique: "aliasing monitor: deep snapshots, address-range overlap checks of every string/byte slice/map key, scribbling, and inputs in PROT_READ mmap regions ending at a PROT_NONE page that are munmapped before the decoded value is read",
		Rule: "three damaged encodings per value are decoded from read-only mappings into the type and into an older version of it (fields removed, renamed, added): a fault inside the mapped data is a write to the input. Generated types (string-, byte-slice-, map-key-, intern-, null.String- and JSON-any-bearing shapes arise from the generator) x boundary-biased values. Per value: Marshal into a prefixed buffer with snapshot of value and prefix, overlap check of the returned bytes against all string/byte data of the value, scribble over the output; " +
			"Unmarshal from a read-only guarded mapping (a write or an over-read faults), address check of all decoded string/byte data against the mapping, munmap, then (in a fifth of the cases after a garbage collection, 40 000 small allocations and 3 000 later byte buffers) full comparison of the decoded value (a retained reference faults, memory the collector could not see has been handed out again); the same target decoded into twice from two mappings; three damaged encodings per value decoded from mappings, the target scanned and read after munmap whatever Unmarshal returned; heap input complemented and re-used for another message. distinct = cases whose value has non-zero content and at least one string/byte slice in the decoded value",
		Assume: []string{"debug.SetPanicOnFault turns a fault on the mapping into a recoverable panic carrying the address"},
		Plan: func(tier string) []core.Lane {
			if tier == "thorough" {
				return []core.Lane{{Lane: "plain", Cases: 120000, Shards: 16, TimeoutS: 7200}, {Lane: "race", Cases: 10000, Shards: 16, TimeoutS: 3600}}
			}
			return []core.Lane{{Lane: "plain", Cases: 6000, Shards: 16, TimeoutS: 1200}}
		},
		Case: c11Case,
	})
}
var c11Later [][]byte
