package work

import (
	"bytes"
	"encoding/json"
	"fmt"
	"math/rand/v2"
	"reflect"
	"strconv"

	"github.com/philpearl/plenc"
	pnull "github.com/philpearl/plenc/null"
	"github.com/philpearl/plenc/plenccodec"

	"verifharness/core"
	"verifharness/gen"
	"verifharness/model"
)

// C16: JSON-any codecs round-trip every JSON-model value.

type c16Host struct {
	X int            `plenc:"3"`
	J map[string]any `plenc:"1"`
	Y string         `plenc:"4"`
	A []any          `plenc:"2"`
	Z float64        `plenc:"5"`
}

type c16Small struct {
	X int     `plenc:"3"`
	Y string  `plenc:"4"`
	Z float64 `plenc:"5"`
}

// jsonTreeMatch compares a JSON-model value with the parse (UseNumber) of its rendering
func jsonTreeMatch(v any, got any, path string) string {
	switch x := v.(type) {
	case nil:
		if got != nil {
			return fmt.Sprintf("%s: nil rendered as %v", path, got)
		}
	case bool:
		if g, ok := got.(bool); !ok || g != x {
			return fmt.Sprintf("%s: %v rendered as %v", path, x, got)
		}
	case int:
		if g, ok := got.(json.Number); !ok || string(g) != strconv.Itoa(x) {
			return fmt.Sprintf("%s: int %d rendered as %v", path, x, got)
		}
	case float64:
		g, ok := got.(json.Number)
		if !ok {
			return fmt.Sprintf("%s: float %v rendered as %T", path, x, got)
		}
		if f, err := strconv.ParseFloat(string(g), 64); err != nil || f != x {
			return fmt.Sprintf("%s: float %v rendered as %s", path, x, g)
		}
	case string:
		if g, ok := got.(string); !ok || g != string([]rune(x)) {
			return fmt.Sprintf("%s: string %q rendered as %#v", path, x, got)
		}
	case json.Number:
		if g, ok := got.(json.Number); !ok || g != x {
			return fmt.Sprintf("%s: json.Number %q rendered as %#v", path, x, got)
		}
	case []any:
		g, ok := got.([]any)
		if !ok || len(g) != len(x) {
			return fmt.Sprintf("%s: array of %d rendered as %v", path, len(x), got)
		}
		for i := range x {
			if d := jsonTreeMatch(x[i], g[i], fmt.Sprintf("%s[%d]", path, i)); d != "" {
				return d
			}
		}
	case map[string]any:
		g, ok := got.(map[string]any)
		if !ok || len(g) != len(x) {
			return fmt.Sprintf("%s: object of %d rendered as %v", path, len(x), got)
		}
		for k, e := range x {
			ge, ok := g[string([]rune(k))]
			if !ok {
				return fmt.Sprintf("%s: key %q missing in the rendering", path, k)
			}
			if d := jsonTreeMatch(e, ge, path+"."+strconv.Quote(k)); d != "" {
				return d
			}
		}
	default:
		return fmt.Sprintf("%s: unexpected %T", path, v)
	}
	return ""
}

func showJSON(v any) string {
	s := fmt.Sprintf("%#v", v)
	if len(s) > 700 {
		s = s[:700] + "..."
	}
	return s
}

// c16Deep nests inner depth levels down, alternating objects and arrays at random
func c16Deep(r *rand.Rand, inner any, depth int) any {
	cur := inner
	for d := 0; d < depth; d++ {
		if r.IntN(3) != 0 {
			cur = map[string]any{"a": d, "m": cur, "n": "x", "o": nil, "p": 1.5}
		} else {
			cur = []any{d, cur, "y"}
		}
	}
	return cur
}

// c16Big: arrays and objects with 70 thousand to 1.1 million entries (decoders that pre-size, cap
// and grow by rules of their own only show them at such sizes), at top level and one level down
func c16Big(c *core.Ctx, idx int) {
	rec := c.Rec
	cfg := instCfgs()[idx%4]
	name := cfgName(cfg)
	p := instNew(cfg)
	n := []int{1048579, 70001, 300007, 1<<20 + 1}[(idx/211)%4]
	a := make([]any, n)
	for i := range a {
		a[i] = i % 100
	}
	a[n/2] = "mid"
	a[n-1] = nil
	m := map[string]any{"first": 1, "arr": a, "last": "z"}
	for k, top := range []any{a, m} {
		var data []byte
		var err error
		var pn string
		if k == 0 {
			data, err, pn = marshal(p, nil, &a)
		} else {
			data, err, pn = marshal(p, nil, &m)
		}
		rec.Eval(1)
		if err != nil || pn != "" {
			rec.Violation("json-marshal", fmt.Sprintf("[%s] array of %d entries: %v %s", name, n, err, trunc1(pn)), nil)
			return
		}
		var got any
		if k == 0 {
			var ga []any
			err, pn = unmarshal(p, data, &ga)
			got = ga
		} else {
			var gm map[string]any
			err, pn = unmarshal(p, data, &gm)
			got = gm
		}
		if err != nil || pn != "" {
			rec.Violation("json-unmarshal", fmt.Sprintf("[%s] array of %d entries (%d bytes): %v %s", name, n, len(data), err, trunc1(pn)), nil)
			return
		}
		if ga, ok := got.([]any); ok && len(ga) != n {
			rec.Violation("json-round-trip", fmt.Sprintf("[%s] an array of %d entries comes back with %d", name, n, len(ga)), nil)
			return
		}
		if !model.JSONEqual(top, got) {
			rec.Violation("json-round-trip", fmt.Sprintf("[%s] a JSON value holding an array of %d entries does not round-trip", name, n), nil)
			return
		}
	}
	rec.Count("big_json_arrays", 1)
	rec.NonTrivial(core.Hash64("bigjson", name, fmt.Sprint(n)))
}

func c16Case(c *core.Ctx, idx int) {
	if idx%211 == 7 {
		c16Big(c, idx)
		return
	}
	rec := c.Rec
	r := c.Rand(idx)
	cfg := instCfgs()[idx%4]
	p := instNew(cfg)
	switch idx % 5 {
	case 1:
		// the JSON codecs registered before the default codecs (round 12: k16)
		p = &plenc.Plenc{ProtoCompatibleArrays: cfg.ProtoArrays, ProtoCompatibleTime: cfg.ProtoTime}
		p.RegisterCodec(model.JSONMapT, plenccodec.JSONMapCodec{})
		p.RegisterCodec(model.JSONArrayT, plenccodec.JSONArrayCodec{})
		p.RegisterDefaultCodecs()
		pnull.AddCodecs(p)
		rec.Count("json_codecs_registered_before_defaults", 1)
	case 3:
		// ... or the default codecs registered once more afterwards
		p.RegisterDefaultCodecs()
		pnull.AddCodecs(p)
		rec.Count("defaults_registered_again", 1)
	}
	name := cfgName(cfg)
	vg := &gen.VG{R: r, C: cfg, Budget: 400, ValidUTF8: true}
	mc, err1 := p.CodecForType(model.JSONMapT)
	ac, err2 := p.CodecForType(model.JSONArrayT)
	if err1 != nil || err2 != nil {
		rec.Violation("codec", fmt.Sprint(err1, err2), nil)
		return
	}
	md, ad := mc.Descriptor(), ac.Descriptor()
	var reuseM map[string]any
	var reuseA []any
	for j := 0; j < 12; j++ {
		vg.Budget = 400
		depth := 1 + r.IntN(6)
		m, _ := vg.JSON(depth, 6).(map[string]any)
		a, _ := vg.JSON(depth, 5).([]any)
		if j == 7 && idx%3 == 1 && m != nil && len(a) > 0 {
			// one container object in several places of one value (a DAG, not a cycle): the same map
			// under two keys and inside the array, two slices of one backing array
			sub := map[string]any{"n": 1, "s": "shared", "l": []any{1, "x"}}
			arr := []any{"p", "q", "r", sub}
			m["dup1"], m["dup2"], m["arr1"], m["arr2"] = sub, sub, arr[:2], arr[:3]
			a = append(a, sub, arr, arr[1:], sub)
			rec.Count("values_with_shared_containers", 2)
		}
		if j == 11 && idx%5 == 2 {
			// nested deeper than a machine word has bits, with keys and elements on both sides of the
			// nested child at every level
			dp := []int{40, 63, 64, 65, 70, 100, 130}[r.IntN(7)]
			m = map[string]any{"first": 1, "nest": c16Deep(r, m, dp), "second": "s", "third": []any{}}
			a = []any{c16Deep(r, a, dp), 2, "after"}
			rec.Count("deep_values", 2)
			rec.Max("nesting_depth", float64(dp))
		}
		rec.Eval(2)
		rec.NonTrivial(core.Hash64(showJSON(m), showJSON(a)))
		// top level
		for k, top := range []any{m, a} {
			var data []byte
			var err error
			var pn string
			if k == 0 {
				data, err, pn = marshal(p, nil, &m)
			} else {
				data, err, pn = marshal(p, nil, &a)
			}
			if err != nil || pn != "" {
				rec.Violation("json-marshal", fmt.Sprintf("[%s] %v %s\n  value %s", name, err, pn, showJSON(top)), nil)
				return
			}
			var gotM map[string]any
			var gotA []any
			var got any
			if k == 0 {
				err, pn = unmarshal(p, data, &gotM)
				got = gotM
			} else {
				err, pn = unmarshal(p, data, &gotA)
				got = gotA
			}
			if err != nil || pn != "" {
				rec.Violation("json-unmarshal", fmt.Sprintf("[%s] %v %s\n  value %s\n  bytes %s", name, err, pn, showJSON(top), hexHead(data)), nil)
				return
			}
			if !model.JSONEqual(top, got) {
				rec.Violation("json-round-trip", fmt.Sprintf("[%s] JSON-model value does not round-trip at top level\n  value %s\n  got   %s\n  bytes %s", name, showJSON(top), showJSON(got), hexHead(data)), nil)
				return
			}
			// the decoded value is the caller's: writing into every container of it, the empty ones
			// included, leaves a later decode of the same bytes as it was
			if n := c16Scribble(got, 0); n > 0 {
				var againM map[string]any
				var againA []any
				var again any
				if k == 0 {
					err, pn = unmarshal(p, data, &againM)
					again = againM
				} else {
					err, pn = unmarshal(p, data, &againA)
					again = againA
				}
				rec.Eval(1)
				if err != nil || pn != "" || !model.JSONEqual(top, again) {
					rec.Violation("json-round-trip", fmt.Sprintf("[%s] after the caller wrote into the %d containers of a decoded value, a fresh decode of the same bytes differs from the encoded value (%v %s)\n  value %s\n  got   %s\n  bytes %s", name, n, err, trunc1(pn), showJSON(top), showJSON(again), hexHead(data)), nil)
					return
				}
				rec.Count("decoded_containers_written_to", n)
			}
			// decode again into the target of the previous iteration (non-nil, other shape)
			if k == 0 && len(data) > 0 && reuseM != nil {
				// a map target is merged by key: keys of the data take the data's value
				if err, pn := unmarshal(p, data, &reuseM); err != nil || pn != "" {
					rec.Violation("json-unmarshal", fmt.Sprintf("[%s] into a re-used map: %v %s", name, err, pn), nil)
					return
				}
				for key, e := range m {
					if !model.JSONEqual(e, reuseM[key]) {
						rec.Violation("json-reuse", fmt.Sprintf("[%s] decoding into a re-used map target: key %q holds %s, the data says %s", name, key, showJSON(reuseM[key]), showJSON(e)), nil)
						return
					}
				}
			}
			if k == 0 && len(data) > 0 && reuseM != nil {
				// the same record once more from a buffer the caller then re-uses: every key is in the target
				// already; the target must keep its own copies of them
				in := append([]byte(nil), data...)
				if err, pn := unmarshal(p, in, &reuseM); err != nil || pn != "" {
					rec.Violation("json-unmarshal", fmt.Sprintf("[%s] into a re-used map, second time: %v %s", name, err, pn), nil)
					return
				}
				for i := range in {
					in[i] = 'X'
				}
				rec.Eval(1)
				for key, e := range m {
					got, ok := reuseM[key]
					if !ok || !model.JSONEqual(e, got) {
						rec.Violation("json-reuse", fmt.Sprintf("[%s] after decoding a record whose keys the target map held already and overwriting the input buffer, key %q is gone or changed (present %v, holds %s, the data said %s)", name, key, ok, showJSON(got), showJSON(e)), nil)
						return
					}
				}
			}
			if k == 1 && len(data) > 0 && reuseA != nil {
				if err, pn := unmarshal(p, data, &reuseA); err != nil || pn != "" {
					rec.Violation("json-unmarshal", fmt.Sprintf("[%s] into a re-used array of length %d: %v %s", name, len(reuseA), err, pn), nil)
					return
				}
				if !model.JSONEqual(a, reuseA) {
					rec.Violation("json-reuse", fmt.Sprintf("[%s] decoding into a re-used []any target does not give the encoded elements\n  value %s\n  got   %s", name, showJSON(a), showJSON(reuseA)), nil)
					return
				}
			}
			// Descriptor rendering
			if len(data) > 0 {
				d := &md
				if k == 1 {
					d = &ad
				}
				var jo plenccodec.JSONOutput
				var rerr error
				if pn := core.Guard(func() { rerr = d.Read(&jo, data) }); pn != "" || rerr != nil {
					rec.Violation("json-descriptor", fmt.Sprintf("[%s] Descriptor.Read failed: %v %s\n  value %s", name, rerr, pn, showJSON(top)), nil)
					return
				}
				out := jo.Done()
				dec := json.NewDecoder(bytes.NewReader(out))
				dec.UseNumber()
				var parsed any
				if err := dec.Decode(&parsed); err != nil {
					rec.Violation("json-descriptor", fmt.Sprintf("[%s] Descriptor rendering is not valid JSON: %v\n  value %s\n  output %q", name, err, showJSON(top), trunc1(string(out))), nil)
					return
				}
				want := top
				if k == 0 && m == nil {
					want = map[string]any{}
				}
				if d := jsonTreeMatch(normJSON(want), parsed, "$"); d != "" {
					rec.Violation("json-descriptor", fmt.Sprintf("[%s] Descriptor rendering differs from the value: %s\n  value %s\n  output %q", name, d, showJSON(top), trunc1(string(out))), nil)
					return
				}
				rec.Count("descriptor_renderings", 1)
			}
		}
		reuseM, reuseA = map[string]any{"stale": 1, "": "x"}, []any{"stale", nil, 3}[:r.IntN(4)]
		// as struct fields, and skipped as unknown fields
		h := c16Host{X: int(r.Int64() >> uint(r.IntN(64))), J: m, Y: []string{"", "y", "\xff"}[r.IntN(3)], A: a, Z: []float64{0, 1.5, -2}[r.IntN(3)]}
		data, err, pn := marshal(p, nil, &h)
		if err != nil || pn != "" {
			rec.Violation("json-marshal", fmt.Sprintf("[%s] host struct: %v %s", name, err, pn), nil)
			return
		}
		var back c16Host
		if err, pn := unmarshal(p, data, &back); err != nil || pn != "" {
			rec.Violation("json-unmarshal", fmt.Sprintf("[%s] host struct: %v %s\n  bytes %s", name, err, pn, hexHead(data)), nil)
			return
		}
		if back.X != h.X || back.Y != h.Y || back.Z != h.Z || !model.JSONEqual(h.J, back.J) || !model.JSONEqual(h.A, back.A) {
			rec.Violation("json-round-trip", fmt.Sprintf("[%s] JSON-model values as struct fields do not round-trip\n  value %s / %s\n  got   %s / %s (X %d/%d Y %q/%q)", name, showJSON(h.J), showJSON(h.A), showJSON(back.J), showJSON(back.A), h.X, back.X, h.Y, back.Y), nil)
			return
		}
		var small c16Small
		if err, pn := unmarshal(p, data, &small); err != nil || pn != "" {
			rec.Violation("json-skip", fmt.Sprintf("[%s] skipping JSON-any fields as unknown fields fails: %v %s\n  bytes %s", name, err, pn, hexHead(data)), nil)
			return
		}
		if small.X != h.X || small.Y != h.Y || small.Z != h.Z {
			rec.Violation("json-skip", fmt.Sprintf("[%s] skipping JSON-any fields desynchronises the fields that follow: X %d/%d Y %q/%q Z %v/%v\n  bytes %s", name, small.X, h.X, small.Y, h.Y, small.Z, h.Z, hexHead(data)), nil)
			return
		}
		rec.Eval(2)
		if rec.WantSample() && len(data) < 80 && len(m) > 0 {
			rec.Sample(map[string]any{"config": name, "object": showJSON(m), "array": showJSON(a), "host_bytes": fmt.Sprintf("%x", data)})
		}
	}
	_ = reflect.TypeOf
}

// c16Scribble writes into every map and slice below v and returns how many containers it wrote to or found empty
func c16Scribble(v any, depth int) int {
	n := 0
	switch x := v.(type) {
	case map[string]any:
		for _, e := range x {
			n += c16Scribble(e, depth+1)
		}
		if x != nil && depth > 0 {
			x["\x00written by the caller"] = depth
			n++
		}
	case []any:
		for i, e := range x {
			n += c16Scribble(e, depth+1)
			if depth > 0 {
				x[i] = "written by the caller"
			}
		}
		if depth > 0 {
			n++
		}
	}
	return n
}

// normJSON replaces nil containers by empty ones (they render as [] and {})
func normJSON(v any) any {
	switch x := v.(type) {
	case []any:
		o := make([]any, len(x))
		for i := range x {
			o[i] = normJSON(x[i])
		}
		return o
	case map[string]any:
		o := make(map[string]any, len(x))
		for k, e := range x {
			o[k] = normJSON(e)
		}
		return o
	}
	return v
}

func init() {
	core.Register(&core.Prop{
		ID:        "C16",
		Technique: "JSON-model round-trip monitor for the real JSON map/array codecs: top level, struct fields, skipped unknown fields, re-used non-nil targets, and Descriptor rendering parsed by encoding/json",
		Rule:      "random JSON-model trees (one value in sixty nested 40-130 deep; json.Number literals beyond float64 and int64; records decoded again into a map that holds their keys, the buffer then overwritten; nil, bool, int, float64 finite, string, json.Number, []any, map[string]any; depth <= 6; empty keys and strings, zeros, nil and empty containers at every position, typed-nil containers inside interfaces) as a top-level object and array, as fields of a struct between plain fields, decoded into a struct that lacks the JSON fields, decoded into non-nil targets of another shape, decoded afresh after every container of an earlier result was written to, and rendered through the codec's Descriptor. Equality treats nil and empty containers alike. distinct = distinct (object, array) pairs",
		Assume:    []string{"encoding/json as the parser of the rendering; map keys restricted to valid UTF-8 for the rendering comparison"},
		Plan: func(tier string) []core.Lane {
			if tier == "thorough" {
				return []core.Lane{{Lane: "plain", Cases: 1800000, Shards: 16, TimeoutS: 3600}}
			}
			return []core.Lane{{Lane: "plain", Cases: 12000, Shards: 16, TimeoutS: 1200}}
		},
		Case: c16Case,
	})
}
