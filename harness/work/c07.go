package work

import (
	"bytes"
	"fmt"
	"math/rand/v2"
	"reflect"
	"strings"
	"sync"
	"time"

	"github.com/philpearl/plenc"
	"github.com/philpearl/plenc/plenccodec"

	"verifharness/core"
	"verifharness/gen"
	"verifharness/model"
	"verifharness/mon"
	"verifharness/types"
)

// C07: safe for concurrent use, including concurrent first use of a type.

type c07Family struct {
	name    string
	entries []reflect.Type
}

func c07Families() []c07Family {
	T := reflect.TypeOf
	pt := reflect.PointerTo
	return []c07Family{
		{"tree", []reflect.Type{T(types.Tree{}), pt(T(types.Tree{})), T([]types.Tree(nil)), T(map[string]types.Tree(nil)), T([]*types.Tree(nil))}},
		{"ptree", []reflect.Type{T(types.PTree{}), pt(T(types.PTree{})), T([]*types.PTree(nil)), T(map[int]*types.PTree(nil))}},
		{"mutual", []reflect.Type{T(types.MutA{}), T(types.MutB{}), pt(T(types.MutA{})), T([]types.MutB(nil)), T(map[int32]*types.MutA(nil))}},
		{"triangle", []reflect.Type{T(types.Tri1{}), T(types.Tri2{}), T(types.Tri3{}), pt(T(types.Tri2{})), T([]types.Tri3(nil)), T(map[string]*types.Tri1(nil))}},
		{"diamond", []reflect.Type{T(types.Diamond{}), T(types.DiamondL{}), T(types.DiamondR{}), T(types.Leaf{}), T(types.Key{}), T([]types.Key(nil)), T(map[types.Key]types.Leaf(nil))}},
		{"keyedmaps", []reflect.Type{T(types.KeyedMaps{}), T(map[types.Key]int(nil)), T(types.Key{}), T(map[types.Key]types.Leaf(nil))}},
		{"named-intern", []reflect.Type{T(types.Named{}), T(types.Tree{}), T([]types.Named(nil)), T(types.Mixed{}), T(types.Embeds{})}},
		{"intern-on-structs", []reflect.Type{T(types.Place{}), T(types.Visit{}), T([]types.Place(nil)), pt(T(types.Visit{})), T(types.Place{}), T(map[string]types.Place(nil))}},
		{"mixed", []reflect.Type{T(types.Mixed{}), pt(T(types.Mixed{})), T([]types.Mixed(nil)), T(types.Leaf{}), T([]types.Leaf(nil))}},
		c07CustomFamily(),
	}
}

// tableStrCodec is a codec a user registers BY VALUE for the named string type types.MyStr: it
// encodes exactly like the string codec it embeds, but as a Go value it carries a table (a slice),
// so it cannot be compared or used as a map key (round 12: k07)
type tableStrCodec struct {
	plenccodec.StringCodec
	names []string
}

const c07CustomName = "custom-codec-by-value"

// c07CustomFamily: struct types that hold the custom-coded type directly and behind the pointer,
// slice and map wrappers the library builds around its codec
func c07CustomFamily() c07Family {
	ms := reflect.TypeOf(types.MyStr(""))
	inner := reflect.StructOf([]reflect.StructField{
		{Name: "S", Type: ms, Tag: `plenc:"1"`}, {Name: "P", Type: reflect.PointerTo(ms), Tag: `plenc:"2"`}, {Name: "L", Type: reflect.SliceOf(ms), Tag: `plenc:"3"`}, {Name: "N", Type: reflect.TypeOf(0), Tag: `plenc:"4"`}})
	outer := reflect.StructOf([]reflect.StructField{
		{Name: "I", Type: inner, Tag: `plenc:"1"`}, {Name: "PI", Type: reflect.PointerTo(inner), Tag: `plenc:"2"`}, {Name: "LI", Type: reflect.SliceOf(inner), Tag: `plenc:"3"`},
		{Name: "M", Type: reflect.MapOf(reflect.TypeOf(""), ms), Tag: `plenc:"4"`}, {Name: "LP", Type: reflect.SliceOf(reflect.PointerTo(ms)), Tag: `plenc:"6"`}, {Name: "X", Type: ms, Tag: `plenc:"7,intern"`}})
	return c07Family{c07CustomName, []reflect.Type{outer, inner, reflect.SliceOf(inner), reflect.PointerTo(outer), reflect.MapOf(reflect.TypeOf(""), inner), reflect.SliceOf(reflect.PointerTo(ms)), reflect.SliceOf(outer)}}
}

// famInst is a new instance for a trial on the family
func famInst(cfg model.Cfg, fam c07Family) *plenc.Plenc {
	p := instNew(cfg)
	if fam.name == c07CustomName {
		p.RegisterCodec(reflect.TypeOf(types.MyStr("")), tableStrCodec{names: []string{"a", "b"}})
	}
	return p
}

type c07Op struct {
	kind  int // 0 marshal, 1 unmarshal, 2 codecForType
	typ   reflect.Type
	value reflect.Value // for marshal
	data  []byte        // for unmarshal
	// expectations from the reference instance
	wantBytes []byte
	wantValue reflect.Value
	wantErr   bool
	byValue   bool   // Marshal(nil, v) instead of Marshal(nil, &v)
	tag       string // for codecForType: CodecForTypeWithTag with this tag option when non-empty
	wantKind  string // ... and the kind of codec the reference instance hands out for (type, tag)
}

type c07Result struct {
	op   *c07Op
	desc string
}

// runOp executes one operation on p and compares with the reference
func c07RunOp(p *plenc.Plenc, cfg model.Cfg, op *c07Op, pkgLevel bool) string {
	switch op.kind {
	case 0:
		var out []byte
		var err error
		pn := core.Guard(func() {
			arg := ptrTo(op.value)
			if op.byValue {
				arg = op.value.Interface()
			}
			if pkgLevel {
				out, err = plenc.Marshal(nil, arg)
			} else {
				out, err = p.Marshal(nil, arg)
			}
		})
		if pn != "" {
			return "Marshal panicked: " + pn
		}
		if (err != nil) != op.wantErr {
			return fmt.Sprintf("Marshal error %v, alone it gives error=%v", err, op.wantErr)
		}
		if err == nil && !bytes.Equal(out, op.wantBytes) {
			ca, e1 := cfg.Canon(op.typ, "", out)
			cb, e2 := cfg.Canon(op.typ, "", op.wantBytes)
			if e1 != nil || e2 != nil || !bytes.Equal(ca, cb) {
				return fmt.Sprintf("Marshal returned %s, alone it returns %s (value %s)", hexHead(out), hexHead(op.wantBytes), model.Show(op.value))
			}
		}
	case 1:
		target := reflect.New(op.typ)
		var err error
		pn := core.Guard(func() {
			if pkgLevel {
				err = plenc.Unmarshal(op.data, target.Interface())
			} else {
				err = p.Unmarshal(op.data, target.Interface())
			}
		})
		if pn != "" {
			return "Unmarshal panicked: " + pn
		}
		if (err != nil) != op.wantErr {
			return fmt.Sprintf("Unmarshal error %v, alone it gives error=%v", err, op.wantErr)
		}
		if err == nil {
			if d := model.Diff(op.wantValue, target.Elem(), "$"); d != "" {
				return fmt.Sprintf("Unmarshal decoded another value than alone: %s (bytes %s)", d, hexHead(op.data))
			}
		}
	case 2:
		var err error
		var cd plenccodec.Codec
		pn := core.Guard(func() {
			switch {
			case op.tag != "" && pkgLevel:
				cd, err = plenc.CodecForTypeWithTag(op.typ, op.tag)
			case op.tag != "":
				cd, err = p.CodecForTypeWithTag(op.typ, op.tag)
			case pkgLevel:
				cd, err = plenc.CodecForType(op.typ)
			default:
				cd, err = p.CodecForType(op.typ)
			}
		})
		if pn != "" {
			return "CodecForType panicked: " + pn
		}
		if (err != nil) != op.wantErr || (err == nil && cd == nil) {
			return fmt.Sprintf("CodecForType error %v, alone it gives error=%v", err, op.wantErr)
		}
		if err == nil && op.wantKind != "" && fmt.Sprintf("%T", cd) != op.wantKind {
			return fmt.Sprintf("CodecForTypeWithTag(%s, %q) handed out a %T, alone it hands out a %s", op.typ, op.tag, cd, op.wantKind)
		}
	}
	return ""
}

// appendUvarintZZ appends the zig-zag varint of v
func appendUvarintZZ(b []byte, v int64) []byte {
	return refAppendUvarint(b, uint64(v<<1)^uint64(v>>63))
}

// keyHasNaN: a float key that is NaN, or a struct key with a NaN field
func keyHasNaN(k reflect.Value) bool {
	switch k.Kind() {
	case reflect.Float32, reflect.Float64:
		return k.Float() != k.Float()
	case reflect.Struct:
		for i := 0; i < k.NumField(); i++ {
			if keyHasNaN(k.Field(i)) {
				return true
			}
		}
	}
	return false
}

// hasNaNKey reports whether v holds a map with a NaN key somewhere
func hasNaNKey(v reflect.Value, depth int) bool {
	if depth > 12 {
		return false
	}
	switch v.Kind() {
	case reflect.Ptr, reflect.Interface:
		return !v.IsNil() && hasNaNKey(v.Elem(), depth+1)
	case reflect.Struct:
		if v.Type() == model.TimeT {
			return false
		}
		for i := 0; i < v.NumField(); i++ {
			if hasNaNKey(v.Field(i), depth+1) {
				return true
			}
		}
	case reflect.Slice:
		for i := 0; i < v.Len(); i++ {
			if hasNaNKey(v.Index(i), depth+1) {
				return true
			}
		}
	case reflect.Map:
		it := v.MapRange()
		for it.Next() {
			if keyHasNaN(it.Key()) {
				return true
			}
			if hasNaNKey(it.Key(), depth+1) || hasNaNKey(it.Value(), depth+1) {
				return true
			}
		}
	}
	return false
}

// c07Prepare builds the operations of a trial and their expected results on a
// reference instance whose codecs are built sequentially
func c07Prepare(r *rand.Rand, cfg model.Cfg, fam c07Family, nworkers, nops int) [][]*c07Op {
	ref := famInst(cfg, fam)
	ops := make([][]*c07Op, nworkers)
	for w := range ops {
		for i := 0; i < nops; i++ {
			t := fam.entries[r.IntN(len(fam.entries))]
			op := &c07Op{kind: r.IntN(5) % 3, typ: t}
			if t.Kind() == reflect.Ptr && op.kind != 2 {
				t = t.Elem()
				op.typ = t
			}
			if op.kind != 2 && cfg.Repeated(t, "") {
				op.kind = 2 // known finding D25: the repeated-field form has no framing at top level
			}
			switch op.kind {
			case 0, 1:
				v := (&gen.VG{R: r, C: cfg, Budget: 60}).Value(t, "")
				data, err := ref.Marshal(nil, ptrTo(v))
				op.value, op.wantBytes, op.wantErr = v, data, err != nil
				if op.kind == 1 {
					op.data = data
					if len(data) > 1 && r.IntN(5) == 0 {
						// a damaged message among the good ones: rejected (or not) exactly as when it comes alone,
						// and without consequences for the calls around it
						op.data = damage(r, data)
					}
					tv := reflect.New(t)
					err := ref.Unmarshal(op.data, tv.Interface())
					if hasNaNKey(tv.Elem(), 0) {
						// (damage can turn a float key into NaN, which no comparison can look up again)
						op.data, tv = data, reflect.New(t)
						err = ref.Unmarshal(op.data, tv.Interface())
					}
					op.wantValue, op.wantErr = tv.Elem(), err != nil
				}
			case 2:
				// half of the codec requests name a tag option that selects another codec for the type
				if r.IntN(2) == 0 {
					switch k := op.typ.Kind(); {
					case k == reflect.Slice || k == reflect.Map:
						op.tag = "proto"
					case k >= reflect.Int && k <= reflect.Int64:
						op.tag = "flat"
					case k == reflect.String:
						op.tag = "intern"
					}
				}
				if op.tag != "" {
					cd, err := ref.CodecForTypeWithTag(op.typ, op.tag)
					op.wantErr = err != nil
					if err == nil {
						op.wantKind = fmt.Sprintf("%T", cd)
					}
				} else {
					cd, err := ref.CodecForType(op.typ)
					op.wantErr = err != nil
					if err == nil {
						op.wantKind = fmt.Sprintf("%T", cd)
					}
				}
			}
			ops[w] = append(ops[w], op)
		}
	}
	return ops
}

// conformance: after all goroutines joined, the instance must behave like the reference for every type of the family
func c07Conformance(c *core.Ctx, p *plenc.Plenc, cfg model.Cfg, fam c07Family, r *rand.Rand, pkgLevel bool) string {
	for _, op := range c07Prepare(r, cfg, fam, 1, 2*len(fam.entries))[0] {
		if d := c07RunOp(p, cfg, op, pkgLevel); d != "" {
			return fmt.Sprintf("after quiescence, on type %s: %s", op.typ, d)
		}
	}
	return ""
}

var c07YieldMode int // 0 off, 1 jitter, 2 scheduler
var c07Sched *mon.Sched

func c07Hook(point int) {
	switch c07YieldMode {
	case 1:
		mon.Jitter(point)
	case 2:
		if s := c07Sched; s != nil {
			s.Yield(point)
		}
	}
}

// c07BigTable: an interned field whose table already holds thousands of values, then decoded
// concurrently (free-running in every lane): one goroutine adds unseen values while the others
// decode known ones and check every result.
func c07BigTable(c *core.Ctx, idx int) {
	rec := c.Rec
	r := c.Rand(idx)
	p := instNew(instCfgs()[idx%4])
	enc := func(s string) []byte {
		v := c19Intern{A: s, I: 1}
		b, _ := p.Marshal(nil, &v)
		return b
	}
	n := 4200 + r.IntN(300)
	known := make([]string, n)
	for i := range known {
		known[i] = fmt.Sprintf("k-%d-%d", idx, i)
		var out c19Intern
		if err := p.Unmarshal(enc(known[i]), &out); err != nil || out.A != known[i] {
			rec.Violation("concurrent-result", fmt.Sprintf("prefill of the intern table: %v %q", err, out.A), nil)
			return
		}
	}
	var mu sync.Mutex
	var fail string
	var wg sync.WaitGroup
	start := make(chan struct{})
	for w := 0; w < 8; w++ {
		wg.Add(1)
		go func(w int) {
			defer wg.Done()
			<-start
			pn := core.Guard(func() {
				for i := 0; i < 400; i++ {
					want := known[(i*7+w*131)%n]
					if w == 0 {
						want = fmt.Sprintf("new-%d-%d", idx, i)
					}
					var out c19Intern
					if err := p.Unmarshal(enc(want), &out); err != nil || out.A != want {
						mu.Lock()
						fail = fmt.Sprintf("goroutine %d decoded %q (err %v), alone it decodes %q", w, out.A, err, want)
						mu.Unlock()
						return
					}
				}
			})
			if pn != "" {
				mu.Lock()
				fail = "panic: " + pn
				mu.Unlock()
			}
		}(w)
	}
	close(start)
	wg.Wait()
	rec.Eval(8 * 400)
	rec.Count("big_intern_table_trials", 1)
	if fail != "" {
		rec.Violation("concurrent-result", fmt.Sprintf("8 goroutines on an interned field whose table holds %d values: %s", n, fail), map[string]any{"table_size": n})
	}
}

// c07Steady: steady-state use of one long-lived instance: a few hundred top-level types (generated,
// plus structs whose only field is a pointer or a map, which Marshal receives by value inside the
// interface word), all codecs built beforehand, then 8-16 free-running goroutines that marshal (by
// pointer and by value) and unmarshal values of randomly chosen types and compare every result with
// what a reference instance returned sequentially.
func c07Steady(c *core.Ctx, idx int) {
	rec := c.Rec
	r := c.Rand(idx)
	cfg := instCfgs()[idx%4]
	name := cfgName(cfg)
	tg := &gen.TG{R: r, C: cfg, Lib: true}
	var typs []reflect.Type
	seen := map[reflect.Type]bool{}
	for len(typs) < 260 {
		t := tg.Top(2)
		if !seen[t] && !cfg.Repeated(t, "") {
			seen[t] = true
			typs = append(typs, t)
		}
	}
	for _, t := range c07DirectTypes() {
		typs = append(typs, t)
	}
	ref, p := instNew(cfg), instNew(cfg)
	nworkers := 8 + r.IntN(9)
	ops := make([][]*c07Op, nworkers)
	nops := 0
	for w := range ops {
		for i := 0; i < 160; i++ {
			t := typs[r.IntN(len(typs))]
			if i%4 == 0 {
				t = typs[len(typs)-1-r.IntN(len(c07DirectTypes()))]
			}
			op := &c07Op{kind: r.IntN(3) % 2, typ: t, byValue: r.IntN(2) == 0}
			v := (&gen.VG{R: r, C: cfg, Budget: 30}).Value(t, "")
			data, err := ref.Marshal(nil, ptrTo(v))
			op.value, op.wantBytes, op.wantErr = v, data, err != nil
			if op.kind == 1 {
				op.data = data
				if len(data) > 1 && r.IntN(6) == 0 {
					op.data = damage(r, data)
				}
				tv := reflect.New(t)
				err := ref.Unmarshal(op.data, tv.Interface())
				if hasNaNKey(tv.Elem(), 0) {
					op.data, tv = data, reflect.New(t)
					err = ref.Unmarshal(op.data, tv.Interface())
				}
				op.wantValue, op.wantErr = tv.Elem(), err != nil
			}
			ops[w] = append(ops[w], op)
			nops++
		}
	}
	// every codec exists before the goroutines start
	for _, t := range typs {
		if _, err := p.CodecForType(t); err != nil {
			rec.Violation("concurrent-result", fmt.Sprintf("[%s] CodecForType(%s): %v", name, typeString(t), err), nil)
			return
		}
	}
	var mu sync.Mutex
	var fail string
	var wg sync.WaitGroup
	start := make(chan struct{})
	for w := range ops {
		wg.Add(1)
		go func(w int) {
			defer wg.Done()
			<-start
			for k := 0; k < 6*len(ops[w]); k++ {
				i := k % len(ops[w])
				op := ops[w][i]
				if d := c07RunOp(p, cfg, op, false); d != "" {
					mu.Lock()
					if fail == "" {
						how := ""
						if op.kind == 0 && op.byValue {
							how = " by value"
						}
						fail = fmt.Sprintf("goroutine %d op %d (%s%s %s): %s", w, i, []string{"Marshal", "Unmarshal"}[op.kind], how, typeString(op.typ), d)
					}
					mu.Unlock()
					return
				}
			}
		}(w)
	}
	close(start)
	wg.Wait()
	rec.Eval(6 * nops)
	rec.Count("steady_state_trials", 1)
	rec.NonTrivial(core.Hash64("steady", name, fmt.Sprint(idx)))
	if fail != "" {
		rec.Violation("concurrent-result", fmt.Sprintf("[%s] %d goroutines on a long-lived instance with %d top-level types, all codecs built beforehand: %s", name, nworkers, len(typs), fail), map[string]any{"config": name, "goroutines": nworkers, "types": len(typs)})
	}
}

// c07Deep: a recursive value a thousand levels deep (a linked list) decoded and encoded by 32
// goroutines at once on one instance: whatever a codec counts or keeps per call must be per call,
// not per codec
func c07Deep(c *core.Ctx, idx int) {
	rec := c.Rec
	r := c.Rand(idx)
	cfg := instCfgs()[idx%4]
	name := cfgName(cfg)
	depth := []int{1000, 1300}[r.IntN(2)] // (encoding a list costs the square of its depth)
	var head *types.Tree
	for i := 0; i < depth; i++ {
		head = &types.Tree{V: i + 1, Next: head}
	}
	p := instNew(cfg)
	data, err := p.Marshal(nil, head)
	if err != nil {
		rec.Violation("concurrent-result", fmt.Sprintf("[%s] Marshal of a list %d deep: %v", name, depth, err), nil)
		return
	}
	// a deeper list for the decoders (its bytes are assembled from the inside out: encoding it with
	// Marshal would cost the square of its depth)
	const deep = 4000
	var deepData []byte
	for i := 0; i < deep; i++ {
		body := append([]byte{0x08}, appendUvarintZZ(nil, int64(i+1))...)
		if len(deepData) > 0 {
			body = append(body, 0x1a) // field 3 (Next), length-delimited
			body = refAppendUvarint(body, uint64(len(deepData)))
			body = append(body, deepData...)
		}
		deepData = body
	}
	var first types.Tree
	if err := p.Unmarshal(deepData, &first); err != nil {
		rec.Violation("concurrent-result", fmt.Sprintf("[%s] Unmarshal of a list %d deep, alone: %v", name, deep, err), nil)
		return
	}
	const g, per = 32, 12
	var wg sync.WaitGroup
	fails := make([]string, g)
	start := make(chan struct{})
	for w := 0; w < g; w++ {
		wg.Add(1)
		go func(w int) {
			defer wg.Done()
			<-start
			// everybody encodes the list first, at the same moment
			if again, err := p.Marshal(nil, head); err != nil || !bytes.Equal(again, data) {
				fails[w] = fmt.Sprintf("Marshal gives other bytes than alone (%v)", err)
				return
			}
			for k := 0; k < per && fails[w] == ""; k++ {
				pn := core.Guard(func() {
					var out types.Tree
					if err := p.Unmarshal(deepData, &out); err != nil {
						fails[w] = fmt.Sprintf("Unmarshal of a list %d levels deep: %v", deep, err)
						return
					}
					n := 0
					for t := &out; t != nil; t = t.Next {
						n++
					}
					if n != deep {
						fails[w] = fmt.Sprintf("decoded %d of %d levels", n, deep)
						return
					}
				})
				if pn != "" {
					fails[w] = "panic: " + trunc1(pn)
				}
			}
		}(w)
	}
	close(start)
	wg.Wait()
	rec.Eval(g * per)
	rec.Count("deep_value_trials", 1)
	rec.NonTrivial(core.Hash64("deep", name, fmt.Sprint(idx)))
	for w, f := range fails {
		if f != "" {
			rec.Violation("concurrent-result", fmt.Sprintf("[%s] %d goroutines encoding a list %d levels deep and decoding one %d levels deep, which both work alone: goroutine %d: %s", name, g, depth, deep, w, f), map[string]any{"depth": depth})
			return
		}
	}
}

// c07DirectTypes: structs that Go stores directly in an interface word
func c07DirectTypes() []reflect.Type {
	T := reflect.TypeOf
	return []reflect.Type{
		T(struct {
			P *types.Leaf `plenc:"1"`
		}{}),
		T(struct {
			M map[string]int `plenc:"2"`
		}{}),
		T(struct {
			P *int64 `plenc:"3"`
		}{}),
		T(struct {
			P *types.Tree `plenc:"1"`
		}{}),
	}
}

// c07BigNested: 16 goroutines, each with a value of its own whose nested structs encode to 16 KiB
// and more, every one of another size, marshal at once through the one shared codec: sizes,
// length prefixes and bodies of a call are those of its own value.
func c07BigNested(c *core.Ctx, idx int) {
	rec := c.Rec
	r := c.Rand(idx)
	cfg := instCfgs()[idx%4]
	name := cfgName(cfg)
	p := instNew(cfg)
	const g = 16
	vals := make([]*types.BigOut, g)
	refs := make([][]byte, g)
	for w := range vals {
		mk := func(k int) types.BigIn {
			n := []int{200, 16384, 20000, 70000}[r.IntN(4)] + 700*w + 13*k
			return types.BigIn{S: strings.Repeat(string(rune('a'+w)), n), B: bytes.Repeat([]byte{byte(w)}, n/3), N: make([]int32, r.IntN(50))}
		}
		in := mk(1)
		vals[w] = &types.BigOut{ID: w, In: mk(0), P: &in, L: []types.BigIn{mk(2), mk(3)}, M: map[string]types.BigIn{"k": mk(4)}, Tail: fmt.Sprint("tail", w)}
		b, err, pn := marshal(p, nil, vals[w])
		if err != nil || pn != "" {
			rec.Violation("marshal-error", fmt.Sprintf("[%s] %v %s", name, err, pn), nil)
			return
		}
		refs[w] = b
	}
	rounds := 40
	if c.Lane == "race" {
		rounds = 6
	}
	var wg sync.WaitGroup
	fails := make([]string, g)
	start := make(chan struct{})
	for w := 0; w < g; w++ {
		wg.Add(1)
		go func(w int) {
			defer wg.Done()
			<-start
			var buf []byte
			for k := 0; k < rounds && fails[w] == ""; k++ {
				var err error
				var out []byte
				pn := core.Guard(func() { out, err = p.Marshal(buf[:0], vals[w]) })
				if err != nil || pn != "" || !bytes.Equal(out, refs[w]) {
					at := 0
					for at < len(out) && at < len(refs[w]) && out[at] == refs[w][at] {
						at++
					}
					fails[w] = fmt.Sprintf("goroutine %d, call %d: Marshal gives %d bytes, alone %d bytes, first difference at offset %d (%v %s)", w, k, len(out), len(refs[w]), at, err, trunc1(pn))
					return
				}
				buf = out
				if k%8 == 3 {
					var back types.BigOut
					if err, pn := unmarshal(p, out, &back); err != nil || pn != "" || back.In.S != vals[w].In.S || back.Tail != vals[w].Tail || len(back.L) != 2 || back.L[1].S != vals[w].L[1].S {
						fails[w] = fmt.Sprintf("goroutine %d, call %d: Unmarshal of the bytes differs from the value (%v %s)", w, k, err, trunc1(pn))
						return
					}
				}
			}
		}(w)
	}
	close(start)
	wg.Wait()
	rec.Eval(g * rounds)
	rec.Count("big_nested_concurrent_marshals", g*rounds)
	rec.NonTrivial(core.Hash64("bignested", name, fmt.Sprint(idx)))
	for _, f := range fails {
		if f != "" {
			rec.Violation("concurrent-result", fmt.Sprintf("[%s] %d goroutines marshalling values with nested structs of 16 KiB and more, each of another size: %s", name, g, f), nil)
			return
		}
	}
}

func c07Case(c *core.Ctx, idx int) {
	if c.Lane == "systematic" {
		c07Systematic(c, idx)
		return
	}
	if idx%101 == 7 {
		c07BigNested(c, idx)
		return
	}
	if idx%397 == 5 {
		c07BigTable(c, idx)
		return
	}
	if idx%199 == 3 {
		c07Steady(c, idx)
		return
	}
	if idx%211 == 17 {
		c07Deep(c, idx)
		return
	}
	rec := c.Rec
	r := c.Rand(idx)
	fams := c07Families()
	fam := fams[idx%len(fams)]
	cfgs := instCfgs()
	cfg := cfgs[(idx/len(fams))%4]
	name := cfgName(cfg)
	nworkers := 2 + r.IntN(7)
	nops := 2 + r.IntN(4)
	pkgLevel := false
	if idx < c.NShards {
		// the first case of every shard exercises the package-level default instance, whose first use happens once per process
		pkgLevel = true
		cfg = model.Cfg{}
		name = "package-level default"
		fam = c07Family{"all-library-types", types.All}
		nworkers = 8
		nops = 4
	}
	ops := c07Prepare(r, cfg, fam, nworkers, nops)
	p := famInst(cfg, fam) // fresh instance: first use happens in this trial
	var mu sync.Mutex
	var failures []string
	fns := make([]func(), nworkers)
	for w := range fns {
		w := w
		fns[w] = func() {
			for i, op := range ops[w] {
				if d := c07RunOp(p, cfg, op, pkgLevel); d != "" {
					mu.Lock()
					failures = append(failures, fmt.Sprintf("goroutine %d op %d (%s %s): %s", w, i, []string{"Marshal", "Unmarshal", "CodecForType"}[op.kind], op.typ, d))
					mu.Unlock()
				}
			}
		}
	}
	rec.Eval(nworkers * nops)
	rec.Count("trials", 1)
	rec.Count("family_"+fam.name, 1)
	extra := map[string]any{"family": fam.name, "config": name, "goroutines": nworkers, "ops_per_goroutine": nops}
	if c.Lane == "race" {
		// free-running under the race detector, delays at the yield points
		c07YieldMode = 1
		start := make(chan struct{})
		var wg sync.WaitGroup
		for _, fn := range fns {
			wg.Add(1)
			go func(fn func()) {
				defer wg.Done()
				<-start
				fn()
			}(fn)
		}
		close(start)
		wg.Wait()
		c07YieldMode = 0
		rec.NonTrivial(core.Hash64(fam.name, name, fmt.Sprint(idx)))
	} else {
		// serialised: exactly one goroutine runs at a time, switching at yield points only
		s := mon.NewSched(c.RandFor(idx, "sched"), nworkers, r.IntN(4), 40+r.IntN(200))
		c07Sched = s
		c07YieldMode = 2
		ok := s.Run(fns)
		c07YieldMode = 0
		c07Sched = nil
		rec.Count("blocked_worker_bypassed", s.Blocked)
		rec.Count("idle_but_runnable_not_a_deadlock", s.Starved)
		if !ok && s.Why == "watchdog" {
			rec.Count("inconclusive_trials", 1)
			return
		}
		if !ok {
			rec.Violation("scheduler-stuck", fmt.Sprintf("[%s] family %s: every unfinished goroutine is blocked and the process has been idle for 3 s (deadlock)", name, fam.name), extra)
			return
		}
		h := core.Hash64(fam.name, name)
		for _, t := range s.Trace {
			h = h*1099511628211 ^ uint64(t)
		}
		rec.Distinct("interleavings", h)
		if len(s.Trace) > 2 {
			rec.NonTrivial(h)
		}
		rec.Max("yield_points_per_trial", float64(len(s.Trace)))
		extra["schedule_seed_stream"] = "sched"
		if rec.WantSample() && len(s.Trace) > 10 {
			tr := make([]string, 0, 24)
			for _, t := range s.Trace[:min(24, len(s.Trace))] {
				tr = append(tr, fmt.Sprintf("g%d@%d", t>>8, t&0xff))
			}
			rec.Sample(map[string]any{"family": fam.name, "config": name, "goroutines": nworkers, "ops_per_goroutine": nops, "trace_prefix(goroutine@yieldpoint)": tr, "yields": len(s.Trace)})
		}
	}
	if len(failures) > 0 {
		rec.Violation("concurrent-result", fmt.Sprintf("[%s] family %s, %d goroutines on a fresh instance: %s", name, fam.name, nworkers, failures[0]), extra)
		return
	}
	if d := c07Conformance(c, p, cfg, fam, c.RandFor(idx, "conf"), pkgLevel); d != "" {
		rec.Violation("broken-codec-published", fmt.Sprintf("[%s] family %s: %s", name, fam.name, d), extra)
	}
}

func init() {
	core.Register(&core.Prop{
		ID:        "C07",
		Technique: "Go race detector over free-running concurrent first use on fresh instances (delays injected at verif yield hooks) + serialising PCT scheduler at the yield hooks with a sequentially built reference instance as oracle + post-quiescence conformance of the shared instance",
		Rule: "every 101st case: 16 goroutines x 40 Marshal calls of values whose nested structs encode to 16 KiB and more, each of another size, compared with the call alone. Otherwise one trial = a fresh Plenc instance (so every codec is built for the first time inside the trial), one of 9 type families (self-recursive through slice/pointer/map, mutually recursive pair and triple, diamond, struct-keyed maps, named/interned, the intern option on struct-typed fields, mixed), 2-8 goroutines x 2-5 operations (Marshal / Unmarshal / CodecForType / CodecForTypeWithTag with the option that selects another codec, on entry types of the family) whose results were pre-computed on a reference instance; the first case of every shard uses the package-level default instance over all library types. Every 397th case is a big-table trial (an interned field holding 4200+ values, 8 free-running goroutines), every 199th a steady-state trial (about 260 generated top-level types plus structs stored directly in the interface word on one instance, all codecs built beforehand, 8-16 free-running goroutines x 960 Marshal by pointer / by value and Unmarshal calls). " +
			"plain lane: a serialising scheduler with PCT priorities switches goroutines at the 6 yield hooks only - the trace of (goroutine, yield point) pairs is the interleaving; distinct_nontrivial counts distinct trace hashes. race lane: the same trials free-running with non-synchronising delays at the hooks; any race report is a violation.",
		Exhaustive: []string{"thorough tier, lane systematic: for 2 goroutines x 3 operations on each of the 9 type families, ALL schedules with at most 3 preemptions at yield points, both start orders (stateless re-execution on fresh instances)"},
		Assume:     []string{"yield hooks cover the registry load/store, the struct field loop, the intern-table miss and the map scratch pool; preemption elsewhere is only reached by the free-running lane", "the race detector's happens-before analysis"},
		Plan: func(tier string) []core.Lane {
			if tier == "thorough" {
				return []core.Lane{{Lane: "plain", Cases: 600000, Shards: 16, TimeoutS: 7200}, {Lane: "race", Cases: 90000, Shards: 16, TimeoutS: 7200},
					{Lane: "systematic", Cases: len(c07Scenarios()) * c07SysBlocks, Shards: 16, TimeoutS: 7200}}
			}
			return []core.Lane{{Lane: "plain", Cases: 16000, Shards: 16, TimeoutS: 1800}, {Lane: "race", Cases: 2400, Shards: 16, TimeoutS: 1800}}
		},
		Setup: func(c *core.Ctx) { plenccodec.SetVerifYield(c07Hook) },
		Case:  c07Case,
	})
	_ = time.Now
}

// ---- driver 3: bounded-systematic enumeration (thorough tier, lane "systematic") ----

const c07SysBlocks = 256 // cases per scenario; each handles the schedules with index = block (mod 256)

const c07MaxPreempt = 3

type c07Scenario struct {
	fam c07Family
	cfg int
}

func c07Scenarios() []c07Scenario {
	fams := c07Families()
	var out []c07Scenario
	for i, f := range fams {
		out = append(out, c07Scenario{f, i % 4})
	}
	return out
}

// c07Systematic executes, for one scenario, every schedule of 2 goroutines with
// at most c07MaxPreempt preemptions at yield points (both start orders) whose index falls in
// this case's block. The operations are a fixed function of the scenario.
func c07Systematic(c *core.Ctx, idx int) {
	rec := c.Rec
	scs := c07Scenarios()
	sc := scs[idx%len(scs)]
	block := idx / len(scs)
	cfg := instCfgs()[sc.cfg]
	name := cfgName(cfg)
	r := rand.New(rand.NewPCG(uint64(c.Seed), uint64(idx%len(scs))+77))
	ops := c07Prepare(r, cfg, sc.fam, 2, 3)
	exec := func(first int, switches []int) (steps int, fail string, stuck bool) {
		p := famInst(cfg, sc.fam)
		var mu sync.Mutex
		var failures []string
		fns := make([]func(), 2)
		for w := range fns {
			w := w
			fns[w] = func() {
				for i, op := range ops[w] {
					if d := c07RunOp(p, cfg, op, false); d != "" {
						mu.Lock()
						failures = append(failures, fmt.Sprintf("goroutine %d op %d (%s %s): %s", w, i, []string{"Marshal", "Unmarshal", "CodecForType"}[op.kind], op.typ, d))
						mu.Unlock()
					}
				}
			}
		}
		s := mon.NewPlanSched(2, first, switches)
		c07Sched = s
		c07YieldMode = 2
		ok := s.Run(fns)
		c07YieldMode = 0
		c07Sched = nil
		rec.Count("blocked_worker_bypassed", s.Blocked)
		rec.Count("idle_but_runnable_not_a_deadlock", s.Starved)
		if !ok && s.Why == "watchdog" {
			rec.Count("inconclusive_trials", 1)
			return s.Steps(), "", false
		}
		if !ok {
			return s.Steps(), "", true
		}
		if len(failures) > 0 {
			return s.Steps(), failures[0], false
		}
		// the instance must be left in a conforming state: re-run both goroutines' operations sequentially
		for w := range ops {
			for _, op := range ops[w] {
				if d := c07RunOp(p, cfg, op, false); d != "" {
					return s.Steps(), "after quiescence: " + d, false
				}
			}
		}
		return s.Steps(), "", false
	}
	// the number of yield steps of the unpreempted runs bounds the useful switch positions
	n0, _, _ := exec(0, nil)
	n1, _, _ := exec(1, nil)
	n := max(n0, n1) + 2
	k := 0
	run := func(first int, sw []int) bool {
		mine := k%c07SysBlocks == block
		k++
		if !mine {
			return true
		}
		rec.Eval(1)
		steps, fail, stuck := exec(first, sw)
		rec.NonTrivial(core.Hash64(sc.fam.name, fmt.Sprint(first, sw)))
		rec.Max("yield_steps", float64(steps))
		extra := map[string]any{"family": sc.fam.name, "config": name, "first": first, "switch_at_steps": fmt.Sprint(sw)}
		if stuck {
			rec.Violation("scheduler-stuck", fmt.Sprintf("[%s] family %s, start goroutine %d, preempt at steps %v: the goroutines stopped making progress", name, sc.fam.name, first, sw), extra)
			return false
		}
		if fail != "" {
			rec.Violation("concurrent-result", fmt.Sprintf("[%s] family %s, 2 goroutines on a fresh instance, start goroutine %d, preempt at yield steps %v: %s", name, sc.fam.name, first, sw, fail), extra)
			return false
		}
		return true
	}
	var enum func(first int, sw []int, from int) bool
	enum = func(first int, sw []int, from int) bool {
		if !run(first, append([]int(nil), sw...)) {
			return false
		}
		if len(sw) == c07MaxPreempt {
			return true
		}
		for i := from; i <= n; i++ {
			if !enum(first, append(sw, i), i+1) {
				return false
			}
		}
		return true
	}
	for first := 0; first < 2; first++ {
		if !enum(first, nil, 1) {
			return
		}
	}
	rec.Count("systematic_schedules_in_space", k)
	if block == 0 && rec.WantSample() {
		rec.Sample(map[string]any{"lane": "systematic", "family": sc.fam.name, "config": name, "yield_steps_unpreempted": []int{n0, n1}, "schedules_with_at_most_3_preemptions": k})
	}
}
