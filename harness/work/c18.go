package work

import (
	"bytes"
	"encoding/binary"
	"fmt"
	"math/bits"
	"math/rand/v2"
	"syscall"

	"github.com/philpearl/plenc/plenccore"
	"google.golang.org/protobuf/encoding/protowire"

	"verifharness/core"
)

// C18: varint, zig-zag, tag and skip primitives.

// refAppendUvarint is our own varint writer, written from the protobuf encoding
// documentation (base-128, little endian groups, continuation bit).
func refAppendUvarint(b []byte, v uint64) []byte {
	for {
		c := byte(v & 0x7f)
		v >>= 7
		if v != 0 {
			b = append(b, c|0x80)
		} else {
			return append(b, c)
		}
	}
}

func refSizeUvarint(v uint64) int {
	n := 1
	for v >= 0x80 {
		v >>= 7
		n++
	}
	return n
}

func refZigZag(v int64) uint64 {
	if v >= 0 {
		return uint64(v) * 2
	}
	return uint64(-(v+1))*2 + 1
}

type c18state struct {
	buf []byte
}

func c18CheckU(c *core.Ctx, st *c18state, v uint64) {
	rec := c.Rec
	st.buf = plenccore.AppendVarUint(st.buf[:0], v)
	got := st.buf
	var refb [10]byte
	ref := refAppendUvarint(refb[:0], v)
	if !bytes.Equal(got, ref) {
		rec.Violation("varint-bytes", fmt.Sprintf("AppendVarUint(%d) = %x, reference %x", v, got, ref), nil)
		return
	}
	if s := plenccore.SizeVarUint(v); s != len(got) {
		rec.Violation("varint-size", fmt.Sprintf("SizeVarUint(%d) = %d but AppendVarUint wrote %d bytes", v, s, len(got)), nil)
	}
	rv, n := plenccore.ReadVarUint(got)
	if rv != v || n != len(got) {
		rec.Violation("varint-read", fmt.Sprintf("ReadVarUint(%x) = (%d,%d) want (%d,%d)", got, rv, n, v, len(got)), nil)
	}
	// the same value in every longer-than-necessary width up to ten bytes reads back as itself
	if pow2 := func(x uint64) bool { return x&(x-1) == 0 }; v&0xff == 0x5a || pow2(v) || pow2(v+1) {
		for w := len(ref) + 1; w <= 10; w++ {
			in := append([]byte(nil), ref...)
			in[len(in)-1] |= 0x80
			for len(in) < w-1 {
				in = append(in, 0x80)
			}
			in = append(in, 0x00)
			want, wn := binary.Uvarint(in)
			rv, n := plenccore.ReadVarUint(in)
			if rv != want || n != wn {
				rec.Violation("varint-read", fmt.Sprintf("ReadVarUint(%x) (%d written in %d bytes) = (%d,%d), encoding/binary reads (%d,%d)", in, v, w, rv, n, want, wn), nil)
				break
			}
		}
	}
	// appended to destinations of every shape: 0-3 bytes of content, 0-11 bytes of spare capacity
	// (none, less than the varint needs, exactly enough, more): content kept, same bytes after it
	if pow2 := func(x uint64) bool { return x&(x-1) == 0 }; v&0xff == 0x5a || pow2(v) || pow2(v+1) || pow2(v-1) {
		for l := 0; l <= 3; l++ {
			for spare := 0; spare <= 11; spare++ {
				dst := make([]byte, l+spare)
				for i := range dst {
					dst[i] = 0xE0 + byte(i)
				}
				out := plenccore.AppendVarUint(dst[:l:l+spare], v)
				ok := len(out) == l+len(ref) && bytes.Equal(out[l:], ref)
				for i := 0; ok && i < l; i++ {
					ok = out[i] == 0xE0+byte(i)
				}
				if !ok {
					rec.Violation("varint-append-prefix", fmt.Sprintf("AppendVarUint(dst with len %d cap %d, %d) = %x, want the %d content bytes e0.. followed by %x", l, l+spare, v, out, l, ref), nil)
					return
				}
			}
		}
		rec.Count("destination_shapes_tried", 48)
	}
	if v&0xff == 0x5a {
		pre := []byte{0xAA, 0xBB}
		out := plenccore.AppendVarUint(pre, v)
		if len(out) != 2+len(ref) || out[0] != 0xAA || out[1] != 0xBB || !bytes.Equal(out[2:], ref) {
			rec.Violation("varint-append-prefix", fmt.Sprintf("AppendVarUint(prefix,%d) = %x", v, out), nil)
		}
		// with trailing garbage the read must stop at the varint's end
		g := append(append([]byte{}, ref...), 0xff, 0x01)
		rv, n := plenccore.ReadVarUint(g)
		if rv != v || n != len(ref) {
			rec.Violation("varint-read-trailing", fmt.Sprintf("ReadVarUint(%x) = (%d,%d) want (%d,%d)", g, rv, n, v, len(ref)), nil)
		}
	}
}

func c18CheckI(c *core.Ctx, st *c18state, v int64) {
	rec := c.Rec
	z := plenccore.ZigZag(v)
	if rz := refZigZag(v); z != rz {
		rec.Violation("zigzag", fmt.Sprintf("ZigZag(%d) = %d, reference %d", v, z, rz), nil)
		return
	}
	if back := plenccore.ZagZig(z); back != v {
		rec.Violation("zagzig", fmt.Sprintf("ZagZig(ZigZag(%d)) = %d", v, back), nil)
	}
	// magnitude -> code length: |v| < 2^(7k-1) must give at most k bytes
	mag := uint64(v)
	if v < 0 {
		mag = uint64(^v) // -v-1, so that -2^(7k-1) still fits k bytes
	}
	k := (bits.Len64(mag) + 1 + 6) / 7
	if k == 0 {
		k = 1
	}
	if s := plenccore.SizeVarInt(v); s != k {
		rec.Violation("zigzag-length", fmt.Sprintf("SizeVarInt(%d) = %d, magnitude needs %d bytes", v, s, k), nil)
	}
	st.buf = plenccore.AppendVarInt(st.buf[:0], v)
	if len(st.buf) != k {
		rec.Violation("zigzag-length", fmt.Sprintf("AppendVarInt(%d) wrote %d bytes, want %d", v, len(st.buf), k), nil)
	}
	rv, n := plenccore.ReadVarInt(st.buf)
	if rv != v || n != len(st.buf) {
		rec.Violation("varint-read", fmt.Sprintf("ReadVarInt(%x) = (%d,%d) want (%d,%d)", st.buf, rv, n, v, len(st.buf)), nil)
	}
}

func c18CheckProtowire(c *core.Ctx, v uint64) {
	pw := protowire.AppendVarint(nil, v)
	got := plenccore.AppendVarUint(nil, v)
	if !bytes.Equal(pw, got) {
		c.Rec.Violation("varint-protowire", fmt.Sprintf("AppendVarUint(%d) = %x, protowire %x", v, got, pw), nil)
	}
	if protowire.SizeVarint(v) != plenccore.SizeVarUint(v) {
		c.Rec.Violation("varint-protowire-size", fmt.Sprintf("SizeVarUint(%d) = %d, protowire %d", v, plenccore.SizeVarUint(v), protowire.SizeVarint(v)), nil)
	}
	if uint64(protowire.EncodeZigZag(int64(v))) != plenccore.ZigZag(int64(v)) {
		c.Rec.Violation("zigzag-protowire", fmt.Sprintf("ZigZag(%d)", int64(v)), nil)
	}
	if protowire.DecodeZigZag(v) != plenccore.ZagZig(v) {
		c.Rec.Violation("zagzig-protowire", fmt.Sprintf("ZagZig(%d) = %d, protowire %d", v, plenccore.ZagZig(v), protowire.DecodeZigZag(v)), nil)
	}
}

func c18Both(c *core.Ctx, st *c18state, v uint64) {
	c18CheckU(c, st, v)
	c18CheckI(c, st, int64(v))
}

// boundary values: 2^k-1, 2^k, 2^k+1 and negatives
func c18Boundaries(c *core.Ctx, st *c18state) {
	n := 0
	for k := 0; k < 64; k++ {
		for _, d := range []int64{-2, -1, 0, 1, 2} {
			v := uint64(1)<<uint(k) + uint64(d)
			for _, u := range []uint64{v, -v, ^v, plenccore.ZigZag(int64(v)), uint64(plenccore.ZagZig(v))} {
				c18Both(c, st, u)
				c18CheckProtowire(c, u)
				c.Rec.NonTrivial(u)
				n++
			}
		}
	}
	c.Rec.Eval(n)
	c.Rec.Count("boundary_values", n)
}

func c18Tags(c *core.Ctx, lo, hi int) {
	n := 0
	idxs := make([]int, 0, hi-lo+64)
	for i := lo; i < hi; i++ {
		idxs = append(idxs, i)
	}
	if lo == 0 {
		for k := 3; k <= 28; k++ {
			idxs = append(idxs, 1<<uint(k)-1, 1<<uint(k), 1<<uint(k)+1)
		}
		// and up to the largest index a 64-bit tag can carry (ten-byte tags with the top bit set)
		for k := 29; k <= 60; k++ {
			idxs = append(idxs, 1<<uint(k)-1, 1<<uint(k), 1<<uint(k)+12345)
		}
		idxs = append(idxs, 1<<61-1)
	}
	// beyond the dense range: every 61st and every 8191st index, so that the inside of every tag
	// length class is visited, not only its edges
	for i := lo; i < hi; i++ {
		idxs = append(idxs, i*61+17)
		if j := i*8191 + 5; j < 1<<28 {
			idxs = append(idxs, j)
		}
	}
	for _, idx := range idxs {
		for wt := plenccore.WTVarInt; wt <= plenccore.WT32; wt++ {
			b := plenccore.AppendTag([]byte{0x7}, wt, idx)
			want := refAppendUvarint([]byte{0x7}, uint64(idx)<<3|uint64(wt))
			if !bytes.Equal(b, want) {
				c.Rec.Violation("tag-bytes", fmt.Sprintf("AppendTag(wt=%d,index=%d) = %x want %x", wt, idx, b, want), nil)
			}
			if s := plenccore.SizeTag(wt, idx); s != len(b)-1 {
				c.Rec.Violation("tag-size", fmt.Sprintf("SizeTag(wt=%d,index=%d) = %d, appended %d", wt, idx, s, len(b)-1), nil)
			}
			gwt, gidx, gn := plenccore.ReadTag(b[1:])
			if gwt != wt || gidx != idx || gn != len(b)-1 {
				c.Rec.Violation("tag-read", fmt.Sprintf("ReadTag(%x) = (wt %d, index %d, n %d) want (%d,%d,%d)", b[1:], gwt, gidx, gn, wt, idx, len(b)-1), nil)
			}
			// the result belongs to the caller, whatever the destination was (nil, empty with room, empty
			// without): the field is appended onto it, and tags asked for afterwards are what they were
			for k, dst := range [][]byte{nil, make([]byte, 0, 32), {}} {
				t := plenccore.AppendTag(dst, wt, idx)
				if !bytes.Equal(t, want[1:]) {
					c.Rec.Violation("tag-bytes", fmt.Sprintf("AppendTag(destination %d, wt=%d,index=%d) = %x want %x", k, wt, idx, t, want[1:]), nil)
					break
				}
				t = append(t, 0xAA, 0xAA, 0xAA, 0xAA, 0xAA, 0xAA, 0xAA, 0xAA, 0xAA, 0xAA, 0xAA, 0xAA, 0xAA, 0xAA, 0xAA, 0xAA, 0xAA, 0xAA, 0xAA, 0xAA)
				bad := false
				for d := 0; d <= 20 && !bad; d++ {
					tv := uint64(idx)<<3 | uint64(wt) + uint64(d)
					if tv>>3 >= 1<<61 {
						break
					}
					again := plenccore.AppendTag(nil, plenccore.WireType(tv&7), int(tv>>3))
					if w := refAppendUvarint(nil, tv); !bytes.Equal(again, w) {
						c.Rec.Violation("tag-bytes", fmt.Sprintf("after a field was appended onto the result of AppendTag(destination %d, wt=%d, index=%d), AppendTag(nil, wt=%d, index=%d) = %x want %x", k, wt, idx, tv&7, tv>>3, again, w), nil)
						bad = true
					}
				}
				if bad {
					break
				}
			}
			// a tag is followed by its field: the same tag with 1, 3 and 9 more bytes behind it
			for _, tail := range [][]byte{{0x00}, {0xff, 0x01, 0x80}, {0x80, 0x80, 0x80, 0x80, 0x80, 0x80, 0x80, 0x80, 0x01}} {
				in := append(append([]byte(nil), b[1:]...), tail...)
				gwt, gidx, gn := plenccore.ReadTag(in)
				if gwt != wt || gidx != idx || gn != len(b)-1 {
					c.Rec.Violation("tag-read", fmt.Sprintf("ReadTag(%x) (a tag followed by %d more bytes) = (wt %d, index %d, n %d) want (%d,%d,%d)", in, len(tail), gwt, gidx, gn, wt, idx, len(b)-1), nil)
					break
				}
			}
			if wt <= 2 || wt == 5 {
				num, typ, n := protowire.ConsumeTag(b[1:])
				if idx >= 1 && idx < 1<<29 && (int(num) != idx || int(typ) != int(wt) || n != len(b)-1) {
					c.Rec.Violation("tag-protowire", fmt.Sprintf("protowire.ConsumeTag(%x) = (%d,%d,%d) want (%d,%d,%d)", b[1:], num, typ, n, idx, wt, len(b)-1), nil)
				}
			}
			n++
		}
	}
	c.Rec.Eval(n)
	c.Rec.Count("tags", n)
}

// Skip on well-formed fields of every wire type, built by our own encoder, with
// trailing bytes after the field (Skip must return exactly the field's length).
func c18SkipWellFormed(c *core.Ctx, idx int) {
	r := c.Rand(idx)
	n := 0
	for i := 0; i < 2000; i++ {
		var field []byte
		wt := []plenccore.WireType{plenccore.WTVarInt, plenccore.WT64, plenccore.WTLength, plenccore.WTSlice, plenccore.WT32}[r.IntN(5)]
		switch wt {
		case plenccore.WTVarInt:
			field = refAppendUvarint(nil, r.Uint64()>>uint(r.IntN(64)))
		case plenccore.WT64:
			field = make([]byte, 8)
			for j := range field {
				field[j] = byte(r.Uint32())
			}
		case plenccore.WT32:
			field = make([]byte, 4)
			for j := range field {
				field[j] = byte(r.Uint32())
			}
		case plenccore.WTLength:
			l := []int{0, 1, 2, 127, 128, 129, 300, 16383, 16384}[r.IntN(9)]
			field = padUvarint(r, nil, uint64(l))
			for j := 0; j < l; j++ {
				field = append(field, byte(r.Uint32()))
			}
		case plenccore.WTSlice:
			cnt := []int{0, 1, 2, 3, 127, 128, 200}[r.IntN(7)]
			field = padUvarint(r, nil, uint64(cnt))
			for k := 0; k < cnt; k++ {
				l := []int{0, 0, 1, 5, 127, 128, 200}[r.IntN(7)]
				field = padUvarint(r, field, uint64(l))
				for j := 0; j < l; j++ {
					field = append(field, byte(r.Uint32()))
				}
			}
		}
		trail := r.IntN(4)
		data := append(append([]byte{}, field...), bytes.Repeat([]byte{0xff}, trail)...)
		if wt == plenccore.WTSlice && trail > 0 {
			// a count of 0 followed by data is still just the count
		}
		got, err := plenccore.Skip(data, wt)
		if err != nil || got != len(field) {
			c.Rec.Violation("skip-wellformed", fmt.Sprintf("Skip(wt=%d, %d-byte field %x..., %d trailing bytes) = (%d, %v) want %d", wt, len(field), head(field, 16), trail, got, err, len(field)), nil)
		}
		// every strict prefix of the field is truncated: error, or at most the bytes present
		if len(field) > 0 {
			cut := r.IntN(len(field))
			pre := field[:cut]
			if p := core.Guard(func() {
				got, err := plenccore.Skip(pre, wt)
				if err == nil && got > len(pre) {
					c.Rec.Violation("skip-overrun", fmt.Sprintf("Skip(wt=%d, %x) = %d > %d bytes present, no error", wt, head(pre, 24), got, len(pre)), nil)
				}
				if err == nil && (wt == plenccore.WT64 || wt == plenccore.WT32 || wt == plenccore.WTVarInt) {
					// a strict prefix of a fixed-width or varint field can never be a whole field
					if wt != plenccore.WTVarInt || cut == 0 || pre[cut-1]&0x80 != 0 {
						c.Rec.Violation("skip-truncated", fmt.Sprintf("Skip(wt=%d, truncated %x) = %d without error", wt, head(pre, 24), got), nil)
					}
				}
			}); p != "" {
				c.Rec.Violation("skip-panic", fmt.Sprintf("Skip(wt=%d, %x) panicked: %s", wt, head(pre, 24), p), nil)
			}
		}
		n += 2
		c.Rec.NonTrivial(core.Hash64(string(field)))
	}
	c.Rec.Eval(n)
	c.Rec.Count("skip_fields", n)
}

// padUvarint appends v as a varint, one time in four in a longer form than necessary (the last
// group carries a continuation bit and one to three empty groups follow): legal protobuf, read by
// every varint reader, never written by plenc
func padUvarint(r *rand.Rand, dst []byte, v uint64) []byte {
	dst = refAppendUvarint(dst, v)
	if r.IntN(4) != 0 {
		return dst
	}
	room := 10 - (len(refAppendUvarint(nil, v)))
	pad := 1 + r.IntN(3)
	if r.IntN(3) == 0 {
		pad = room // the full ten bytes a writer reserves when it back-fills a length
	}
	if pad > room {
		pad = room
	}
	if pad <= 0 {
		return dst
	}
	dst[len(dst)-1] |= 0x80
	for i := 1; i < pad; i++ {
		dst = append(dst, 0x80)
	}
	return append(dst, 0x00)
}

// c18HugeFields: well-formed length-delimited fields and counted entries whose bodies are 2^31-1,
// 2^31, 2^31+12345, 2^32-1 and 2^32+7 bytes long. The bytes come from one anonymous mapping that
// is never touched beyond the headers (Skip does not look at a body), so this costs address space,
// not memory.
func c18HugeFields(c *core.Ctx) {
	const room = 1<<32 + 1<<16
	mem, err := syscall.Mmap(-1, 0, room, syscall.PROT_READ|syscall.PROT_WRITE, syscall.MAP_ANON|syscall.MAP_PRIVATE|syscall.MAP_NORESERVE)
	if err != nil {
		c.Rec.Count("huge_fields_skipped_no_address_space", 1)
		return
	}
	defer syscall.Munmap(mem)
	for _, l := range []uint64{1<<31 - 1, 1 << 31, 1<<31 + 12345, 1<<32 - 1, 1<<32 + 7} {
		// WTLength: length, body
		h := refAppendUvarint(nil, l)
		copy(mem, h)
		total := len(h) + int(l)
		var got int
		var serr error
		if pn := core.Guard(func() { got, serr = plenccore.Skip(mem[:total+3], plenccore.WTLength) }); pn != "" || serr != nil || got != total {
			c.Rec.Violation("skip-wellformed", fmt.Sprintf("Skip over a well-formed length-delimited field with a body of %d bytes (all of it present) = (%d, %v) %s, want %d", l, got, serr, trunc1(pn), total), nil)
			return
		}
		// WTSlice: count 1, entry length, entry
		h = append([]byte{0x01}, refAppendUvarint(nil, l)...)
		copy(mem, h)
		total = len(h) + int(l)
		if pn := core.Guard(func() { got, serr = plenccore.Skip(mem[:total], plenccore.WTSlice) }); pn != "" || serr != nil || got != total {
			c.Rec.Violation("skip-wellformed", fmt.Sprintf("Skip over a well-formed counted field with one entry of %d bytes (all of it present) = (%d, %v) %s, want %d", l, got, serr, trunc1(pn), total), nil)
			return
		}
		// and one byte short of it: an error, not an over-run
		if pn := core.Guard(func() { got, serr = plenccore.Skip(mem[:total-1], plenccore.WTSlice) }); pn != "" || (serr == nil && got > total-1) {
			c.Rec.Violation("skip-overrun", fmt.Sprintf("Skip over a counted field whose %d-byte entry is one byte short = (%d, %v) %s", l, got, serr, trunc1(pn)), nil)
			return
		}
		c.Rec.Eval(3)
		c.Rec.Count("huge_fields", 3)
	}
}

func head(b []byte, n int) []byte {
	if len(b) > n {
		return b[:n]
	}
	return b
}

// Skip on hostile bytes: never panics, never claims more than is there
func c18SkipHostile(c *core.Ctx, idx int) {
	r := c.Rand(idx)
	n := 0
	alphabet := []byte{0x00, 0x01, 0x02, 0x7f, 0x80, 0x81, 0xff, 0x08, 0x0a, 0x0b, 0x0d, 0x10, 0x12, 0x1a, 0x1b, 0xfe}
	for i := 0; i < 20000; i++ {
		l := r.IntN(14)
		data := make([]byte, l)
		for j := range data {
			if r.IntN(4) == 0 {
				data[j] = byte(r.Uint32())
			} else {
				data[j] = alphabet[r.IntN(len(alphabet))]
			}
		}
		if i%4 == 0 {
			// declared lengths and counts at the edges of int and uint64 (where int(l) wraps), alone,
			// as the length of an entry of a counted field, and followed by a few bytes
			big := bigVarints[r.IntN(len(bigVarints))]
			if r.IntN(3) == 0 {
				big = refAppendUvarint(nil, []uint64{1<<63 - 1, 1<<63 - 2, 1<<63 - 10, 1 << 63, 1<<63 + 1, 1<<64 - 1, 1<<64 - 9, 1 << 62, 1<<32 - 1, 1 << 31}[r.IntN(10)])
			}
			switch r.IntN(4) {
			case 0:
				data = append(append([]byte{}, big...), data...)
			case 1:
				data = append(append([]byte{1}, big...), data...)
			case 2:
				data = append(append([]byte{2, 1, 'x'}, big...), data...)
			default:
				data = append(append([]byte{3, 0, 0}, big...), data...)
			}
		}
		for wt := plenccore.WireType(0); wt <= 7; wt++ {
			if p := core.Guard(func() {
				got, err := plenccore.Skip(data, wt)
				if err == nil && (got > len(data) || got < 0) {
					c.Rec.Violation("skip-overrun", fmt.Sprintf("Skip(wt=%d, %x) = %d with %d bytes present, no error", wt, data, got, len(data)), nil)
				}
				if err == nil && got == 0 {
					c.Rec.Violation("skip-zero", fmt.Sprintf("Skip(wt=%d, %x) = 0 without error (no progress)", wt, data), nil)
				}
			}); p != "" {
				c.Rec.Violation("skip-panic", fmt.Sprintf("Skip(wt=%d, %x) panicked: %s", wt, data, p), nil)
			}
			n++
		}
	}
	c.Rec.Eval(n)
	c.Rec.Count("skip_hostile", n)
}

func init() {
	const (
		kBoundary = iota
		kTags
		kSkipOK
		kSkipBad
		kRandom
		kAll32
	)
	type job struct{ kind, arg int }
	jobs := func(tier string) []job {
		var js []job
		js = append(js, job{kBoundary, 0})
		nt := 8
		if tier == "thorough" {
			nt = 64
		}
		for i := 0; i < nt; i++ {
			js = append(js, job{kTags, i})
		}
		ns, nr := 16, 64
		if tier == "thorough" {
			ns, nr = 400, 2000
		}
		for i := 0; i < ns; i++ {
			js = append(js, job{kSkipOK, i}, job{kSkipBad, i})
		}
		for i := 0; i < nr; i++ {
			js = append(js, job{kRandom, i})
		}
		if tier == "thorough" {
			for i := 0; i < 4096; i++ {
				js = append(js, job{kAll32, i})
			}
		}
		return js
	}
	core.Register(&core.Prop{
		ID:        "C18",
		Technique: "differential monitor of the plenccore primitives against an independent varint/zig-zag reference and protowire, over boundary-exhaustive and seeded random values",
		Rule: "tags: AppendTag into nil, roomy and empty destinations, twenty bytes appended onto every result, the next twenty tags asked for again. Values: every 2^k+d (d in -2..2), its negation, complement and zig-zag images; seeded random 64-bit values of every bit length; thorough additionally ALL 2^32 32-bit values and their <<32 and negated images. " +
			"boundary values are appended to destinations with 0-3 content bytes x 0-11 spare bytes. tags: all wire types x a dense index range, every 61st and 8191st index beyond it and the boundaries to 2^28, each read back from an exact buffer and followed by 1, 3 and 9 more bytes. Skip: model-built fields of every wire type (lengths and counts one time in four as longer-than-necessary varints) with trailing bytes, every truncation class, and random hostile byte strings for all 8 wire-type codes. " +
			"distinct_nontrivial counts distinct values / fields checked outside the dense sweeps (a value is non-trivial if it needs more than one byte or a field has non-zero length)",
		Assume:     []string{"encoding/binary.Uvarint semantics (plenccore.ReadVarUint delegates to it)", "protowire v1.26.0 as second reference"},
		Exhaustive: []string{"thorough tier: all 2^32 uint32 values through append/size/read/zig-zag"},
		Plan: func(tier string) []core.Lane {
			return []core.Lane{{Lane: "plain", Cases: len(jobs(tier)), Shards: 16, TimeoutS: 1800}}
		},
		Setup: func(c *core.Ctx) { c.State = &c18state{buf: make([]byte, 0, 16)} },
		Case: func(c *core.Ctx, idx int) {
			st := c.State.(*c18state)
			j := jobs(c.Tier)[idx]
			switch j.kind {
			case kBoundary:
				c18Boundaries(c, st)
				c18HugeFields(c)
				c.Rec.Sample(map[string]any{"kind": "boundary", "example": "2^35+1 = 34359738369 -> " + fmt.Sprintf("%x", plenccore.AppendVarUint(nil, 1<<35+1))})
			case kTags:
				c18Tags(c, j.arg*4096, (j.arg+1)*4096)
				if j.arg == 0 {
					c.Rec.Sample(map[string]any{"kind": "tag", "example": fmt.Sprintf("wt=2 index=2048 -> %x", plenccore.AppendTag(nil, 2, 2048))})
				}
			case kSkipOK:
				c18SkipWellFormed(c, idx)
			case kSkipBad:
				c18SkipHostile(c, idx)
			case kRandom:
				r := c.Rand(idx)
				const n = 200000
				for i := 0; i < n; i++ {
					v := r.Uint64() >> uint(r.IntN(64))
					c18Both(c, st, v)
					c18Both(c, st, -v)
					if i%16 == 0 {
						c18CheckProtowire(c, v)
						c.Rec.NonTrivial(v)
					}
				}
				c.Rec.Eval(2 * n)
				c.Rec.Count("random_values", 2*n)
				if j.arg == 0 {
					v := r.Uint64()
					c.Rec.Sample(map[string]any{"kind": "random", "value": fmt.Sprint(v), "varint": fmt.Sprintf("%x", plenccore.AppendVarUint(nil, v)), "zigzag_of_int64": fmt.Sprint(plenccore.ZigZag(int64(v)))})
				}
			case kAll32:
				lo := uint64(j.arg) << 20
				for v := lo; v < lo+1<<20; v++ {
					c18Both(c, st, v)
					c18Both(c, st, v<<32)
					c18CheckI(c, st, -int64(v))
				}
				c.Rec.Eval(3 << 20)
				c.Rec.Count("all32_values", 1<<20)
			}
		},
	})
}
