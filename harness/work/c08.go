package work

import (
	"bytes"
	"fmt"
	"math/rand/v2"
	"reflect"
	"sort"
	"time"
	"unsafe"

	"github.com/philpearl/plenc"
	"github.com/philpearl/plenc/plenccodec"
	"github.com/philpearl/plenc/plenccore"
	"github.com/unravelin/null"

	"verifharness/core"
	"verifharness/gen"
	"verifharness/model"
	"verifharness/types"
)

// C08: type definitions are validated.

type plant struct {
	name       string
	mustReject bool
	// build returns the planted type; r for variety
	build func(r *rand.Rand) reflect.Type
}

func sf(name string, t reflect.Type, tag string) reflect.StructField {
	return reflect.StructField{Name: name, Type: t, Tag: reflect.StructTag(tag)}
}

var (
	tInt    = reflect.TypeOf(int(0))
	tString = reflect.TypeOf("")
)

func structOf(fs ...reflect.StructField) reflect.Type { return reflect.StructOf(fs) }

func c08Plants() []plant {
	T := reflect.TypeOf
	leaf := structOf(sf("A", tInt, `plenc:"1"`))
	unsupported := []reflect.Type{T(complex64(0)), T(complex128(0)), T([3]int{}), T([0]string{}), T(make(chan int)), T(func() {}), T((*any)(nil)).Elem(), T((*error)(nil)).Elem(), T(uintptr(0)), T(unsafe.Pointer(nil))}
	ps := []plant{
		{"missing-tag", true, func(r *rand.Rand) reflect.Type {
			return structOf(sf("A", tInt, `plenc:"1"`), sf("B", tString, []string{``, `json:"b"`, `plenc:""`}[r.IntN(3)]))
		}},
		{"unparsable-index", true, func(r *rand.Rand) reflect.Type {
			bad := []string{"x", " 1", "1.0", "1 ", "99999999999999999999", "0x10", "one", "+", ",flat", "1e3", "١", "9223372036854775808", "18446744073709551615", "0b11", "1_0", "0o7", "--1"}[r.IntN(17)]
			return structOf(sf("A", tInt, `plenc:"1"`), sf("B", tString, fmt.Sprintf(`plenc:%q`, bad)))
		}},
		{"negative-index", true, func(r *rand.Rand) reflect.Type {
			return structOf(sf("A", tInt, fmt.Sprintf(`plenc:"%d"`, []int{-1, -2, -128, -9223372036854775808}[r.IntN(4)])), sf("B", tString, `plenc:"3"`))
		}},
		{"duplicate-index", true, func(r *rand.Rand) reflect.Type {
			idx := []int{0, 1, 2, 15, 16, 2047, 3000}[r.IntN(7)]
			fs := []reflect.StructField{sf("A", tInt, fmt.Sprintf(`plenc:"%d"`, idx))}
			n := r.IntN(4)
			for i := 0; i < n; i++ {
				switch r.IntN(3) {
				case 0:
					fs = append(fs, sf(fmt.Sprintf("S%d", i), tString, `plenc:"-"`))
				case 1:
					fs = append(fs, sf(fmt.Sprintf("M%d", i), tString, fmt.Sprintf(`plenc:"%d"`, idx+1+i)))
				default:
					fs = append(fs, reflect.StructField{Name: fmt.Sprintf("u%d", i), PkgPath: "verifharness/work", Type: tInt})
				}
			}
			opt := []string{"", ",flat", ",intern"}[r.IntN(3)]
			// the same number, not always the same text
			spell := []string{"%d", "%d", "%d", "0%d", "+%d", "00%d"}[r.IntN(6)]
			fs = append(fs, sf("Z", tInt, fmt.Sprintf(`plenc:"`+spell+`%s"`, idx, opt)))
			return structOf(fs...)
		}},
		{"option-without-codec", true, func(r *rand.Rand) reflect.Type {
			c := []struct {
				t   reflect.Type
				opt string
			}{
				{tInt, "foo"}, {tString, "flat"}, {T(false), "flat"}, {T(float64(0)), "flat"}, {T(float32(0)), "proto"}, {T(uint(0)), "flat"}, {T(uint8(0)), "flat"},
				{tInt, "proto"}, {tString, "interned"}, {tInt, "Flat"}, {T(int64(0)), "flat "}, {T(false), "x"}, {reflect.PointerTo(tString), "flat"}, {reflect.PointerTo(tInt), "zigzag"},
				{model.TimeT, "flat"}, {reflect.PointerTo(model.TimeT), "proto"}, {model.TimeT, "utc"}, {model.NullIntT, "flat"}, {model.NullTimeT, "proto"},
			}[r.IntN(19)]
			return structOf(sf("A", c.t, fmt.Sprintf(`plenc:"1,%s"`, c.opt)))
		}},
		{"unsupported-kind", true, func(r *rand.Rand) reflect.Type { return unsupported[r.IntN(len(unsupported))] }},
		{"slice-of-float-pointers", true, func(r *rand.Rand) reflect.Type {
			return []reflect.Type{T([]*float32(nil)), T([]*float64(nil)), T([]**float64(nil))}[r.IntN(3)]
		}},
		{"slice-of-slices-of-length-delimited", true, func(r *rand.Rand) reflect.Type {
			return []reflect.Type{T([][]string(nil)), reflect.SliceOf(reflect.SliceOf(leaf)), T([][][]int(nil)), T([][][]byte(nil)), reflect.SliceOf(reflect.SliceOf(reflect.PointerTo(leaf))), T([]*[]string(nil)), T([][]*string(nil))}[r.IntN(7)]
		}},
		{"nested-map", true, func(r *rand.Rand) reflect.Type {
			return []reflect.Type{T([]map[string]int(nil)), T(map[string]map[string]int(nil)), T((*map[string]int)(nil)), T(map[int]*map[int]int(nil)), T([]*map[string]int(nil)), reflect.MapOf(tString, reflect.MapOf(tInt, leaf))}[r.IntN(6)]
		}},
		// options the documentation says nothing about on composite types: an error or a working codec, never a crash or data loss
		{"composite-with-option", false, func(r *rand.Rand) reflect.Type {
			c := []struct {
				t   reflect.Type
				opt string
			}{
				{T([]string(nil)), "foo"}, {leaf, "flat"}, {T(map[string]int(nil)), "flat"}, {T([]int(nil)), "proto"}, {reflect.PointerTo(leaf), "proto"}, {T([][]byte(nil)), "x"},
				{T([]float64(nil)), "flat"}, {reflect.SliceOf(leaf), "intern"}, {T(map[int]string(nil)), "intern"}, {structOf(), "flat"},
			}[r.IntN(10)]
			return structOf(sf("A", c.t, fmt.Sprintf(`plenc:"1,%s"`, c.opt)), sf("B", tInt, `plenc:"2"`))
		}},
		// pointers to a type whose registered codec is fixed width although its kind is not a float (null.Float
		// from the null package, a codec the caller registered): an error or a working codec (round 11: q08)
		{"pointers-to-registered-fixed-width", false, func(r *rand.Rand) reflect.Type {
			nf, fx := T(null.Float{}), T(c08Fix32{})
			return []reflect.Type{reflect.SliceOf(reflect.PointerTo(nf)), reflect.SliceOf(reflect.PointerTo(reflect.PointerTo(nf))), reflect.SliceOf(reflect.PointerTo(fx)), reflect.SliceOf(nf), reflect.SliceOf(fx),
				reflect.MapOf(tString, reflect.SliceOf(reflect.PointerTo(nf))), reflect.PointerTo(nf), reflect.PointerTo(fx), reflect.MapOf(tInt, reflect.PointerTo(fx)), reflect.SliceOf(reflect.SliceOf(fx))}[r.IntN(10)]
		}},
		{"recursive-invalid", true, func(r *rand.Rand) reflect.Type {
			return types.InvalidRecursive[r.IntN(len(types.InvalidRecursive))]
		}},
		// valid or not depending on the configuration: a map whose values are written in the repeated-field
		// form (ProtoCompatibleArrays) has no place for them in a map entry, behind any number of pointers
		{"map-of-repeated-slices", false, func(r *rand.Rand) reflect.Type {
			el := []reflect.Type{T([]string(nil)), reflect.SliceOf(leaf), T([][]byte(nil)), reflect.SliceOf(reflect.PointerTo(leaf)), T([]time.Time(nil))}[r.IntN(5)]
			for i := r.IntN(4); i > 0; i-- {
				el = reflect.PointerTo(el)
			}
			return reflect.MapOf([]reflect.Type{tString, tInt, T(int32(0))}[r.IntN(3)], el)
		}},
		// valid neighbours: must be accepted and must work
		{"valid-neighbour", false, func(r *rand.Rand) reflect.Type {
			return []reflect.Type{T([][]int(nil)), T([]*int(nil)), reflect.PointerTo(leaf), T([][]float64(nil)), T([][]byte(nil)), T([]*string(nil)), reflect.SliceOf(reflect.PointerTo(leaf)), T(map[string][]string(nil)), T(map[string][]int(nil)), reflect.PointerTo(reflect.PointerTo(tInt)),
				structOf(sf("A", tInt, `plenc:"0"`), sf("B", tInt, `plenc:"1,intern"`)), structOf(), structOf(sf("A", tInt, `plenc:"-"`))}[r.IntN(13)]
		}},
	}
	return ps
}

// wrap places t at a random nesting: field, pointer target, slice element, map value, map key
func wrapPlant(r *rand.Rand, t reflect.Type, depth int) (reflect.Type, string) {
	if depth <= 0 {
		return t, ""
	}
	switch r.IntN(7) {
	case 0:
		w, s := wrapPlant(r, structOf(sf("W", t, `plenc:"1"`), sf("X", tInt, `plenc:"2"`)), depth-1)
		return w, "field>" + s
	case 1:
		if t.Kind() != reflect.Map {
			w, s := wrapPlant(r, reflect.PointerTo(t), depth-1)
			return w, "pointer>" + s
		}
	case 2:
		// only wrappers that do not themselves make the definition invalid
		if t.Kind() == reflect.Struct {
			w, s := wrapPlant(r, reflect.SliceOf(t), depth-1)
			return w, "element>" + s
		}
	case 3:
		if t.Kind() == reflect.Struct {
			w, s := wrapPlant(r, reflect.MapOf(tString, t), depth-1)
			return w, "mapvalue>" + s
		}
	case 4:
		if t.Kind() == reflect.Struct && t.Comparable() && !gen.HasRef(t) {
			w, s := wrapPlant(r, reflect.MapOf(t, tInt), depth-1)
			return w, "mapkey>" + s
		}
	case 5:
		if t.Kind() == reflect.Struct {
			w, s := wrapPlant(r, structOf(sf("P", reflect.PointerTo(t), `plenc:"7,intern"`)), depth-1)
			return w, "ptrfield>" + s
		}
	}
	return wrapPlant(r, structOf(sf("V", tInt, `plenc:"1"`), sf("W", t, `plenc:"2"`)), depth-1)
}

// setSkipped plants sentinels in every unexported and "-" field of v (top level and nested structs)
func setSkipped(v reflect.Value, r *rand.Rand, n *int) {
	switch v.Kind() {
	case reflect.Struct:
		if v.Type() == model.TimeT || v.Type().PkgPath() == model.NullIntT.PkgPath() {
			return
		}
		for i := 0; i < v.NumField(); i++ {
			f := v.Type().Field(i)
			fv := v.Field(i)
			if !f.IsExported() {
				if v.CanAddr() {
					w := reflect.NewAt(f.Type, unsafe.Pointer(v.Field(i).UnsafeAddr())).Elem()
					w.Set((&gen.VG{R: r, C: model.Cfg{}, Budget: 10}).Value(f.Type, ""))
					*n++
				}
				continue
			}
			if f.Tag.Get("plenc") == "-" {
				fv.Set((&gen.VG{R: r, C: model.Cfg{Null: true, JSONAny: true}, Budget: 10}).Value(f.Type, ""))
				*n++
				continue
			}
			setSkipped(fv, r, n)
		}
	case reflect.Ptr:
		if !v.IsNil() {
			setSkipped(v.Elem(), r, n)
		}
	case reflect.Slice:
		for i := 0; i < v.Len() && i < 4; i++ {
			setSkipped(v.Index(i), r, n)
		}
	}
}

// skippedEqual compares only the unexported and "-" fields
func skippedDiff(a, b reflect.Value, path string) string {
	switch a.Kind() {
	case reflect.Struct:
		if a.Type() == model.TimeT || a.Type().PkgPath() == model.NullIntT.PkgPath() {
			return ""
		}
		for i := 0; i < a.NumField(); i++ {
			f := a.Type().Field(i)
			if !f.IsExported() {
				if a.CanAddr() && b.CanAddr() {
					x := reflect.NewAt(f.Type, unsafe.Pointer(a.Field(i).UnsafeAddr())).Elem()
					y := reflect.NewAt(f.Type, unsafe.Pointer(b.Field(i).UnsafeAddr())).Elem()
					if d := model.Diff(x, y, path+"."+f.Name); d != "" {
						return d
					}
				}
				continue
			}
			if f.Tag.Get("plenc") == "-" {
				if d := model.Diff(a.Field(i), b.Field(i), path+"."+f.Name); d != "" {
					return d
				}
				continue
			}
			if d := skippedDiff(a.Field(i), b.Field(i), path+"."+f.Name); d != "" {
				return d
			}
		}
	case reflect.Ptr:
		if !a.IsNil() && !b.IsNil() {
			return skippedDiff(a.Elem(), b.Elem(), path+"*")
		}
	}
	// not through slices and maps: a decoded slice holds exactly the encoded elements, each
	// decoded into a zero element, so skipped fields of elements are legitimately reset
	return ""
}

// c08PtrKeys: maps whose keys are pointers are accepted (a key is then written as what it points
// to). The codec handed out must work: every entry comes back, each under a pointer of its own to an
// equal key, at top level, as a field and in the repeated form; and a map decoded earlier is not
// changed by decoding the next one.
func c08PtrKeys(c *core.Ctx, idx int, cfg model.Cfg, name string, p *plenc.Plenc) {
	rec := c.Rec
	r := c.Rand(idx)
	T := reflect.TypeOf
	kts := []reflect.Type{T(int(0)), T(""), T(types.Key{}), T(uint16(0)), T(int64(0))}
	vts := []reflect.Type{T(""), T(int32(0)), T(types.Leaf{}), T([]byte(nil)), T(false)}
	for round := 0; round < 10; round++ {
		kt, vt := kts[r.IntN(len(kts))], vts[r.IntN(len(vts))]
		mt := reflect.MapOf(reflect.PointerTo(kt), vt)
		typ := mt
		field := -1
		switch round % 3 {
		case 1:
			typ, field = structOf(sf("A", T(0), `plenc:"1"`), sf("M", mt, `plenc:"2"`), sf("Z", T(""), `plenc:"3"`)), 1
		case 2:
			typ, field = structOf(sf("M", mt, `plenc:"1,proto"`), sf("Z", T(""), `plenc:"3"`)), 0
		}
		if cfg.Validate(typ, "") != "" {
			continue
		}
		var cerr error
		if pn := core.Guard(func() { _, cerr = p.CodecForType(typ) }); pn != "" || cerr != nil {
			rec.Violation("valid-type-rejected", fmt.Sprintf("[%s] a map with pointer keys: %v %s\n  type %s", name, cerr, trunc1(pn), typeString(typ)), nil)
			return
		}
		type kv struct{ k, v string }
		build := func() (reflect.Value, []kv) {
			vg := &gen.VG{R: r, C: cfg, Budget: 30}
			m := reflect.MakeMap(mt)
			var want []kv
			seen := map[string]bool{}
			n := 2 + r.IntN(4)
			for i := 0; i < n; i++ {
				k := vg.Value(kt, "")
				if kt.Kind() == reflect.Float64 && k.Float() != k.Float() {
					continue
				}
				ks := model.Show(cfg.Normalise(k, "", true))
				if seen[ks] {
					continue
				}
				seen[ks] = true
				kp := reflect.New(kt)
				kp.Elem().Set(k)
				v := vg.Value(vt, "")
				m.SetMapIndex(kp, v)
				want = append(want, kv{ks, model.Show(cfg.Normalise(v, "", true))})
			}
			sort.Slice(want, func(i, j int) bool { return want[i].k < want[j].k })
			top := reflect.New(typ).Elem()
			if field < 0 {
				top.Set(m)
			} else {
				top.Field(field).Set(m)
			}
			return top, want
		}
		read := func(top reflect.Value) ([]kv, string) {
			m := top
			if field >= 0 {
				m = top.Field(field)
			}
			var got []kv
			ptrs := map[uintptr]bool{}
			for it := m.MapRange(); it.Next(); {
				if it.Key().IsNil() {
					return nil, "a nil key"
				}
				if ptrs[it.Key().Pointer()] {
					return nil, "two entries under one pointer"
				}
				ptrs[it.Key().Pointer()] = true
				got = append(got, kv{model.Show(it.Key().Elem()), model.Show(it.Value())})
			}
			sort.Slice(got, func(i, j int) bool { return got[i].k < got[j].k })
			return got, ""
		}
		var kept reflect.Value
		var keptWant []kv
		for rep := 0; rep < 3; rep++ {
			v, want := build()
			data, err, pn := marshal(p, nil, ptrTo(v))
			out := reflect.New(typ)
			if err == nil && pn == "" {
				err, pn = unmarshal(p, data, out.Interface())
			}
			rec.Eval(1)
			if err != nil || pn != "" {
				rec.Violation("accepted-type-fails", fmt.Sprintf("[%s] the codec handed out for a map with pointer keys fails: %v %s\n  type %s\n  bytes %s", name, err, trunc1(pn), typeString(typ), hexHead(data)), nil)
				return
			}
			got, why := read(out.Elem())
			if why != "" || fmt.Sprint(got) != fmt.Sprint(want) {
				rec.Violation("accepted-type-fails", fmt.Sprintf("[%s] the codec handed out for a map with pointer keys does not bring the entries back (%s)\n  type %s\n  encoded (key, value) %v\n  decoded (key, value) %v\n  bytes %s", name, why, typeString(typ), want, got, hexHead(data)), nil)
				return
			}
			if kept.IsValid() {
				if again, why := read(kept); why != "" || fmt.Sprint(again) != fmt.Sprint(keptWant) {
					rec.Violation("accepted-type-fails", fmt.Sprintf("[%s] a map with pointer keys decoded earlier changed when the next one was decoded (%s)\n  type %s\n  was %v\n  is  %v", name, why, typeString(typ), keptWant, again), nil)
					return
				}
			}
			kept, keptWant = out.Elem(), want
		}
		rec.Count("pointer_keyed_maps", 1)
		rec.NonTrivial(core.Hash64("ptrkeys", typ.String(), name))
	}
}

func c08Case(c *core.Ctx, idx int) {
	rec := c.Rec
	r := c.RandFor(idx, "plant")
	cfgs := instCfgs()
	cfg := cfgs[(idx/3)%4]
	name := cfgName(cfg)
	p := instNew(cfg)
	tc := &tcase{cfg: cfg, name: name, p: p}
	p.RegisterCodec(reflect.TypeOf(c08Fix32{}), c08Fix32Codec{})
	if idx%19 == 7 {
		c08PtrKeys(c, idx, cfg, name, p)
		return
	}
	if idx%23 == 9 {
		c08Concurrent(c, idx, cfg, name, p)
		return
	}
	switch idx % 3 {
	case 0, 1:
		plants := c08Plants()
		pl := plants[r.IntN(len(plants))]
		inner := pl.build(r)
		typ, where := wrapPlant(r, inner, r.IntN(4))
		if cfg.Validate(typ, "") == "" && cfg.Repeated(typ, "") {
			// known finding D25: the repeated-field form has no framing outside a struct
			typ, where = structOf(sf("T", typ, `plenc:"1"`)), "field>"+where
		}
		if pl.name == "pointers-to-registered-fixed-width" && cfg.ProtoArrays && typ.Kind() == reflect.Slice {
			// D25 again (the model cannot tell: it does not know the registered codec)
			typ, where = structOf(sf("T", typ, `plenc:"1"`)), "field>"+where
		}
		tc.typ = typ
		why := cfg.Validate(typ, "")
		core.TheCursor.Note("C08 definition ", typeString(typ))
		rec.Eval(1)
		rec.NonTrivial(core.Hash64(typ.String(), name))
		rec.Count("plant_"+pl.name, 1)
		var cerr error
		pn := core.Guard(func() { _, cerr = p.CodecForType(typ) })
		desc := fmt.Sprintf("[%s] planted %s at %q\n  type %s", name, pl.name, where, typeString(typ))
		if pn != "" {
			rec.Violation("codec-panic", "CodecForType panicked instead of returning an error "+desc+"\n"+pn, map[string]any{"type": typeString(typ)})
			return
		}
		if pl.mustReject || (pl.name == "map-of-repeated-slices" && why != "") {
			if why == "" {
				rec.Violation("model-error", "the model accepts a definition planted as invalid "+desc, nil)
				return
			}
			if cerr == nil {
				rec.Violation("accepted-invalid", fmt.Sprintf("CodecForType accepts a definition that must be rejected (%s) %s", why, desc), map[string]any{"type": typeString(typ)})
				return
			}
			if cerr.Error() == "" {
				rec.Violation("empty-error", "rejected with an empty error message "+desc, nil)
			}
			// Marshal and Unmarshal report the error too, without panicking
			z := reflect.New(typ)
			var merr, uerr error
			if pn := core.Guard(func() {
				_, merr = p.Marshal(nil, z.Interface())
				uerr = p.Unmarshal([]byte{}, z.Interface())
			}); pn != "" {
				rec.Violation("codec-panic", "Marshal/Unmarshal of an invalid definition panicked "+desc+"\n"+pn, nil)
				return
			}
			if merr == nil || uerr == nil {
				rec.Violation("accepted-invalid", fmt.Sprintf("Marshal (err %v) / Unmarshal (err %v) accept a definition CodecForType rejects %s", merr, uerr, desc), nil)
			}
			if rec.WantSample() {
				rec.Sample(map[string]any{"config": name, "plant": pl.name, "where": where, "type": typeString(typ), "error": cerr.Error()})
			}
			c08AfterRejection(c, tc, r)
			return
		}
		if pl.name == "pointers-to-registered-fixed-width" {
			if cerr == nil {
				c08FixedPtrs(c, tc, r, desc)
			}
			return
		}
		// valid neighbour
		if why != "" {
			return // the wrapper made it invalid; nothing demanded beyond not panicking
		}
		if pl.name == "composite-with-option" {
			if cerr == nil {
				c08Works(c, tc, r)
			}
			return
		}
		if cerr != nil {
			rec.Violation("valid-type-rejected", fmt.Sprintf("CodecForType rejects a valid definition: %v %s", cerr, desc), map[string]any{"type": typeString(typ)})
			return
		}
		c08Works(c, tc, r)
	default:
		// generated valid definitions with skipped and unexported fields: accepted, working, and the skipped fields are inert
		tc = genType(c, idx, func(tg *gen.TG) { tg.Skipped = true })
		typ := tc.typ
		core.TheCursor.Note("C08 definition ", typeString(typ))
		var cerr error
		if pn := core.Guard(func() { _, cerr = tc.p.CodecForType(typ) }); pn != "" || cerr != nil {
			rec.Violation("valid-type-rejected", fmt.Sprintf("[%s] %v %s\n  type %s", tc.name, cerr, pn, typeString(typ)), nil)
			return
		}
		c08Works(c, tc, r)
		c08Skipped(c, tc, r)
	}
}

// c08AfterRejection: a failed build must leave nothing behind. The same instance is asked for every
// part of the rejected definition and for containers around its struct types: valid parts must
// give working codecs, invalid ones must still be rejected.
func c08AfterRejection(c *core.Ctx, tc *tcase, r *rand.Rand) {
	rec := c.Rec
	var subs []subType
	collectSubTypes(tc.typ, "", map[subType]bool{}, &subs)
	var extra []subType
	for _, st := range subs {
		if st.t.Kind() != reflect.Struct || st.t == model.TimeT || st.t.PkgPath() == model.NullIntT.PkgPath() {
			continue // (null.* as slice element or pointer target: known finding D24)
		}
		extra = append(extra, subType{reflect.PointerTo(st.t), ""}, subType{reflect.SliceOf(st.t), ""}, subType{reflect.MapOf(tString, st.t), ""})
		if st.t.Comparable() && !gen.HasRef(st.t) {
			extra = append(extra, subType{reflect.MapOf(st.t, tInt), ""})
		}
	}
	for _, st := range append(subs[1:], extra...) {
		if st.t.Kind() == reflect.Interface || st.t.Kind() == reflect.Chan || st.t.Kind() == reflect.Func {
			continue
		}
		why := tc.cfg.Validate(st.t, st.opt)
		if why == "" && tc.cfg.Repeated(st.t, st.opt) {
			continue // D25: no framing at top level
		}
		var err error
		pn := core.Guard(func() { _, err = tc.p.CodecForTypeWithTag(st.t, st.opt) })
		rec.Eval(1)
		desc := fmt.Sprintf("[%s] after CodecForType rejected %s, the same instance was asked for (%s, %q)", tc.name, typeString(tc.typ), typeString(st.t), st.opt)
		if pn != "" {
			rec.Violation("codec-panic", desc+": panic "+pn, nil)
			return
		}
		if why != "" && err == nil {
			// only the must-reject families are demanded; here the part is invalid by the same rules
			rec.Violation("accepted-invalid", fmt.Sprintf("%s: accepted although it is invalid (%s): a failed build left a codec behind", desc, why), nil)
			return
		}
		if why == "" {
			if err != nil {
				rec.Violation("valid-type-rejected", fmt.Sprintf("%s: %v", desc, err), nil)
				return
			}
			if st.opt == "" && st.t.Kind() != reflect.Ptr {
				sub := &tcase{cfg: tc.cfg, name: tc.name, p: tc.p, typ: st.t}
				before := rec.Violations()
				c08Works(c, sub, r)
				if rec.Violations() != before {
					return
				}
			}
		}
	}
	rec.Count("post_rejection_probes", 1)
}

// c08Concurrent: the answer to "a codec for this definition?" is the same when several goroutines
// ask at once on an instance that has never seen it: every caller of an invalid definition gets an
// error (never a nil codec without one, never a panic), every caller of a valid one a codec that works.
func c08Concurrent(c *core.Ctx, idx int, cfg model.Cfg, name string, p *plenc.Plenc) {
	rec := c.Rec
	r := c.RandFor(idx, "plant")
	plants := c08Plants()
	for round := 0; round < 6; round++ {
		pl := plants[r.IntN(len(plants))]
		typ, where := wrapPlant(r, pl.build(r), r.IntN(3))
		why := cfg.Validate(typ, "")
		if !pl.mustReject && (why != "" || pl.name != "valid-neighbour") {
			continue
		}
		if pl.mustReject && why == "" {
			continue
		}
		if cfg.ProtoArrays && typ.Kind() == reflect.Slice {
			typ, where = structOf(sf("T", typ, `plenc:"1"`)), "field>"+where
			if (cfg.Validate(typ, "") == "") == pl.mustReject {
				continue
			}
		}
		core.TheCursor.Note("C08 concurrent definition ", typeString(typ))
		g := 3 + r.IntN(6)
		type res struct {
			codec bool
			err   error
			pn    string
			how   string
		}
		out := make([]res, g)
		hows := make([]int, g)
		for i := range hows {
			hows[i] = r.IntN(4)
		}
		start := make(chan struct{})
		done := make(chan int, g)
		for i := 0; i < g; i++ {
			go func(i int) {
				defer func() { done <- i }()
				<-start
				o := &out[i]
				switch hows[i] {
				case 0:
					o.how = "CodecForType"
					o.pn = core.Guard(func() {
						cd, err := p.CodecForType(typ)
						o.codec, o.err = cd != nil, err
					})
				case 1:
					o.how = "CodecForTypeWithTag"
					o.pn = core.Guard(func() {
						cd, err := p.CodecForTypeWithTag(typ, "")
						o.codec, o.err = cd != nil, err
					})
				case 2:
					o.how = "Marshal"
					o.pn = core.Guard(func() { _, o.err = p.Marshal(nil, reflect.New(typ).Interface()) })
					o.codec = o.err == nil
				default:
					o.how = "Unmarshal"
					o.pn = core.Guard(func() { o.err = p.Unmarshal([]byte{}, reflect.New(typ).Interface()) })
					o.codec = o.err == nil
				}
			}(i)
		}
		close(start)
		for i := 0; i < g; i++ {
			<-done
		}
		rec.Eval(g)
		rec.Count("concurrent_first_requests", g)
		desc := fmt.Sprintf("[%s] planted %s at %q, asked for by %d goroutines at once on a new instance\n  type %s", name, pl.name, where, g, typeString(typ))
		for i, o := range out {
			switch {
			case o.pn != "":
				rec.Violation("codec-panic", fmt.Sprintf("goroutine %d: %s panicked %s\n%s", i, o.how, desc, o.pn), map[string]any{"type": typeString(typ)})
				return
			case pl.mustReject && o.err == nil:
				rec.Violation("accepted-invalid", fmt.Sprintf("goroutine %d: %s reports no error for a definition that must be rejected (%s) %s", i, o.how, why, desc), map[string]any{"type": typeString(typ)})
				return
			case !pl.mustReject && (o.err != nil || !o.codec):
				rec.Violation("valid-type-rejected", fmt.Sprintf("goroutine %d: %s gives (codec %v, error %v) for a valid definition %s", i, o.how, o.codec, o.err, desc), map[string]any{"type": typeString(typ)})
				return
			}
		}
		if !pl.mustReject {
			c08Works(c, &tcase{cfg: cfg, name: name, p: p, typ: typ}, r)
		}
	}
	rec.NonTrivial(core.Hash64("concurrent", fmt.Sprint(idx)))
}

// c08Fix32 is a type of struct kind whose codec, registered by the caller, is fixed width
type c08Fix32 struct{ V uint32 }

type c08Fix32Codec struct{}

func (c08Fix32Codec) Omit(ptr unsafe.Pointer) bool { return false }
func (c08Fix32Codec) WireType() plenccore.WireType { return plenccore.WT32 }
func (c08Fix32Codec) Descriptor() plenccodec.Descriptor {
	return plenccodec.Descriptor{Type: plenccodec.FieldTypeFloat32}
}
func (c08Fix32Codec) New() unsafe.Pointer                     { return unsafe.Pointer(new(c08Fix32)) }
func (c08Fix32Codec) Size(ptr unsafe.Pointer, tag []byte) int { return len(tag) + 4 }
func (c08Fix32Codec) Append(data []byte, ptr unsafe.Pointer, tag []byte) []byte {
	v := (*c08Fix32)(ptr).V // (a nil ptr is the library handing the codec something it must not)
	return append(append(data, tag...), byte(v), byte(v>>8), byte(v>>16), byte(v>>24))
}
func (c08Fix32Codec) Read(data []byte, ptr unsafe.Pointer, wt plenccore.WireType) (int, error) {
	if len(data) < 4 {
		return 0, fmt.Errorf("fix32: %d bytes", len(data))
	}
	(*c08Fix32)(ptr).V = uint32(data[0]) | uint32(data[1])<<8 | uint32(data[2])<<16 | uint32(data[3])<<24
	return 4, nil
}

// fillPresent fills v with values that no normalisation touches: no nil pointer, no empty container,
// no zero number, every null.Float valid
func fillPresent(v reflect.Value, r *rand.Rand) {
	switch v.Kind() {
	case reflect.Ptr:
		v.Set(reflect.New(v.Type().Elem()))
		fillPresent(v.Elem(), r)
	case reflect.Slice:
		n := 1 + r.IntN(3)
		v.Set(reflect.MakeSlice(v.Type(), n, n))
		for i := 0; i < n; i++ {
			fillPresent(v.Index(i), r)
		}
	case reflect.Array:
		for i := 0; i < v.Len(); i++ {
			fillPresent(v.Index(i), r)
		}
	case reflect.Map:
		v.Set(reflect.MakeMap(v.Type()))
		for i := 0; i < 1; i++ { // (one entry: two encodings of the value are then the same bytes)
			k, e := reflect.New(v.Type().Key()).Elem(), reflect.New(v.Type().Elem()).Elem()
			fillPresent(k, r)
			fillPresent(e, r)
			v.SetMapIndex(k, e)
		}
	case reflect.Struct:
		switch v.Type() {
		case reflect.TypeOf(null.Float{}):
			v.Set(reflect.ValueOf(null.FloatFrom(float64(1 + r.IntN(1000)))))
			return
		}
		for i := 0; i < v.NumField(); i++ {
			if v.Type().Field(i).IsExported() && v.Type().Field(i).Tag.Get("plenc") != "-" {
				fillPresent(v.Field(i), r)
			}
		}
	case reflect.String:
		v.SetString(fmt.Sprintf("s%d", r.IntN(1000)))
	case reflect.Int, reflect.Int8, reflect.Int16, reflect.Int32, reflect.Int64:
		v.SetInt(int64(1 + r.IntN(100)))
	case reflect.Uint, reflect.Uint8, reflect.Uint16, reflect.Uint32, reflect.Uint64:
		v.SetUint(uint64(1 + r.IntN(100)))
	case reflect.Float32, reflect.Float64:
		v.SetFloat(float64(1 + r.IntN(100)))
	case reflect.Bool:
		v.SetBool(true)
	}
}

// c08FixedPtrs: a codec was handed out for a definition with pointers to (or slices of) a type whose
// registered codec is fixed width. It must not crash and must bring a fully present value back.
func c08FixedPtrs(c *core.Ctx, tc *tcase, r *rand.Rand, desc string) {
	rec := c.Rec
	if tc.typ.Kind() == reflect.Ptr {
		return
	}
	for j := 0; j < 3; j++ {
		v := reflect.New(tc.typ)
		fillPresent(v.Elem(), r)
		rec.Eval(1)
		rec.Count("fixed_width_registered_accepted", 1)
		data, err, pn := marshal(tc.p, nil, v.Interface())
		if err != nil || pn != "" {
			rec.Violation("accepted-codec-fails", fmt.Sprintf("Marshal with the codec that was handed out: %v %s %s\n  value %s", err, pn, desc, model.Show(v.Elem())), map[string]any{"type": typeString(tc.typ)})
			return
		}
		out := reflect.New(tc.typ)
		if err, pn := unmarshal(tc.p, data, out.Interface()); err != nil || pn != "" {
			rec.Violation("accepted-codec-fails", fmt.Sprintf("Unmarshal with the codec that was handed out: %v %s %s\n  bytes %s", err, pn, desc, hexHead(data)), map[string]any{"type": typeString(tc.typ)})
			return
		}
		if !reflect.DeepEqual(v.Elem().Interface(), out.Elem().Interface()) {
			rec.Violation("accepted-codec-corrupts", fmt.Sprintf("the codec that was handed out does not bring a fully present value back %s\n  value %s\n  got   %s\n  bytes %s", desc, model.Show(v.Elem()), model.Show(out.Elem()), hexHead(data)), map[string]any{"type": typeString(tc.typ)})
			return
		}
	}
}

// c08Works: an accepted definition gives a codec that round-trips
func c08Works(c *core.Ctx, tc *tcase, r *rand.Rand) {
	rec := c.Rec
	for j := 0; j < 4; j++ {
		v := (&gen.VG{R: r, C: tc.cfg, Budget: 100}).Value(tc.typ, "")
		if tc.typ.Kind() == reflect.Ptr {
			continue
		}
		rec.Eval(1)
		data, err, pn := marshal(tc.p, nil, ptrTo(v))
		if err != nil || pn != "" {
			rec.Violation("accepted-codec-fails", fmt.Sprintf("[%s] Marshal with an accepted definition: %v %s\n  type %s\n  value %s", tc.name, err, pn, typeString(tc.typ), model.Show(v)), caseExtra(tc, v, nil))
			return
		}
		out := reflect.New(tc.typ)
		if err, pn := unmarshal(tc.p, data, out.Interface()); err != nil || pn != "" {
			rec.Violation("accepted-codec-fails", fmt.Sprintf("[%s] Unmarshal with an accepted definition: %v %s\n  type %s\n  bytes %s", tc.name, err, pn, typeString(tc.typ), hexHead(data)), caseExtra(tc, v, data))
			return
		}
		if d := model.Diff(tc.cfg.Normalise(v, "", true), out.Elem(), "$"); d != "" {
			rec.Violation("accepted-codec-corrupts", fmt.Sprintf("[%s] an accepted definition does not round-trip: %s\n  type %s\n  value %s\n  bytes %s", tc.name, d, typeString(tc.typ), model.Show(v), hexHead(data)), caseExtra(tc, v, data))
			return
		}
	}
}

// c08Skipped: unexported and "-" fields are never encoded and never written
func c08Skipped(c *core.Ctx, tc *tcase, r *rand.Rand) {
	rec := c.Rec
	for j := 0; j < 4; j++ {
		v := reflect.New(tc.typ).Elem()
		v.Set((&gen.VG{R: r, C: tc.cfg, Budget: 100}).Value(tc.typ, ""))
		clean, err, pn := marshal(tc.p, nil, v.Addr().Interface())
		if err != nil || pn != "" {
			return
		}
		n := 0
		setSkipped(v, r, &n)
		if n == 0 {
			return
		}
		rec.Eval(1)
		rec.Count("skipped_fields_with_sentinels", n)
		dirty, err, pn := marshal(tc.p, nil, v.Addr().Interface())
		if err != nil || pn != "" {
			rec.Violation("skipped-field-encoded", fmt.Sprintf("[%s] Marshal fails once skipped fields hold values: %v %s\n  type %s", tc.name, err, pn, typeString(tc.typ)), nil)
			return
		}
		same := bytes.Equal(clean, dirty)
		if !same && model.HasMultiMap(v) {
			a, e1 := tc.cfg.Canon(tc.typ, "", clean)
			b, e2 := tc.cfg.Canon(tc.typ, "", dirty)
			same = e1 == nil && e2 == nil && bytes.Equal(a, b)
		}
		if !same {
			rec.Violation("skipped-field-encoded", fmt.Sprintf("[%s] the encoding changes when unexported or \"-\" fields are set: %s vs %s\n  type %s\n  value %s", tc.name, hexHead(clean), hexHead(dirty), typeString(tc.typ), model.Show(v)), caseExtra(tc, v, dirty))
			return
		}
		// decode into a target whose skipped fields hold sentinels: they must survive
		target := reflect.New(tc.typ).Elem()
		target.Set(model.DeepCopy(v))
		setSkipped(target, r, &n)
		before := reflect.New(tc.typ).Elem()
		before.Set(target) // shallow copy keeps unexported fields
		data2, _, _ := marshal(tc.p, nil, ptrTo((&gen.VG{R: r, C: tc.cfg, Budget: 100}).Value(tc.typ, "")))
		if err, pn := unmarshal(tc.p, data2, target.Addr().Interface()); err != nil || pn != "" {
			rec.Violation("accepted-codec-fails", fmt.Sprintf("[%s] %v %s", tc.name, err, pn), nil)
			return
		}
		if d := skippedDiff(before, target, "$"); d != "" {
			rec.Violation("skipped-field-written", fmt.Sprintf("[%s] Unmarshal wrote to an unexported or \"-\" field: %s\n  type %s", tc.name, d, typeString(tc.typ)), nil)
			return
		}
	}
}

func init() {
	core.Register(&core.Prop{
		ID:        "C08",
		Technique: "definition-fault monitor: struct definitions with planted invalid constructs at random nesting positions, each CodecForType/Marshal/Unmarshal under panic capture in a child process and classified reject / working codec; sentinel values in unexported and \"-\" fields",
		Rule: "every 23rd case: planted definitions (invalid ones and valid neighbours) asked for by 3-8 goroutines at once on a new instance through CodecForType, CodecForTypeWithTag, Marshal and Unmarshal: every caller gets the error, or a codec that works. among the planted definitions: pointers to and slices of types whose registered codec is fixed width although their kind is not a float (null.Float, a codec the caller registered): an error, or a codec that brings fully present values back. every 19th case: maps with pointer keys (accepted types) at top level, as a field and in the repeated form, compared by pointee, earlier results re-read after later decodes. Otherwise two thirds of the cases: one of 9 families of invalid constructs (missing tag, unparsable index, negative index, duplicate indexes incl. across skipped fields, option without codec, unsupported kind, slice of float pointers, slice of slices of length-delimited elements, maps nested where they cannot be encoded) or a valid neighbour, wrapped 0-3 levels deep as field / pointer target / slice element / map value / map key / pointer field; must-reject families must yield an error from CodecForType, Marshal and Unmarshal without a panic, valid neighbours must yield a codec that round-trips. " +
			"one third: generated valid definitions with unexported and \"-\" fields: accepted, round-trip, encoding unchanged when those fields are set (via unsafe), and sentinels in them survive Unmarshal. distinct = distinct (definition, configuration) pairs",
		Assume: []string{"model.Validate states which definitions the documentation accepts"},
		Plan: func(tier string) []core.Lane {
			if tier == "thorough" {
				return []core.Lane{{Lane: "plain", Cases: 3000000, Shards: 16, MemMB: 6000, TimeoutS: 3600}}
			}
			return []core.Lane{{Lane: "plain", Cases: 45000, Shards: 16, MemMB: 6000, TimeoutS: 1200}}
		},
		Case: c08Case,
	})
}
