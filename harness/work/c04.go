package work

import (
	"fmt"
	"math/rand/v2"
	"os"
	"reflect"
	"runtime"
	"strconv"
	"strings"
	"sync"
	"time"

	"github.com/philpearl/plenc"
	"github.com/philpearl/plenc/plenccodec"

	"verifharness/core"
	"verifharness/gen"
	"verifharness/model"
	"verifharness/mon"
	"verifharness/types"
)

// C04: decoding arbitrary bytes is total.

type c04Target struct {
	name string
	cfg  model.Cfg
	typ  reflect.Type
}

type tIdx0 struct {
	A int    `plenc:"0"`
	B string `plenc:"1"`
	C []int  `plenc:"2"`
}

type tHighIdx struct {
	A int       `plenc:"2047"`
	B []string  `plenc:"2048"`
	C *tHighIdx `plenc:"100000"`
}

type tScalars struct {
	B   bool       `plenc:"1"`
	I   int        `plenc:"2"`
	I8  int8       `plenc:"3"`
	U64 uint64     `plenc:"4"`
	F32 float32    `plenc:"5"`
	F64 float64    `plenc:"6"`
	S   string     `plenc:"7"`
	BS  []byte     `plenc:"8"`
	T   time.Time  `plenc:"9"`
	FI  int32      `plenc:"10,flat"`
	IN  string     `plenc:"11,intern"`
	PT  *time.Time `plenc:"12"`
	PS  *string    `plenc:"13"`
}

type tSlices struct {
	I   []int           `plenc:"1"`
	U8  []types.MyUint8 `plenc:"2"`
	F32 []float32       `plenc:"3"`
	F64 []float64       `plenc:"4"`
	B   []bool          `plenc:"5"`
	S   []string        `plenc:"6"`
	BB  [][]byte        `plenc:"7"`
	T   []time.Time     `plenc:"8"`
	L   []types.Leaf    `plenc:"9"`
	PL  []*types.Leaf   `plenc:"10"`
	PI  []*int          `plenc:"11"`
	II  [][]int         `plenc:"12"`
	FF  [][]float64     `plenc:"13"`
	PS  []*string       `plenc:"14"`
	SP  []string        `plenc:"15,proto"`
	LP  []types.Leaf    `plenc:"16,proto"`
}

type tMaps struct {
	A map[string]int           `plenc:"1"`
	B map[int]string           `plenc:"2"`
	C map[types.Key]types.Leaf `plenc:"3"`
	D map[string]*types.Leaf   `plenc:"4"`
	E map[string][]string      `plenc:"5"`
	F map[float64][]byte       `plenc:"6"`
	G map[string]types.Leaf    `plenc:"7,proto"`
	H map[int32]int64          `plenc:"8,proto"`
	I map[bool]time.Time       `plenc:"9"`
}

type tNulls struct {
	I  nullInt            `plenc:"1"`
	B  nullBool           `plenc:"2"`
	F  nullFloat          `plenc:"3"`
	S  nullString         `plenc:"4"`
	T  nullTime           `plenc:"5"`
	SI nullString         `plenc:"6,intern"`
	M  map[string]nullInt `plenc:"7"`
}

type tJSON struct {
	M map[string]any `plenc:"1"`
	A []any          `plenc:"2"`
	X int            `plenc:"3"`
}

type tBQ struct {
	T time.Time    `plenc:"1,flattime"`
	P *time.Time   `plenc:"2,flattime"`
	L []types.Leaf `plenc:"3"`
}

func c04Targets() []c04Target {
	cfgs := instCfgs()
	def, pa, pt, both := cfgs[0], cfgs[1], cfgs[2], cfgs[3]
	T := reflect.TypeOf
	var ts []c04Target
	add := func(name string, cfg model.Cfg, t reflect.Type) {
		if cfg.Validate(t, "") == "" {
			ts = append(ts, c04Target{name, cfg, t})
		}
	}
	for _, e := range []struct {
		n string
		t reflect.Type
	}{
		{"int", T(int(0))}, {"uint64", T(uint64(0))}, {"bool", T(false)}, {"float32", T(float32(0))}, {"float64", T(float64(0))},
		{"string", T("")}, {"bytes", T([]byte(nil))}, {"time", T(time.Time{})}, {"[]int", T([]int(nil))}, {"[]float64", T([]float64(nil))},
		{"[]string", T([]string(nil))}, {"[]Leaf", T([]types.Leaf(nil))}, {"map[string]int", T(map[string]int(nil))}, {"map[Key]Leaf", T(map[types.Key]types.Leaf(nil))},
		{"jsonmap", model.JSONMapT}, {"jsonarray", model.JSONArrayT},
		{"scalars", T(tScalars{})}, {"slices", T(tSlices{})}, {"maps", T(tMaps{})}, {"nulls", T(tNulls{})}, {"json", T(tJSON{})}, {"bq", T(tBQ{})},
		{"idx0", T(tIdx0{})}, {"highidx", T(tHighIdx{})},
		{"Named", T(types.Named{})}, {"Tree", T(types.Tree{})}, {"PTree", T(types.PTree{})}, {"MutA", T(types.MutA{})}, {"Tri1", T(types.Tri1{})},
		{"Diamond", T(types.Diamond{})}, {"Embeds", T(types.Embeds{})}, {"Mixed", T(types.Mixed{})}, {"KeyedMaps", T(types.KeyedMaps{})}, {"Protoish", T(types.Protoish{})},
		{"Descriptor", T(plenccodec.Descriptor{})},
	} {
		add(e.n, def, e.t)
	}
	for _, e := range []struct {
		n string
		t reflect.Type
	}{
		{"scalars", T(tScalars{})}, {"slices", T(tSlices{})}, {"maps", T(tMaps{})}, {"Tree", T(types.Tree{})}, {"Protoish", T(types.Protoish{})}, {"Diamond", T(types.Diamond{})}, {"json", T(tJSON{})},
	} {
		add(e.n+"/protoArrays+protoTime", both, e.t)
	}
	add("time/protoTime", pt, T(time.Time{}))
	add("slices/protoArrays", pa, T(tSlices{}))
	// values and keys wider than any fixed-size scratch or zero block a decoder may keep (64 KiB and
	// 1120 bytes), in every container
	wv, wk := wideStruct(8192), wideStruct(140)
	sf := func(n string, t reflect.Type, tag string) reflect.StructField {
		return reflect.StructField{Name: n, Type: t, Tag: reflect.StructTag(tag)}
	}
	wide := reflect.StructOf([]reflect.StructField{
		sf("M", reflect.MapOf(T(""), wv), `plenc:"1"`), sf("K", reflect.MapOf(wk, T(int32(0))), `plenc:"2"`), sf("S", reflect.SliceOf(wv), `plenc:"3"`),
		sf("MP", reflect.MapOf(T(""), wv), `plenc:"4,proto"`), sf("P", reflect.PointerTo(wv), `plenc:"5"`), sf("KP", reflect.MapOf(wk, wv), `plenc:"6,proto"`)})
	add("wide", def, wide)
	add("map[string]wide", def, reflect.MapOf(T(""), wv))
	return ts
}

func wideStruct(n int) reflect.Type {
	fs := make([]reflect.StructField, n)
	for i := range fs {
		fs[i] = reflect.StructField{Name: fmt.Sprintf("W%d", i), Type: reflect.TypeOf(int64(0)), Tag: reflect.StructTag(fmt.Sprintf(`plenc:"%d"`, i+1))}
	}
	return reflect.StructOf(fs)
}

// c04Crafted are well-formed container encodings no encoder produces: map entries with a key and no
// value, a value and no key, neither; for fields 1-6 in the counted and the repeated form and for
// a top-level map. They join every target's valid encodings as material for prefixes and mutants.
func c04Crafted() [][]byte {
	entries := [][]byte{{0x0a, 0x01, 'k'}, {0x08, 0x02}, {}, {0x12, 0x00}, {0x10, 0x03}, {0x0a, 0x01, 'k', 0x0a, 0x01, 'j'}}
	var out [][]byte
	for _, e := range entries {
		out = append(out, append([]byte{0x01, byte(len(e))}, e...), append([]byte{0x02, byte(len(e))}, append(e, append([]byte{byte(len(e))}, e...)...)...))
		for f := byte(1); f <= 6; f++ {
			out = append(out, append([]byte{f<<3 | 3, 0x01, byte(len(e))}, e...))
			out = append(out, append([]byte{f<<3 | 2, byte(len(e))}, e...))
		}
	}
	return out
}

var c04Alphabet = []byte{0x00, 0x01, 0x02, 0x03, 0x04, 0x05, 0x08, 0x09, 0x0a, 0x0b, 0x0d, 0x10, 0x12, 0x13, 0x15, 0x18, 0x1a, 0x1b, 0x7f, 0x80, 0x81, 0xff, 0xfe, 0xc0}

var bigVarints = [][]byte{
	{0x80, 0x80, 0x80, 0x80, 0x08},                                     // 2^31
	{0xff, 0xff, 0xff, 0xff, 0x0f},                                     // 2^32-1
	{0x80, 0x80, 0x80, 0x80, 0x10},                                     // 2^32
	{0x80, 0x80, 0x80, 0x80, 0x80, 0x80, 0x80, 0x80, 0x80, 0x01},       // 2^63
	{0xff, 0xff, 0xff, 0xff, 0xff, 0xff, 0xff, 0xff, 0x7f},             // 2^63-1
	{0xff, 0xff, 0xff, 0xff, 0xff, 0xff, 0xff, 0xff, 0xff, 0x01},       // 2^64-1
	{0xff, 0xff, 0xff, 0xff, 0xff, 0xff, 0xff, 0xff, 0xff, 0xff, 0x01}, // over-long
	{0x80, 0x80, 0x80, 0x80, 0x80, 0x80, 0x80, 0x80, 0x80, 0x80, 0x80, 0x80},
	{0x80, 0x00}, // non-minimal zero
	{0xff, 0x7f}, // 16383
	{0x80, 0x80, 0x01},
	{0x80, 0x80, 0x40}, // 1M
}

// deepJSON nests arrays (kind 0), objects (1) or both in turn (2) depth levels deep around a string
func deepJSON(depth, kind int) any {
	var v any = "bottom"
	for i := 0; i < depth; i++ {
		if kind == 0 || (kind == 2 && i%2 == 0) {
			v = []any{v}
		} else {
			v = map[string]any{"n": v}
		}
	}
	return v
}

// mutate derives a hostile input from valid encodings
func mutate(r *rand.Rand, valid [][]byte) []byte {
	base := append([]byte(nil), valid[r.IntN(len(valid))]...)
	nm := 1 + r.IntN(3)
	for m := 0; m < nm; m++ {
		switch r.IntN(10) {
		case 0: // truncate
			if len(base) > 0 {
				base = base[:r.IntN(len(base))]
			}
		case 1: // flip bits
			if len(base) > 0 {
				base[r.IntN(len(base))] ^= 1 << uint(r.IntN(8))
			}
		case 2: // set a byte to an interesting value
			if len(base) > 0 {
				base[r.IntN(len(base))] = c04Alphabet[r.IntN(len(c04Alphabet))]
			}
		case 3: // replace a byte by a big varint
			if len(base) > 0 {
				i := r.IntN(len(base))
				bv := bigVarints[r.IntN(len(bigVarints))]
				base = append(base[:i:i], append(append([]byte(nil), bv...), base[i+1:]...)...)
			}
		case 4: // insert a big varint
			i := r.IntN(len(base) + 1)
			bv := bigVarints[r.IntN(len(bigVarints))]
			base = append(base[:i:i], append(append([]byte(nil), bv...), base[i:]...)...)
		case 5: // duplicate a span
			if len(base) > 1 {
				i := r.IntN(len(base))
				j := i + 1 + r.IntN(len(base)-i)
				span := append([]byte(nil), base[i:j]...)
				k := r.IntN(len(base) + 1)
				base = append(base[:k:k], append(span, base[k:]...)...)
			}
		case 6: // delete a span
			if len(base) > 1 {
				i := r.IntN(len(base))
				j := i + 1 + r.IntN(min(len(base)-i, 4))
				base = append(base[:i:i], base[j:]...)
			}
		case 7: // splice with another valid encoding
			o := valid[r.IntN(len(valid))]
			if len(o) > 0 {
				i := r.IntN(len(base) + 1)
				j := r.IntN(len(o))
				base = append(base[:i:i], o[j:]...)
			}
		case 8: // change the wire type of what may be a tag
			if len(base) > 0 {
				i := r.IntN(len(base))
				base[i] = base[i]&^7 | byte(r.IntN(8))
			}
		case 9: // random bytes appended
			n := 1 + r.IntN(6)
			for k := 0; k < n; k++ {
				base = append(base, byte(r.Uint32()))
			}
		}
		if len(base) > 60000 {
			base = base[:60000]
		}
	}
	return base
}

// maxReachableSize is S_T: the largest element a byte of input can ask for
func maxReachableSize(t reflect.Type, seen map[reflect.Type]bool) uintptr {
	if seen[t] {
		return 0
	}
	seen[t] = true
	sz := t.Size()
	switch t.Kind() {
	case reflect.Ptr, reflect.Slice:
		if s := maxReachableSize(t.Elem(), seen); s > sz {
			sz = s
		}
	case reflect.Map:
		b := 8*(t.Key().Size()+t.Elem().Size()) + 64
		if b > sz {
			sz = b
		}
		for _, e := range []reflect.Type{t.Key(), t.Elem()} {
			if s := maxReachableSize(e, seen); s > sz {
				sz = s
			}
		}
	case reflect.Struct:
		for i := 0; i < t.NumField(); i++ {
			if s := maxReachableSize(t.Field(i).Type, seen); s > sz {
				sz = s
			}
		}
	}
	if sz < 64 {
		sz = 64
	}
	return sz
}

type c04State struct {
	targets []c04Target
	insts   []*plenc.Plenc
	descs   []*plenccodec.Descriptor
	warm    []reflect.Value // per target: what the first valid encoding decodes to
	tries   int
	older   [][]*plenccodec.Descriptor // per target: descriptors of the same named type with fields removed (another schema version)
	dreads  int
	sizes   []uintptr
	intern  []bool     // the target has intern-tagged fields (known finding D30)
	calls   []int64    // Unmarshal calls made on the target's instance so far
	valid   [][][]byte // per target: valid encodings to mutate
	wd      *mon.Watchdog
	alloc   *mon.AllocMeter
	cur     struct {
		idx    int
		target string
		input  []byte
		what   string
	}
}

const c04AllocBase = 64 << 10

func c04Setup(c *core.Ctx) {
	// the CPU meter reads the calling thread's clock: stay on one thread
	runtime.LockOSThread()
	st := &c04State{targets: c04Targets(), alloc: mon.NewAllocMeter()}
	r := rand.New(rand.NewPCG(uint64(c.Seed), 4))
	for _, t := range st.targets {
		p := instNew(t.cfg)
		st.insts = append(st.insts, p)
		codec, err := p.CodecForType(t.typ)
		if err != nil {
			c.Rec.ViolationAt(-1, "valid-type-rejected", fmt.Sprintf("target %s: %v", t.name, err), nil)
			st.descs = append(st.descs, nil)
		} else if isRecursive(t.typ) {
			st.descs = append(st.descs, nil)
		} else {
			d := codec.Descriptor()
			st.descs = append(st.descs, &d)
		}
		var older []*plenccodec.Descriptor
		if d := st.descs[len(st.descs)-1]; d != nil {
			for k := 0; k < 2; k++ {
				o := thinDescriptor(r, *d, true)
				older = append(older, &o)
			}
		}
		st.older = append(st.older, older)
		st.sizes = append(st.sizes, maxReachableSize(t.typ, map[reflect.Type]bool{}))
		st.intern = append(st.intern, hasInternField(t.typ, map[reflect.Type]bool{}))
		st.calls = append(st.calls, 0)
		var vs [][]byte
		for i := 0; i < 24; i++ {
			v := (&gen.VG{R: r, C: t.cfg, Budget: 80}).Value(t.typ, "")
			if data, err, pn := marshal(p, nil, ptrTo(v)); err == nil && pn == "" && len(data) > 0 && len(data) < 3000 {
				vs = append(vs, data)
			}
		}
		// free-form JSON parts nest as deep as the data says, not as deep as the type: valid values
		// 66, 130 and 300 levels deep (arrays, objects, alternating) join the material (round 12: k04)
		for _, depth := range []int{66, 130, 300} {
			for kind := 0; kind < 3; kind++ {
				var v reflect.Value
				switch t.typ {
				case model.JSONMapT:
					v = reflect.ValueOf(map[string]any{"k": deepJSON(depth, kind)})
				case model.JSONArrayT:
					v = reflect.ValueOf([]any{1, deepJSON(depth, kind)})
				case reflect.TypeOf(tJSON{}):
					v = reflect.ValueOf(tJSON{M: map[string]any{"deep": deepJSON(depth, kind)}, A: []any{deepJSON(depth/2, kind)}, X: 7})
				default:
					continue
				}
				if data, err, pn := marshal(p, nil, ptrTo(v)); err == nil && pn == "" && len(data) > 0 && len(data) < 4000 {
					vs = append(vs, data)
					c.Rec.Count("deep_json_seeds", 1)
				}
			}
		}
		if len(vs) == 0 {
			vs = append(vs, []byte{0x08, 0x01})
		}
		warm := reflect.Value{}
		if len(vs) > 0 {
			w := reflect.New(t.typ)
			if err, pn := unmarshal(p, vs[0], w.Interface()); err == nil && pn == "" {
				warm = w.Elem()
			}
		}
		st.warm = append(st.warm, warm)
		vs = append(vs, c04Crafted()...)
		st.valid = append(st.valid, vs)
	}
	st.wd = &mon.Watchdog{Limit: 4 * time.Second}
	st.wd.OnHang = func(step uint64, burnt time.Duration) {
		c.Rec.ViolationAt(st.cur.idx, "hang", fmt.Sprintf("%s of target %s consumed %.1fs of CPU without returning on the %d-byte input %s", st.cur.what, st.cur.target, burnt.Seconds(), len(st.cur.input), hexHead(st.cur.input)),
			map[string]any{"target": st.cur.target, "input": fmt.Sprintf("%x", st.cur.input)})
		c.Rec.Close(false)
		os.Exit(3)
	}
	st.wd.Start()
	c.State = st
}

// decodeOnce runs Unmarshal on data (exact capacity) and returns the outcome
func (st *c04State) decodeOnce(c *core.Ctx, ti int, data []byte, what string) (val reflect.Value, err error, ok bool) {
	return st.decodeInto(c, ti, data, what, reflect.Value{})
}

// decodeInto is decodeOnce with a target the caller prepared (invalid: a fresh one)
func (st *c04State) decodeInto(c *core.Ctx, ti int, data []byte, what string, prepared reflect.Value) (val reflect.Value, err error, ok bool) {
	t := st.targets[ti]
	st.cur.target, st.cur.input, st.cur.what = t.name, data, what
	core.TheCursor.Note(what, " target=", t.name, " input=", fmt.Sprintf("%x", head(data, 4000)))
	st.wd.Step.Add(1)
	st.wd.Busy.Store(true)
	target := reflect.New(t.typ)
	if prepared.IsValid() {
		target = prepared
	}
	a0 := st.alloc.Bytes()
	cpu0 := mon.ThreadCPU()
	var pn string
	fault := mon.Faulting(func() { pn = core.Guard(func() { err = st.insts[ti].Unmarshal(data, target.Interface()) }) })
	cpu := mon.ThreadCPU() - cpu0
	alloc := st.alloc.Bytes() - a0
	st.wd.Busy.Store(false)
	st.wd.Step.Add(1)
	c.Rec.Eval(1)
	extra := map[string]any{"target": t.name, "input": fmt.Sprintf("%x", head(data, 4000))}
	if fault != "" || pn != "" {
		c.Rec.Violation("decode-panic", fmt.Sprintf("%s panicked / faulted on target %s, %d-byte input %s: %s%s", what, t.name, len(data), hexHead(data), fault, pn), extra)
		return val, nil, false
	}
	if cpu > 2*time.Second {
		c.Rec.Violation("decode-slow", fmt.Sprintf("%s on target %s took %.2fs of CPU for a %d-byte input %s", what, t.name, cpu.Seconds(), len(data), hexHead(data)), extra)
		return val, nil, false
	}
	bound := uint64(c04AllocBase) + 64*uint64(st.sizes[ti])*uint64(len(data)+16)
	st.calls[ti]++
	if st.intern[ti] {
		// known finding D30: an unseen value of an interned field copies the field's whole table, which
		// holds at most one entry per earlier call on this instance. The allowance covers exactly that
		// copy (about 100 bytes per entry and interned field), nothing else.
		bound += uint64(st.calls[ti]) * 128 * 4
	}
	if alloc > bound {
		c.Rec.Violation("decode-alloc", fmt.Sprintf("%s on target %s allocated %d bytes for a %d-byte input %s (bound %d = %d + 64 x %d x (len+16))", what, t.name, alloc, len(data), hexHead(data), bound, c04AllocBase, st.sizes[ti]), extra)
		return val, nil, false
	}
	c.Rec.Max("alloc_per_input_byte_over_elemsize", float64(alloc)/float64(uint64(st.sizes[ti])*uint64(len(data)+16)))
	c.Rec.Max("cpu_ms_per_call", float64(cpu.Microseconds())/1000)
	if err != nil {
		c.Rec.Count("decode_errors", 1)
	} else {
		c.Rec.Count("decode_successes", 1)
	}
	return target.Elem(), err, true
}

// thinDescriptor returns a deep copy of d in which plain structs have lost some of their fields:
// the descriptor of an earlier or later version of the same named type (type names are kept), the
// kind of descriptor that is stored next to data and read back years later. Map entries, slices
// and times keep their shape.
func thinDescriptor(r *rand.Rand, d plenccodec.Descriptor, top bool) plenccodec.Descriptor {
	out := d
	out.Elements = nil
	plain := d.Type == plenccodec.FieldTypeStruct && d.LogicalType == plenccodec.LogicalTypeNone
	for i, e := range d.Elements {
		if plain && (r.IntN(3) == 0 || (top && i == len(d.Elements)-1)) {
			continue
		}
		out.Elements = append(out.Elements, thinDescriptor(r, e, false))
	}
	return out
}

// descOnce reads data through the target's descriptor and then through one of its other versions
func (st *c04State) descOnce(c *core.Ctx, ti int, data []byte) bool {
	if st.descs[ti] == nil {
		return true
	}
	if !st.descRead(c, ti, st.descs[ti], "", data) {
		return false
	}
	st.dreads++
	k := st.dreads % len(st.older[ti])
	return st.descRead(c, ti, st.older[ti][k], fmt.Sprintf(" (version %d of the type, fields removed)", k+1), data)
}

func (st *c04State) descRead(c *core.Ctx, ti int, d *plenccodec.Descriptor, which string, data []byte) bool {
	t := st.targets[ti]
	st.cur.target, st.cur.input, st.cur.what = t.name, data, "Descriptor.Read"
	core.TheCursor.Note("Descriptor.Read target=", t.name, " input=", fmt.Sprintf("%x", head(data, 4000)))
	st.wd.Step.Add(1)
	st.wd.Busy.Store(true)
	var jo plenccodec.JSONOutput
	a0 := st.alloc.Bytes()
	cpu0 := mon.ThreadCPU()
	var err error
	var pn string
	fault := mon.Faulting(func() { pn = core.Guard(func() { err = d.Read(&jo, data) }) })
	cpu := mon.ThreadCPU() - cpu0
	alloc := st.alloc.Bytes() - a0
	st.wd.Busy.Store(false)
	st.wd.Step.Add(1)
	c.Rec.Eval(1)
	extra := map[string]any{"target": t.name, "input": fmt.Sprintf("%x", head(data, 4000)), "call": "Descriptor.Read" + which}
	if which != "" {
		c.Rec.Count("descriptor_reads_other_version", 1)
	}
	if fault != "" || pn != "" {
		c.Rec.Violation("descriptor-panic", fmt.Sprintf("Descriptor.Read%s panicked / faulted on target %s, %d-byte input %s: %s%s", which, t.name, len(data), hexHead(data), fault, pn), extra)
		return false
	}
	if cpu > 2*time.Second {
		c.Rec.Violation("descriptor-slow", fmt.Sprintf("Descriptor.Read on target %s took %.2fs of CPU for a %d-byte input %s", t.name, cpu.Seconds(), len(data), hexHead(data)), extra)
		return false
	}
	bound := uint64(c04AllocBase) + 64*uint64(st.sizes[ti])*uint64(len(data)+16)
	if alloc > bound {
		c.Rec.Violation("descriptor-alloc", fmt.Sprintf("Descriptor.Read on target %s allocated %d bytes for a %d-byte input %s (bound %d)", t.name, alloc, len(data), hexHead(data), bound), extra)
		return false
	}
	_ = err
	return true
}

// tryInput applies every monitor to one (target, input) pair
func (st *c04State) tryInput(c *core.Ctx, ti int, data []byte, cross bool) bool {
	// input with exact capacity, read-only, followed by an inaccessible page
	g, gerr := mon.NewGuard(data)
	if gerr != nil {
		c.Rec.Violation("harness", "mmap: "+gerr.Error(), nil)
		return false
	}
	v1, e1, ok := st.decodeOnce(c, ti, g.Data, "Unmarshal")
	if ok {
		ok = st.descOnce(c, ti, g.Data)
	}
	if ok && st.tries%4 == 1 && !strings.HasPrefix(st.targets[ti].name, "wide") && !strings.HasPrefix(st.targets[ti].name, "map[string]wide") {
		// a target that is not fresh: every slice and map in it empty but not nil, every pointer set -
		// or holding what an earlier valid message left there
		prep := reflect.New(st.targets[ti].typ)
		if st.tries%8 == 1 {
			emptyNotNil(prep.Elem(), 0)
		} else if w := st.warm[ti]; w.IsValid() {
			prep.Elem().Set(model.DeepCopy(w))
		}
		var vp reflect.Value
		vp, _, ok = st.decodeInto(c, ti, g.Data, "Unmarshal into a prepared target", prep)
		if ok {
			if bad := badSliceHeader(vp, "$", 0); bad != "" {
				c.Rec.Violation("decode-panic", fmt.Sprintf("Unmarshal into a prepared target of %s left a slice whose length exceeds its capacity (%s) on the %d-byte input %s", st.targets[ti].name, bad, len(data), hexHead(data)), map[string]any{"target": st.targets[ti].name, "input": fmt.Sprintf("%x", head(data, 4000))})
				ok = false
			}
		}
	}
	st.tries++
	g.Free()
	if !ok {
		return false
	}
	if cross {
		// the same input embedded in larger buffers with different trailing bytes: same outcome
		for k, fill := range []byte{0xAA, 0x01} {
			big := make([]byte, len(data), len(data)+24)
			copy(big, data)
			tail := big[len(data):cap(big)]
			for i := range tail {
				tail[i] = fill
			}
			v2, e2, ok := st.decodeOnce(c, ti, big, "Unmarshal (input followed by spare capacity)")
			if !ok {
				return false
			}
			if (e1 == nil) != (e2 == nil) {
				c.Rec.Violation("reads-outside-input", fmt.Sprintf("target %s: the outcome depends on bytes after the input's length (cap>len, fill %#x): error %v vs %v on input %s", st.targets[ti].name, fill, e1, e2, hexHead(data)),
					map[string]any{"target": st.targets[ti].name, "input": fmt.Sprintf("%x", data)})
				return false
			}
			if e1 == nil && k == 0 {
				if d := model.Diff(v1, v2, "$"); d != "" && !hasNaN(v1) {
					c.Rec.Violation("reads-outside-input", fmt.Sprintf("target %s: the decoded value depends on bytes after the input's length: %s on input %s", st.targets[ti].name, d, hexHead(data)),
						map[string]any{"target": st.targets[ti].name, "input": fmt.Sprintf("%x", data)})
					return false
				}
			}
		}
	}
	return true
}

// emptyNotNil sets every slice and map reachable in v to an empty, non-nil one and every pointer
// to a fresh target (three levels deep)
func emptyNotNil(v reflect.Value, depth int) {
	if depth > 3 || !v.CanSet() {
		return
	}
	switch v.Kind() {
	case reflect.Slice:
		v.Set(reflect.MakeSlice(v.Type(), 0, 0))
	case reflect.Map:
		v.Set(reflect.MakeMap(v.Type()))
	case reflect.Ptr:
		v.Set(reflect.New(v.Type().Elem()))
		emptyNotNil(v.Elem(), depth+1)
	case reflect.Struct:
		if v.Type() == model.TimeT {
			return
		}
		for i := 0; i < v.NumField(); i++ {
			emptyNotNil(v.Field(i), depth+1)
		}
	}
}

// badSliceHeader finds a slice whose length exceeds its capacity
func badSliceHeader(v reflect.Value, path string, depth int) string {
	if depth > 6 {
		return ""
	}
	switch v.Kind() {
	case reflect.Slice:
		if v.Len() > v.Cap() {
			return fmt.Sprintf("%s: len %d cap %d", path, v.Len(), v.Cap())
		}
		for i := 0; i < v.Len() && i < 4 && i < v.Cap(); i++ {
			if s := badSliceHeader(v.Index(i), path+"[]", depth+1); s != "" {
				return s
			}
		}
	case reflect.Ptr, reflect.Interface:
		if !v.IsNil() {
			return badSliceHeader(v.Elem(), path+"*", depth+1)
		}
	case reflect.Struct:
		if v.Type() == model.TimeT {
			return ""
		}
		for i := 0; i < v.NumField(); i++ {
			if v.Type().Field(i).IsExported() {
				if s := badSliceHeader(v.Field(i), path+"."+v.Type().Field(i).Name, depth+1); s != "" {
					return s
				}
			}
		}
	}
	return ""
}

func hasInternField(t reflect.Type, seen map[reflect.Type]bool) bool {
	switch t.Kind() {
	case reflect.Ptr, reflect.Slice:
		return hasInternField(t.Elem(), seen)
	case reflect.Map:
		return hasInternField(t.Key(), seen) || hasInternField(t.Elem(), seen)
	case reflect.Struct:
		if seen[t] {
			return false
		}
		seen[t] = true
		for i := 0; i < t.NumField(); i++ {
			if strings.Contains(t.Field(i).Tag.Get("plenc"), ",intern") || hasInternField(t.Field(i).Type, seen) {
				return true
			}
		}
	}
	return false
}

func hasNaN(v reflect.Value) bool {
	found := false
	var walk func(v reflect.Value, d int)
	walk = func(v reflect.Value, d int) {
		if found || d > 12 {
			return
		}
		switch v.Kind() {
		case reflect.Float32, reflect.Float64:
			if f := v.Float(); f != f {
				found = true
			}
		case reflect.Ptr, reflect.Interface:
			if !v.IsNil() {
				walk(v.Elem(), d+1)
			}
		case reflect.Struct:
			if v.Type() == model.TimeT {
				return
			}
			for i := 0; i < v.NumField(); i++ {
				walk(v.Field(i), d+1)
			}
		case reflect.Slice:
			for i := 0; i < v.Len(); i++ {
				walk(v.Index(i), d+1)
			}
		case reflect.Map:
			it := v.MapRange()
			for it.Next() {
				walk(it.Key(), d+1)
				walk(it.Value(), d+1)
			}
		}
	}
	walk(v, 0)
	return found
}

// exhaustive short strings: block b of target ti covers the strings whose first symbol is b
func c04ShortStrings(maxLen int, first int, f func([]byte) bool) {
	al := c04Alphabet
	buf := make([]byte, 0, maxLen)
	var rec func(depth int) bool
	rec = func(depth int) bool {
		if !f(buf) {
			return false
		}
		if depth == maxLen {
			return true
		}
		for _, s := range al {
			buf = append(buf, s)
			if !rec(depth + 1) {
				return false
			}
			buf = buf[:len(buf)-1]
		}
		return true
	}
	buf = append(buf, al[first])
	rec(1)
}

func c04Plan(tier string) (maxLen, mutBlocks, perBlock int) {
	if tier == "thorough" {
		return 4, 400, 2000
	}
	return 3, 16, 1500
}

// parseCorpusFile reads a "go test fuzz v1" corpus file with a byte and a []byte argument
func parseCorpusFile(s string) (byte, []byte, bool) {
	var target byte
	var data []byte
	n := 0
	for _, l := range strings.Split(s, "\n") {
		l = strings.TrimSpace(l)
		switch {
		case strings.HasPrefix(l, "byte("):
			q := strings.TrimSuffix(strings.TrimPrefix(l, "byte("), ")")
			if u, err := strconv.Unquote(q); err == nil && len(u) > 0 {
				r := []rune(u)
				target = byte(r[0])
				if len(u) == 1 {
					target = u[0]
				}
				n++
			}
		case strings.HasPrefix(l, "[]byte("):
			q := strings.TrimSuffix(strings.TrimPrefix(l, "[]byte("), ")")
			if u, err := strconv.Unquote(q); err == nil {
				data = []byte(u)
				n++
			}
		}
	}
	return target, data, n == 2
}

// c04Finish: at the end of a shard the long-lived instances (whose interning tables hold every
// distinct value the shard has decoded) take hostile inputs from 8 goroutines at once. No meters
// here - only the verdicts that need none: no panic, no fatal error, no fault.
func c04Finish(c *core.Ctx) {
	st, ok := c.State.(*c04State)
	if !ok || c.Arg != "" || c.Lane == "fuzz" {
		return
	}
	st.wd.Busy.Store(false)
	r := rand.New(rand.NewPCG(uint64(c.Seed), uint64(c.Shard)+99))
	for ti := range st.targets {
		if !st.intern[ti] || ti%4 != c.Shard%4 {
			continue // targets with interned fields, each on a quarter of the shards
		}
		const g, per = 8, 250
		t := st.targets[ti]
		uniq := ti * 1000000
		fresh := func() []byte {
			v := (&gen.VG{R: r, C: t.cfg, Budget: 6, Unique: &uniq}).Value(t.typ, "")
			data, _, _ := marshal(st.insts[ti], nil, ptrTo(v))
			return data
		}
		if st.intern[ti] {
			// the tables of the interned fields hold a few thousand values before the goroutines start
			// (by count of fresh strings, not of messages: every unseen value copies its field's whole
			// table - known finding D30 - so the cost is quadratic in the number of values)
			for i := 0; i < 4300 && uniq-ti*1000000 < 9000; i++ {
				target := reflect.New(t.typ)
				core.Guard(func() { _ = st.insts[ti].Unmarshal(fresh(), target.Interface()) })
			}
		}
		inputs := make([][][]byte, g)
		for w := range inputs {
			for i := 0; i < per; i++ {
				if i%2 == 0 {
					inputs[w] = append(inputs[w], fresh()) // values nobody has seen yet
				} else {
					inputs[w] = append(inputs[w], mutate(r, st.valid[ti]))
				}
			}
		}
		core.TheCursor.Note("end-of-shard concurrent phase: 8 goroutines decoding mutants on the long-lived instance of target=", st.targets[ti].name)
		var wg sync.WaitGroup
		fails := make([]string, g)
		start := make(chan struct{})
		for w := 0; w < g; w++ {
			wg.Add(1)
			go func(w int) {
				defer wg.Done()
				<-start
				for _, in := range inputs[w] {
					target := reflect.New(st.targets[ti].typ)
					if pn := core.Guard(func() { _ = st.insts[ti].Unmarshal(in, target.Interface()) }); pn != "" {
						fails[w] = fmt.Sprintf("input %s: %s", hexHead(in), trunc1(pn))
						return
					}
				}
			}(w)
		}
		close(start)
		wg.Wait()
		c.Rec.Eval(g * per)
		c.Rec.Count("concurrent_hostile_decodes", g*per)
		for w, f := range fails {
			if f != "" {
				c.Rec.ViolationAt(-1, "decode-panic", fmt.Sprintf("Unmarshal panicked on target %s while 8 goroutines were decoding hostile inputs on one long-lived instance (goroutine %d): %s", st.targets[ti].name, w, f), map[string]any{"target": st.targets[ti].name})
				return
			}
		}
	}
}

func c04Case(c *core.Ctx, idx int) {
	st := c.State.(*c04State)
	st.cur.idx = idx
	if c.Arg != "" {
		// replay of a fuzz crasher
		if target, data, ok := parseCorpusFile(c.Arg); ok {
			st.tryInput(c, int(target)%len(st.targets), data, true)
		} else {
			c.Rec.Violation("harness", "cannot parse the corpus file", nil)
		}
		return
	}
	nt := len(st.targets)
	ti := idx % nt
	block := idx / nt
	maxLen, _, perBlock := c04Plan(c.Tier)
	nsym := len(c04Alphabet)
	n := 0
	if block < nsym {
		// exhaustive short strings starting with symbol `block` (block 0 also covers the empty input)
		if block == 0 {
			st.tryInput(c, ti, []byte{}, true)
		}
		c04ShortStrings(maxLen, block, func(b []byte) bool {
			n++
			in := append([]byte(nil), b...)
			return st.tryInput(c, ti, in, n%8 == 0)
		})
		c.Rec.Count("exhaustive_short_inputs", n)
		return
	}
	r := c.Rand(idx)
	// truncations of valid encodings (every prefix) in the first mutation block
	if block == nsym {
		for _, v := range st.valid[ti] {
			if len(v) > 400 {
				continue
			}
			for cut := 0; cut <= len(v); cut++ {
				n++
				if !st.tryInput(c, ti, append([]byte(nil), v[:cut]...), false) {
					return
				}
			}
		}
		c.Rec.Count("truncations", n)
		return
	}
	// mutants; every fourth block feeds encodings of other target types
	src := st.valid[ti]
	if block%4 == 1 {
		src = st.valid[r.IntN(nt)]
		c.Rec.Count("cross_type_blocks", 1)
	}
	for i := 0; i < perBlock; i++ {
		in := mutate(r, src)
		n++
		if c.Rec.WantSample() && len(in) > 4 && len(in) < 40 && i > 20 {
			c.Rec.Sample(map[string]any{"target": st.targets[ti].name, "input": fmt.Sprintf("%x", in), "kind": "mutant of a valid encoding"})
		}
		c.Rec.NonTrivial(core.Hash64(st.targets[ti].name, string(in)))
		if !st.tryInput(c, ti, in, i%8 == 0) {
			return
		}
	}
	c.Rec.Count("mutants", n)
}

func init() {
	core.Register(&core.Prop{
		ID:        "C04",
		Technique: "hostile-input monitor in child processes: exhaustive short strings, truncations and seeded mutations of valid encodings against ~45 (target type, configuration) pairs; panic/fault capture, guard-page read-only inputs with exact capacity, CPU-time meter and watchdog, allocation meter, spare-capacity differential; ASan lane in thorough",
		Rule: "targets: one (type, configuration) pair per codec family (scalars, every slice wrapper, maps incl. struct keys and proto maps, times x2, null.*, JSON any, BigQuery time, recursive and mutually recursive structs, index 0 and 100000, plenc's own Descriptor, 64 KiB values and 1120-byte keys in maps, slices and pointers). " +
			"inputs: ALL strings of length <= 3 (thorough: 4) over a 24-symbol alphabet of tag / length / continuation bytes, every prefix (and the whole) of 24 valid encodings per target (for the JSON-any targets also of values nested 66, 130 and 300 levels deep) and of crafted map entries no encoder writes (key only, value only, empty, duplicated key; both map forms), and seeded mutants (truncate, bit flip, interesting byte, huge/over-long varints replacing or inserted, duplicate/delete span, splice, wire-type flip, random tail; every fourth block from another target's encodings). " +
			"Each input is decoded by Unmarshal (one in four also into a prepared target: empty non-nil containers and set pointers, or what a valid message left) and (non-recursive targets) Descriptor.Read - through the target's descriptor and through another version of it that has lost fields at every depth but kept its type names - from a PROT_READ mapping whose end abuts a PROT_NONE page; one input in 8 is decoded again from heap buffers with spare capacity filled with two different patterns. " +
			"Verdict per call: no panic/fault, thread CPU <= 2 s (watchdog: 4 s of process CPU without returning), allocation <= 64 KiB + 64 x S_T x (len+16) where S_T is the largest element/bucket size reachable in the target type. distinct = distinct (target, mutant) pairs",
		Assume:     []string{"allocation is runtime.MemStats.TotalAlloc read around the call in a single-goroutine child", "the watchdog decides on process CPU time, not wall time"},
		Exhaustive: []string{"all strings of length <= 3 (quick) / <= 4 (thorough) over the 24-symbol alphabet, for every target"},
		Plan: func(tier string) []core.Lane {
			_, mutBlocks, _ := c04Plan(tier)
			cases := len(c04Targets()) * (len(c04Alphabet) + 1 + mutBlocks)
			lanes := []core.Lane{{Lane: "plain", Cases: cases, Shards: 16, MemMB: 6000, TimeoutS: 3600}}
			if tier == "thorough" {
				lanes = append(lanes, core.Lane{Lane: "asan", Cases: len(c04Targets()) * (len(c04Alphabet) + 1 + 40), Shards: 16, TimeoutS: 3600})
				// coverage-guided: Go's native fuzzer on the same monitors, bounded by executions, not time
				lanes = append(lanes, core.Lane{Lane: "fuzz", Cases: 20_000_000, Shards: 1, TimeoutS: 5400})
			}
			return lanes
		},
		Setup:  c04Setup,
		Case:   c04Case,
		Finish: c04Finish,
	})
}

// ---- coverage-guided lane: the same monitors behind a go-fuzz target ----

var c04Fuzz struct {
	ctx *core.Ctx
	st  *c04State
}

// FuzzTargets is the number of C04 targets (the fuzz target selects one with the first input byte)
func FuzzTargets() int { return len(c04Targets()) }

// FuzzSeeds returns valid encodings per target, used as the seed corpus
func FuzzSeeds() [][][]byte {
	fuzzInit()
	return c04Fuzz.st.valid
}

func fuzzInit() {
	if c04Fuzz.ctx != nil {
		return
	}
	p := core.Get("C04")
	ctx := &core.Ctx{Prop: p, Tier: "thorough", Lane: "fuzz", Seed: 1}
	rec, err := core.NewRecorder(os.DevNull, ctx)
	if err != nil {
		panic(err)
	}
	ctx.Rec = rec
	c04Setup(ctx)
	st := ctx.State.(*c04State)
	// inside a fuzz worker a hang must fail the test, not exit the process quietly
	st.wd.OnHang = func(step uint64, burnt time.Duration) {
		panic(fmt.Sprintf("hang: %s of target %s consumed %.1fs of CPU without returning on input %x", st.cur.what, st.cur.target, burnt.Seconds(), st.cur.input))
	}
	c04Fuzz.ctx, c04Fuzz.st = ctx, st
}

// FuzzOne applies every C04 monitor to one (target, input) pair and returns the violation ("" = held)
func FuzzOne(target byte, data []byte) string {
	fuzzInit()
	ctx, st := c04Fuzz.ctx, c04Fuzz.st
	if len(data) > 60000 {
		return ""
	}
	before := ctx.Rec.Violations()
	st.tryInput(ctx, int(target)%len(st.targets), append([]byte(nil), data...), true)
	if ctx.Rec.Violations() != before {
		return ctx.Rec.Last
	}
	return ""
}
