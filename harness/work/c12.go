package work

import (
	"bytes"
	"fmt"
	"math"
	"reflect"
	"time"

	"github.com/philpearl/plenc"
	"google.golang.org/protobuf/proto"
	"google.golang.org/protobuf/reflect/protodesc"
	"google.golang.org/protobuf/reflect/protoreflect"
	"google.golang.org/protobuf/types/descriptorpb"
	"google.golang.org/protobuf/types/dynamicpb"

	"verifharness/core"
	"verifharness/gen"
	"verifharness/model"
	"verifharness/types"
)

// C12: proto-compatible mode emits standard protobuf and default mode can read it.
// protobuf-go (dynamicpb with a descriptor generated from the Go type) is the
// independent, third-party oracle.

type pbBuilder struct {
	names map[reflect.Type]string
	cfg   model.Cfg
	file  *descriptorpb.FileDescriptorProto
	n     int
	ok    bool // false when the type has no protobuf schema (nested slices etc.)
}

func pbLabel(l descriptorpb.FieldDescriptorProto_Label) *descriptorpb.FieldDescriptorProto_Label {
	return &l
}
func pbType(t descriptorpb.FieldDescriptorProto_Type) *descriptorpb.FieldDescriptorProto_Type {
	return &t
}

var pbTimestamp = &descriptorpb.DescriptorProto{
	Name: proto.String("Timestamp"),
	Field: []*descriptorpb.FieldDescriptorProto{
		{Name: proto.String("seconds"), Number: proto.Int32(1), Label: pbLabel(descriptorpb.FieldDescriptorProto_LABEL_OPTIONAL), Type: pbType(descriptorpb.FieldDescriptorProto_TYPE_INT64)},
		{Name: proto.String("nanos"), Number: proto.Int32(2), Label: pbLabel(descriptorpb.FieldDescriptorProto_LABEL_OPTIONAL), Type: pbType(descriptorpb.FieldDescriptorProto_TYPE_INT32)},
	},
}

// scalarType maps a Go scalar kind (with option) to a protobuf scalar type
func (b *pbBuilder) scalarType(t reflect.Type, opt string) (descriptorpb.FieldDescriptorProto_Type, bool) {
	if b.cfg.Tagged[model.TypeTag{Type: t, Tag: opt}] == model.SpBQTime && opt != "" {
		return descriptorpb.FieldDescriptorProto_TYPE_UINT64, true
	}
	if t == model.BytesT {
		return descriptorpb.FieldDescriptorProto_TYPE_BYTES, true
	}
	switch k := t.Kind(); {
	case k == reflect.Bool:
		return descriptorpb.FieldDescriptorProto_TYPE_BOOL, true
	case k >= reflect.Int && k <= reflect.Int64:
		if opt == "flat" {
			return descriptorpb.FieldDescriptorProto_TYPE_UINT64, true
		}
		return descriptorpb.FieldDescriptorProto_TYPE_SINT64, true
	case k >= reflect.Uint && k <= reflect.Uint64:
		return descriptorpb.FieldDescriptorProto_TYPE_UINT64, true
	case k == reflect.Float32:
		return descriptorpb.FieldDescriptorProto_TYPE_FLOAT, true
	case k == reflect.Float64:
		return descriptorpb.FieldDescriptorProto_TYPE_DOUBLE, true
	case k == reflect.String:
		// protobuf's string type rejects invalid UTF-8; plenc strings are arbitrary bytes
		return descriptorpb.FieldDescriptorProto_TYPE_BYTES, true
	}
	return 0, false
}

// message builds the message type for struct type t and returns its full name
func (b *pbBuilder) message(t reflect.Type) string {
	if n, ok := b.names[t]; ok {
		return n // recursive types: a message may refer to itself
	}
	b.n++
	name := fmt.Sprintf("M%d", b.n)
	b.names[t] = ".v." + name
	msg := &descriptorpb.DescriptorProto{Name: proto.String(name)}
	b.file.MessageType = append(b.file.MessageType, msg)
	for _, f := range model.Fields(t) {
		if f.Index < 1 || f.Index >= 1<<29 || (f.Index >= 19000 && f.Index <= 19999) {
			b.ok = false // not a legal protobuf field number
			continue
		}
		fd := b.field(f.Type, f.Opt, fmt.Sprintf("f%d", f.Index), int32(f.Index))
		if fd != nil {
			msg.Field = append(msg.Field, fd)
		}
	}
	return ".v." + name
}

func (b *pbBuilder) entry(mt reflect.Type) string {
	b.n++
	name := fmt.Sprintf("E%d", b.n)
	msg := &descriptorpb.DescriptorProto{Name: proto.String(name)}
	b.file.MessageType = append(b.file.MessageType, msg)
	if k := b.field(mt.Key(), "", "key", 1); k != nil {
		msg.Field = append(msg.Field, k)
	}
	if v := b.field(mt.Elem(), "", "value", 2); v != nil {
		msg.Field = append(msg.Field, v)
	}
	return ".v." + name
}

func (b *pbBuilder) field(t reflect.Type, opt, name string, num int32) *descriptorpb.FieldDescriptorProto {
	fd := &descriptorpb.FieldDescriptorProto{Name: proto.String(name), Number: proto.Int32(num), Label: pbLabel(descriptorpb.FieldDescriptorProto_LABEL_OPTIONAL)}
	bt := t
	for bt.Kind() == reflect.Ptr {
		bt = bt.Elem()
	}
	if bt.PkgPath() == model.NullIntT.PkgPath() || bt == model.JSONMapT || bt == model.JSONArrayT {
		b.ok = false
		return nil
	}
	if st, ok := b.scalarType(bt, opt); ok {
		fd.Type = pbType(st)
		return fd
	}
	switch {
	case bt == model.TimeT:
		fd.Type = pbType(descriptorpb.FieldDescriptorProto_TYPE_MESSAGE)
		fd.TypeName = proto.String(".v.Timestamp")
	case bt.Kind() == reflect.Struct:
		fd.Type = pbType(descriptorpb.FieldDescriptorProto_TYPE_MESSAGE)
		fd.TypeName = proto.String(b.message(bt))
	case bt.Kind() == reflect.Slice:
		if t.Kind() == reflect.Ptr {
			b.ok = false // a pointer to a slice has no protobuf counterpart
			return nil
		}
		et := bt.Elem()
		ebt := et
		for ebt.Kind() == reflect.Ptr {
			ebt = ebt.Elem()
		}
		fd.Label = pbLabel(descriptorpb.FieldDescriptorProto_LABEL_REPEATED)
		if st, ok := b.scalarType(ebt, ""); ok {
			fd.Type = pbType(st)
			if st != descriptorpb.FieldDescriptorProto_TYPE_BYTES {
				fd.Options = &descriptorpb.FieldOptions{Packed: proto.Bool(true)}
			}
			return fd
		}
		switch {
		case ebt == model.TimeT:
			fd.Type = pbType(descriptorpb.FieldDescriptorProto_TYPE_MESSAGE)
			fd.TypeName = proto.String(".v.Timestamp")
		case ebt.Kind() == reflect.Struct && ebt.PkgPath() != model.NullIntT.PkgPath():
			fd.Type = pbType(descriptorpb.FieldDescriptorProto_TYPE_MESSAGE)
			fd.TypeName = proto.String(b.message(ebt))
		default:
			b.ok = false // slices of slices have no protobuf schema
			return nil
		}
	case bt.Kind() == reflect.Map:
		if opt != "proto" {
			b.ok = false
			return nil
		}
		fd.Label = pbLabel(descriptorpb.FieldDescriptorProto_LABEL_REPEATED)
		fd.Type = pbType(descriptorpb.FieldDescriptorProto_TYPE_MESSAGE)
		fd.TypeName = proto.String(b.entry(bt))
	default:
		b.ok = false
		return nil
	}
	return fd
}

// pbDescriptor builds a protobuf message descriptor for struct type t (nil when not expressible)
func pbDescriptor(cfg model.Cfg, t reflect.Type) (protoreflect.MessageDescriptor, error) {
	b := &pbBuilder{names: map[reflect.Type]string{}, cfg: cfg, ok: true, file: &descriptorpb.FileDescriptorProto{Name: proto.String("v.proto"), Package: proto.String("v"), Syntax: proto.String("proto2")}}
	b.file.MessageType = append(b.file.MessageType, pbTimestamp)
	root := b.message(t)
	if !b.ok {
		return nil, nil
	}
	fdesc, err := protodesc.NewFile(b.file, nil)
	if err != nil {
		return nil, err
	}
	return fdesc.Messages().ByName(protoreflect.Name(root[3:])), nil
}

// pbCompare compares a Go value with the message protobuf-go parsed from plenc's bytes
func pbCompare(cfg model.Cfg, v reflect.Value, opt string, msg protoreflect.Message, path string) string {
	if len(msg.GetUnknown()) != 0 {
		return fmt.Sprintf("%s: protobuf-go found unknown fields %x", path, msg.GetUnknown())
	}
	t := v.Type()
	fields := msg.Descriptor().Fields()
	for _, f := range model.Fields(t) {
		fd := fields.ByNumber(protoreflect.FieldNumber(f.Index))
		if fd == nil {
			return fmt.Sprintf("%s: no protobuf field %d", path, f.Index)
		}
		fv := v.Field(f.GoIndex)
		fp := fmt.Sprintf("%s.%s(#%d)", path, f.Name, f.Index)
		present := !cfg.Omit(fv, f.Opt)
		for fv.Kind() == reflect.Ptr && !fv.IsNil() {
			fv = fv.Elem()
		}
		if fd.IsList() {
			list := msg.Get(fd).List()
			if fv.Kind() == reflect.Map {
				if list.Len() != fv.Len() {
					return fmt.Sprintf("%s: map of %d entries parsed as %d repeated entries", fp, fv.Len(), list.Len())
				}
				used := make([]bool, list.Len())
				it := fv.MapRange()
			next:
				for it.Next() {
					for i := 0; i < list.Len(); i++ {
						if used[i] {
							continue
						}
						em := list.Get(i).Message()
						if pbEntryMatch(cfg, it.Key(), it.Value(), em) {
							used[i] = true
							continue next
						}
					}
					return fmt.Sprintf("%s: no parsed entry matches key %s value %s", fp, model.Show(it.Key()), model.Show(it.Value()))
				}
				continue
			}
			// slice: nil pointers are dropped (packed) or become empty elements
			var exp []reflect.Value
			var wasNil []bool
			et := fv.Type().Elem()
			for i := 0; i < fv.Len(); i++ {
				e := fv.Index(i)
				isNil := false
				if et.Kind() == reflect.Ptr && e.IsNil() {
					if cfg.WireType(et, "") != model.WTLength {
						continue
					}
					e = reflect.New(et.Elem()).Elem()
					isNil = true
				}
				wasNil = append(wasNil, isNil)
				for e.Kind() == reflect.Ptr {
					if e.IsNil() {
						e = reflect.New(e.Type().Elem()).Elem()
					} else {
						e = e.Elem()
					}
				}
				exp = append(exp, e)
			}
			if list.Len() != len(exp) {
				return fmt.Sprintf("%s: slice of %d elements parsed as %d", fp, len(exp), list.Len())
			}
			for i, e := range exp {
				if wasNil[i] {
					// a nil pointer is kept as an empty element
					empty := true
					if fd.Message() != nil {
						list.Get(i).Message().Range(func(protoreflect.FieldDescriptor, protoreflect.Value) bool { empty = false; return false })
					} else {
						empty = len(list.Get(i).Bytes()) == 0
					}
					if !empty {
						return fmt.Sprintf("%s[%d]: nil pointer element is not an empty element", fp, i)
					}
					continue
				}
				if d := pbValue(cfg, e, "", fd, list.Get(i), fmt.Sprintf("%s[%d]", fp, i)); d != "" {
					return d
				}
			}
			continue
		}
		if msg.Has(fd) != present {
			return fmt.Sprintf("%s: present on the wire = %v, the value says %v", fp, msg.Has(fd), present)
		}
		if !present {
			continue
		}
		if d := pbValue(cfg, fv, f.Opt, fd, msg.Get(fd), fp); d != "" {
			return d
		}
	}
	return ""
}

func pbEntryMatch(cfg model.Cfg, k, v reflect.Value, em protoreflect.Message) bool {
	kf := em.Descriptor().Fields().ByNumber(1)
	vf := em.Descriptor().Fields().ByNumber(2)
	if len(em.GetUnknown()) != 0 {
		return false
	}
	check := func(x reflect.Value, fd protoreflect.FieldDescriptor) bool {
		present := !cfg.Omit(x, "")
		for x.Kind() == reflect.Ptr && !x.IsNil() {
			x = x.Elem()
		}
		if fd.IsList() {
			// a map value that is a packed slice
			list := em.Get(fd).List()
			var exp []reflect.Value
			for i := 0; i < x.Len(); i++ {
				e := x.Index(i)
				if e.Kind() == reflect.Ptr {
					if e.IsNil() {
						continue
					}
					e = e.Elem()
				}
				exp = append(exp, e)
			}
			if list.Len() != len(exp) {
				return false
			}
			for i, e := range exp {
				if pbValue(cfg, e, "", fd, list.Get(i), "") != "" {
					return false
				}
			}
			return true
		}
		if em.Has(fd) != present {
			return false
		}
		return !present || pbValue(cfg, x, "", fd, em.Get(fd), "") == ""
	}
	return check(k, kf) && check(v, vf)
}

func pbValue(cfg model.Cfg, v reflect.Value, opt string, fd protoreflect.FieldDescriptor, pv protoreflect.Value, path string) string {
	t := v.Type()
	if cfg.Tagged[model.TypeTag{Type: t, Tag: opt}] == model.SpBQTime && opt != "" {
		if want := uint64(v.Interface().(time.Time).UnixMicro()); pv.Uint() != want {
			return fmt.Sprintf("%s: microsecond timestamp %d parsed as %d", path, want, pv.Uint())
		}
		return ""
	}
	if t == model.TimeT {
		tm := v.Interface().(time.Time)
		m := pv.Message()
		if len(m.GetUnknown()) != 0 {
			return fmt.Sprintf("%s: Timestamp with unknown fields %x", path, m.GetUnknown())
		}
		sec := m.Get(m.Descriptor().Fields().ByNumber(1)).Int()
		ns := m.Get(m.Descriptor().Fields().ByNumber(2)).Int()
		if sec != tm.Unix() || ns != int64(tm.Nanosecond()) {
			return fmt.Sprintf("%s: time (%d s, %d ns) parsed as Timestamp{seconds=%d nanos=%d}", path, tm.Unix(), tm.Nanosecond(), sec, ns)
		}
		return ""
	}
	if t == model.BytesT {
		if !bytes.Equal(pv.Bytes(), v.Bytes()) {
			return fmt.Sprintf("%s: bytes %x parsed as %x", path, v.Bytes(), pv.Bytes())
		}
		return ""
	}
	switch k := t.Kind(); {
	case k == reflect.Bool:
		if pv.Bool() != v.Bool() {
			return fmt.Sprintf("%s: bool %v parsed as %v", path, v.Bool(), pv.Bool())
		}
	case k >= reflect.Int && k <= reflect.Int64:
		if opt == "flat" {
			want := uint64(v.Int())
			if bits := t.Bits(); bits < 64 {
				want &= 1<<uint(bits) - 1
			}
			if pv.Uint() != want {
				return fmt.Sprintf("%s: flat int %d parsed as %d, want %d", path, v.Int(), pv.Uint(), want)
			}
			return ""
		}
		if pv.Int() != v.Int() {
			return fmt.Sprintf("%s: int %d parsed as sint64 %d", path, v.Int(), pv.Int())
		}
	case k >= reflect.Uint && k <= reflect.Uint64:
		if pv.Uint() != v.Uint() {
			return fmt.Sprintf("%s: uint %d parsed as %d", path, v.Uint(), pv.Uint())
		}
	case k == reflect.Float32:
		if math.Float32bits(float32(pv.Float())) != math.Float32bits(float32(v.Float())) {
			return fmt.Sprintf("%s: float32 %v parsed as %v", path, v.Float(), pv.Float())
		}
	case k == reflect.Float64:
		if math.Float64bits(pv.Float()) != math.Float64bits(v.Float()) {
			return fmt.Sprintf("%s: float64 %v parsed as %v", path, v.Float(), pv.Float())
		}
	case k == reflect.String:
		if string(pv.Bytes()) != v.String() {
			return fmt.Sprintf("%s: string %q parsed as %q", path, v.String(), pv.Bytes())
		}
	case k == reflect.Struct:
		return pbCompare(cfg, v, "", pv.Message(), path)
	default:
		return fmt.Sprintf("%s: unexpected kind %s", path, k)
	}
	return ""
}

// pbBuild builds a dynamic message from a (normalised) Go value
func pbBuild(cfg model.Cfg, v reflect.Value, md protoreflect.MessageDescriptor) protoreflect.Message {
	msg := dynamicpb.NewMessage(md)
	for _, f := range model.Fields(v.Type()) {
		fd := md.Fields().ByNumber(protoreflect.FieldNumber(f.Index))
		fv := v.Field(f.GoIndex)
		if cfg.Omit(fv, f.Opt) {
			continue
		}
		for fv.Kind() == reflect.Ptr {
			fv = fv.Elem()
		}
		if fd.IsList() {
			list := msg.Mutable(fd).List()
			if fv.Kind() == reflect.Map {
				it := fv.MapRange()
				for it.Next() {
					em := dynamicpb.NewMessage(fd.Message())
					pbSetEntry(cfg, em, 1, it.Key())
					pbSetEntry(cfg, em, 2, it.Value())
					list.Append(protoreflect.ValueOfMessage(em))
				}
				continue
			}
			for i := 0; i < fv.Len(); i++ {
				e := fv.Index(i)
				for e.Kind() == reflect.Ptr {
					e = e.Elem()
				}
				list.Append(pbScalar(cfg, e, "", fd))
			}
			continue
		}
		msg.Set(fd, pbScalar(cfg, fv, f.Opt, fd))
	}
	return msg
}

func pbSetEntry(cfg model.Cfg, em *dynamicpb.Message, num int, x reflect.Value) {
	fd := em.Descriptor().Fields().ByNumber(protoreflect.FieldNumber(num))
	if cfg.Omit(x, "") {
		return
	}
	for x.Kind() == reflect.Ptr {
		x = x.Elem()
	}
	if fd.IsList() {
		list := em.Mutable(fd).List()
		for i := 0; i < x.Len(); i++ {
			e := x.Index(i)
			for e.Kind() == reflect.Ptr {
				e = e.Elem()
			}
			list.Append(pbScalar(cfg, e, "", fd))
		}
		return
	}
	em.Set(fd, pbScalar(cfg, x, "", fd))
}

func pbScalar(cfg model.Cfg, v reflect.Value, opt string, fd protoreflect.FieldDescriptor) protoreflect.Value {
	t := v.Type()
	if cfg.Tagged[model.TypeTag{Type: t, Tag: opt}] == model.SpBQTime && opt != "" {
		return protoreflect.ValueOfUint64(uint64(v.Interface().(time.Time).UnixMicro()))
	}
	if t == model.TimeT {
		tm := v.Interface().(time.Time)
		m := dynamicpb.NewMessage(fd.Message())
		m.Set(m.Descriptor().Fields().ByNumber(1), protoreflect.ValueOfInt64(tm.Unix()))
		m.Set(m.Descriptor().Fields().ByNumber(2), protoreflect.ValueOfInt32(int32(tm.Nanosecond())))
		return protoreflect.ValueOfMessage(m)
	}
	if t == model.BytesT {
		return protoreflect.ValueOfBytes(append([]byte{}, v.Bytes()...))
	}
	switch k := t.Kind(); {
	case k == reflect.Bool:
		return protoreflect.ValueOfBool(v.Bool())
	case k >= reflect.Int && k <= reflect.Int64:
		if opt == "flat" {
			u := uint64(v.Int())
			if bits := t.Bits(); bits < 64 {
				u &= 1<<uint(bits) - 1
			}
			return protoreflect.ValueOfUint64(u)
		}
		return protoreflect.ValueOfInt64(v.Int())
	case k >= reflect.Uint && k <= reflect.Uint64:
		return protoreflect.ValueOfUint64(v.Uint())
	case k == reflect.Float32:
		return protoreflect.ValueOfFloat32(float32(v.Float()))
	case k == reflect.Float64:
		return protoreflect.ValueOfFloat64(v.Float())
	case k == reflect.String:
		return protoreflect.ValueOfBytes([]byte(v.String()))
	case k == reflect.Struct:
		return protoreflect.ValueOfMessage(pbBuild(cfg, v, fd.Message()))
	}
	panic("pbScalar " + t.String())
}

// usesSwitched reports whether t contains a construct one of the switches governs
func usesSwitched(t reflect.Type, seen map[reflect.Type]bool) (ldSlice, tim, protoTag bool) {
	if seen[t] {
		return
	}
	seen[t] = true
	if t == model.TimeT {
		return false, true, false
	}
	or := func(a, b, c bool) { ldSlice, tim, protoTag = ldSlice || a, tim || b, protoTag || c }
	switch t.Kind() {
	case reflect.Ptr:
		or(usesSwitched(t.Elem(), seen))
	case reflect.Slice:
		if t != model.BytesT && (model.Cfg{}).WireType(t.Elem(), "") == model.WTLength {
			ldSlice = true
		}
		or(usesSwitched(t.Elem(), seen))
	case reflect.Map:
		or(usesSwitched(t.Key(), seen))
		or(usesSwitched(t.Elem(), seen))
	case reflect.Struct:
		if t.PkgPath() == model.NullIntT.PkgPath() {
			return
		}
		for _, f := range model.Fields(t) {
			if f.Opt == "proto" {
				protoTag = true
			}
			or(usesSwitched(f.Type, seen))
		}
	}
	return
}

// c12PtrPtrSlices: repeated fields whose elements are pointers to pointers. An element keeps its
// place in the repeated field whatever its pointers hold (nil outer, nil inner: an empty frame, read
// back as the zero value); the elements that are fully there come back at their positions, and a
// default-mode reader sees the same (round 12: k12).
func c12PtrPtrSlices(c *core.Ctx, idx int, protoCfg, defCfg model.Cfg) {
	rec := c.Rec
	r := c.Rand(idx)
	T := reflect.TypeOf
	pp, dp := instNew(protoCfg), instNew(defCfg)
	ptCfg := defCfg
	ptCfg.ProtoTime = true // a reader without ProtoCompatibleArrays that agrees with the writer about times
	pt := instNew(ptCfg)
	for _, el := range []reflect.Type{T(""), T(types.Leaf{}), model.TimeT, T([]byte(nil))} {
		ppt := reflect.PointerTo(reflect.PointerTo(el))
		for _, tagged := range []bool{false, true} {
			tag := `plenc:"2"`
			p, name := pp, "protoArrays+protoTime"
			if tagged {
				tag, p, name = `plenc:"2,proto"`, dp, "default, proto tag"
			}
			ht := reflect.StructOf([]reflect.StructField{{Name: "A", Type: T(int8(0)), Tag: `plenc:"1"`}, {Name: "S", Type: reflect.SliceOf(ppt), Tag: reflect.StructTag(tag)}, {Name: "Z", Type: T(""), Tag: `plenc:"3"`}})
			n := 1 + r.IntN(6)
			sl := reflect.MakeSlice(reflect.SliceOf(ppt), n, n)
			full := make([]bool, n)
			for i := 0; i < n; i++ {
				switch r.IntN(3) {
				case 0: // nil outer
				case 1: // outer set, inner nil
					sl.Index(i).Set(reflect.New(ppt.Elem()))
				default:
					inner := reflect.New(el)
					inner.Elem().Set((&gen.VG{R: r, C: protoCfg, Budget: 10}).Value(el, ""))
					outer := reflect.New(ppt.Elem())
					outer.Elem().Set(inner)
					sl.Index(i).Set(outer)
					full[i] = true
				}
			}
			v := reflect.New(ht)
			v.Elem().Field(0).SetInt(5)
			v.Elem().Field(1).Set(sl)
			v.Elem().Field(2).SetString("z")
			data, err, pn := marshal(p, nil, v.Interface())
			rec.Eval(1)
			desc := fmt.Sprintf("[%s]\n  type %s\n  value %s\n  bytes %s", name, typeString(ht), model.Show(v.Elem()), hexHead(data))
			if err != nil || pn != "" {
				rec.Violation("round-trip", fmt.Sprintf("Marshal of a repeated field of pointers to pointers: %v %s %s", err, trunc1(pn), desc), nil)
				return
			}
			readers := []*plenc.Plenc{pp, pt}
			if tagged {
				readers = []*plenc.Plenc{dp}
			}
			for _, rd := range readers {
				out := reflect.New(ht)
				if err, pn := unmarshal(rd, data, out.Interface()); err != nil || pn != "" {
					rec.Violation("round-trip", fmt.Sprintf("Unmarshal of a repeated field of pointers to pointers: %v %s %s", err, trunc1(pn), desc), nil)
					return
				}
				got := out.Elem().Field(1)
				if got.Len() != n || out.Elem().Field(2).String() != "z" || out.Elem().Field(0).Int() != 5 {
					rec.Violation("round-trip", fmt.Sprintf("a repeated field of %d pointers to pointers reads back with %d elements (neighbours %d, %q) %s", n, got.Len(), out.Elem().Field(0).Int(), out.Elem().Field(2).String(), desc), nil)
					return
				}
				for i := 0; i < n; i++ {
					if !full[i] {
						continue
					}
					g := got.Index(i)
					if g.IsNil() || g.Elem().IsNil() {
						rec.Violation("round-trip", fmt.Sprintf("element %d of a repeated field of pointers to pointers was fully there and reads back nil %s", i, desc), nil)
						return
					}
					if d := model.Diff(protoCfg.Normalise(sl.Index(i).Elem().Elem(), "", false), g.Elem().Elem(), fmt.Sprintf("$.S[%d]**", i)); d != "" {
						rec.Violation("round-trip", fmt.Sprintf("a repeated field of pointers to pointers: %s %s", d, desc), nil)
						return
					}
				}
			}
			rec.Count("ptrptr_repeated_fields", 1)
		}
	}
	rec.NonTrivial(core.Hash64("ptrptr", fmt.Sprint(idx)))
}

func c12Case(c *core.Ctx, idx int) {
	rec := c.Rec
	cfgs := instCfgs()
	protoCfg := cfgs[3]
	protoCfg.Null, protoCfg.JSONAny = false, false
	if idx%31 == 17 {
		dc := cfgs[0]
		dc.Null, dc.JSONAny = false, false
		c12PtrPtrSlices(c, idx, protoCfg, dc)
		return
	}
	if idx%41 == 13 {
		// containers whose entry counts sit on the edges of the 1- and 2-byte varints, in proto mode
		countedContainers(c, idx, protoCfg, instNew(protoCfg))
		return
	}
	r := c.RandFor(idx, "type")
	tg := &gen.TG{R: r, C: protoCfg, Lib: true, Skipped: true, JSONTags: true, AllMapsProto: true, NoIndexZero: idx%4 != 0}
	typ := tg.Struct(3)
	if protoCfg.Validate(typ, "") != "" {
		rec.Count("skipped_invalid", 1)
		return
	}
	p := instNew(protoCfg)
	tc := &tcase{cfg: protoCfg, name: "protoArrays+protoTime", p: p, typ: typ}
	// long-lived instances (see sharedInst): default and proto mode, with the codecs of earlier cases
	sharedTick(c, idx)
	longProto := sharedInst(&tcase{cfg: protoCfg, name: "c12-proto"})
	defCfg := cfgs[0]
	defCfg.Null, defCfg.JSONAny = false, false
	longDef := sharedInst(&tcase{cfg: defCfg, name: "c12-default"})
	if _, err := p.CodecForType(typ); err != nil {
		rec.Violation("valid-type-rejected", fmt.Sprintf("%v\n  type %s", err, typeString(typ)), nil)
		return
	}
	md, err := pbDescriptor(protoCfg, typ)
	if err != nil {
		rec.Violation("harness", "protobuf descriptor: "+err.Error()+"\n  type "+typeString(typ), nil)
		return
	}
	if md != nil {
		rec.Count("types_with_protobuf_schema", 1)
	} else {
		rec.Count("types_without_protobuf_schema", 1)
	}
	// the four instances for the metamorphic "each switch changes only its own encoding"
	var four [4]*tcase
	for i := range four {
		cf := cfgs[i]
		cf.Null, cf.JSONAny = false, false
		four[i] = &tcase{cfg: cf, name: cfgName(cf), p: instNew(cf), typ: typ}
	}
	ld, tim, ptag := usesSwitched(typ, map[reflect.Type]bool{})
	rv := c.RandFor(idx, "values")
	nv := 12
	if c.Thorough() {
		nv = 30
	}
	recycled, recycledDef := reflect.New(typ), reflect.New(typ)
	var prevData []byte
	for j := 0; j < nv; j++ {
		v := (&gen.VG{R: rv, C: protoCfg, Budget: 150, NoSNaN: true}).Value(typ, "")
		if j > 0 && len(prevData) > 1 {
			// damaged proto-mode messages in between, on the instances the next ones are read by:
			// whatever they return, they leave nothing behind
			for k := 0; k < 2; k++ {
				bad := damage(rv, prevData)
				for _, q := range []*plenc.Plenc{p, longProto, four[0].p} {
					junk := reflect.New(typ)
					unmarshal(q, bad, junk.Interface())
				}
			}
			rec.Count("damaged_messages_between_values", 2)
		}
		data, err, pn := marshal(p, nil, ptrTo(v))
		if err != nil || pn != "" {
			rec.Violation("marshal-error", fmt.Sprintf("%v %s", err, pn), caseExtra(tc, v, nil))
			return
		}
		prevData = data
		rec.Eval(1)
		noteShape(c, tc, v)
		desc := func() string {
			return fmt.Sprintf("\n  type %s\n  value %s\n  bytes %s", typeString(typ), model.Show(v), hexHead(data))
		}
		// 0. instances that have seen other types before produce the same bytes as fresh ones
		if j%3 == 0 {
			for _, li := range []struct {
				p    *plenc.Plenc
				cfg  model.Cfg
				name string
			}{{longProto, protoCfg, "proto-mode"}, {longDef, defCfg, "default-mode"}} {
				got, err, pn := marshal(li.p, nil, ptrTo(v))
				want := li.cfg.Encode(v)
				rec.Eval(1)
				if err != nil || pn != "" || !(bytes.Equal(got, want) || (model.HasMultiMap(v) && len(got) == len(want))) {
					rec.Violation("history-dependent", fmt.Sprintf("a long-lived %s instance that has built codecs for other types (tagged and untagged uses of the same slice and map types) encodes this value differently from the documented encoding: %v %s\n  type %s\n  value %s\n  got  %s\n  want %s", li.name, err, trunc1(pn), typeString(typ), model.Show(v), hexHead(got), hexHead(want)), historyExtra(c, tc, v, got))
					return
				}
			}
		}
		// 1. well-formed: walks with the strict parser, only wire types 0,1,2,5, every length exact
		if len(data) > 0 {
			if _, err := protoCfg.Canon(typ, "", data); err != nil {
				rec.Violation("not-wellformed", fmt.Sprintf("proto-mode output does not walk as protobuf: %v %s", err, desc()), caseExtra(tc, v, data))
				return
			}
			if w := firstBadWireType(data); w >= 0 {
				rec.Violation("wire-type", fmt.Sprintf("proto-mode output uses wire type %d at top level %s", w, desc()), caseExtra(tc, v, data))
				return
			}
		}
		// 2. exactly the documented encoding for this configuration
		if want := protoCfg.Encode(v); !bytes.Equal(want, data) {
			cg, e1 := protoCfg.Canon(typ, "", data)
			cw, e2 := protoCfg.Canon(typ, "", want)
			if e1 != nil || e2 != nil || !bytes.Equal(cg, cw) {
				rec.Violation("proto-format", fmt.Sprintf("proto-mode output differs from the documented encoding %s\n  want %s", desc(), hexHead(want)), caseExtra(tc, v, data))
				return
			}
		}
		// 2b. the same bytes whatever room the caller's buffer has: every capacity from none to enough,
		// so that a reallocation falls between any two writes of the encoder
		if j%4 == 1 && len(data) > 0 && len(data) <= 400 && !model.HasMultiMap(v) {
			for cp := 0; cp <= len(data)+1; cp++ {
				out, err, pn := marshal(p, make([]byte, 0, cp), ptrTo(v))
				if err != nil || pn != "" || !bytes.Equal(out, data) {
					rec.Violation("proto-format", fmt.Sprintf("Marshal into an empty buffer of capacity %d gives other bytes than Marshal(nil, v): %v %s\n  got  %s %s", cp, err, trunc1(pn), hexHead(out), desc()), caseExtra(tc, v, data))
					return
				}
			}
			rec.Eval(len(data) + 2)
			rec.Count("buffer_capacities_tried", len(data)+2)
		}
		// 3. round trip in that mode
		out := reflect.New(typ)
		if err, pn := unmarshal(p, data, out.Interface()); err != nil || pn != "" {
			rec.Violation("proto-round-trip", fmt.Sprintf("%v %s %s", err, pn, desc()), caseExtra(tc, v, data))
			return
		}
		norm := protoCfg.Normalise(v, "", true)
		if d := model.Diff(norm, out.Elem(), "$"); d != "" {
			rec.Violation("proto-round-trip", fmt.Sprintf("does not round-trip in proto mode: %s %s", d, desc()), caseExtra(tc, v, data))
			return
		}
		// 3b. the recycling idiom of this mode (decoding the repeated form appends, so a re-used
		// message has its slices truncated to [:0] first): same value as into a fresh target
		recycle(recycled.Elem())
		if err, pn := unmarshal(p, data, recycled.Interface()); err != nil || pn != "" {
			rec.Violation("proto-round-trip", fmt.Sprintf("into a recycled target: %v %s %s", err, pn, desc()), caseExtra(tc, v, data))
			return
		}
		rec.Eval(1)
		if d := model.Diff(norm, recycled.Elem(), "$"); d != "" {
			rec.Violation("proto-round-trip", fmt.Sprintf("decoding into a recycled target (slices truncated to [:0], other fields zeroed, earlier values of this case decoded into it before) gives another value than into a fresh one: %s %s", d, desc()), caseExtra(tc, v, data))
			return
		}
		// 4. third-party parse
		if md != nil {
			msg := dynamicpb.NewMessage(md)
			if err := (proto.UnmarshalOptions{}).Unmarshal(data, msg); err != nil {
				rec.Violation("protobuf-go-rejects", fmt.Sprintf("protobuf-go cannot parse the proto-mode output: %v %s", err, desc()), caseExtra(tc, v, data))
				return
			}
			rec.Eval(1)
			if d := pbCompare(protoCfg, v, "", msg, "$"); d != "" {
				rec.Violation("protobuf-go-differs", fmt.Sprintf("protobuf-go reads other field values from the proto-mode output: %s %s", d, desc()), caseExtra(tc, v, data))
				return
			}
			rec.Count("protobuf_go_parses", 1)
			// converse: bytes serialised BY protobuf-go (fields in number order) are read by plenc
			pbm := pbBuild(protoCfg, norm, md)
			pbBytes, err := proto.MarshalOptions{Deterministic: true}.Marshal(pbm.Interface())
			if err != nil {
				rec.Violation("harness", "protobuf-go marshal: "+err.Error(), nil)
				return
			}
			back := reflect.New(typ)
			if err, pn := unmarshal(p, pbBytes, back.Interface()); err != nil || pn != "" {
				rec.Violation("reads-protobuf", fmt.Sprintf("plenc (proto mode) cannot read protobuf-go's serialisation of the same message: %v %s\n  protobuf bytes %s %s", err, pn, hexHead(pbBytes), desc()), caseExtra(tc, v, pbBytes))
				return
			}
			rec.Eval(1)
			if d := model.Diff(norm, back.Elem(), "$"); d != "" {
				rec.Violation("reads-protobuf", fmt.Sprintf("plenc (proto mode) reads protobuf-go's serialisation differently: %s\n  protobuf bytes %s %s", d, hexHead(pbBytes), desc()), caseExtra(tc, v, pbBytes))
				return
			}
			rec.Count("protobuf_go_serialisations_read", 1)
		}
		// 5. a default-mode instance reads the repeated-field form of slices (arrays-only instance writes)
		if !tim {
			ad, err, pn := marshal(four[1].p, nil, ptrTo(v))
			if err == nil && pn == "" {
				def := reflect.New(typ)
				rec.Eval(1)
				if err, pn := unmarshal(four[0].p, ad, def.Interface()); err != nil || pn != "" {
					rec.Violation("default-reads-repeated", fmt.Sprintf("a default-mode instance cannot read the repeated-field form: %v %s\n  bytes %s %s", err, pn, hexHead(ad), desc()), caseExtra(tc, v, ad))
					return
				}
				if d := model.Diff(four[1].cfg.Normalise(v, "", true), def.Elem(), "$"); d != "" {
					rec.Violation("default-reads-repeated", fmt.Sprintf("a default-mode instance decodes the repeated-field form to another value: %s\n  bytes %s %s", d, hexHead(ad), desc()), caseExtra(tc, v, ad))
					return
				}
				recycle(recycledDef.Elem())
				if err, pn := unmarshal(four[0].p, ad, recycledDef.Interface()); err != nil || pn != "" {
					rec.Violation("default-reads-repeated", fmt.Sprintf("into a recycled target: %v %s\n  bytes %s %s", err, pn, hexHead(ad), desc()), caseExtra(tc, v, ad))
					return
				}
				if d := model.Diff(four[1].cfg.Normalise(v, "", true), recycledDef.Elem(), "$"); d != "" {
					rec.Violation("default-reads-repeated", fmt.Sprintf("a default-mode instance decodes the repeated-field form into a recycled target (slices truncated to [:0]) to another value than into a fresh one: %s\n  bytes %s %s", d, hexHead(ad), desc()), caseExtra(tc, v, ad))
					return
				}
				rec.Count("default_reads_repeated", 1)
			}
		}
		// 6. each switch changes only its own encoding
		var enc [4][]byte
		for i := range four {
			e, err, pn := marshal(four[i].p, nil, ptrTo(v))
			if err != nil || pn != "" {
				rec.Violation("marshal-error", fmt.Sprintf("[%s] %v %s", four[i].name, err, pn), nil)
				return
			}
			enc[i] = e
		}
		same := func(a, b int) bool {
			if bytes.Equal(enc[a], enc[b]) {
				return true
			}
			if !model.HasMultiMap(v) {
				return false
			}
			// compare through the model: both must equal their own documented encoding (checked by C02); here only lengths
			return len(enc[a]) == len(enc[b])
		}
		if !ld && !same(0, 1) {
			rec.Violation("switch-scope", fmt.Sprintf("ProtoCompatibleArrays changes the encoding of a type without slices of length-delimited elements: %s vs %s %s", hexHead(enc[0]), hexHead(enc[1]), desc()), nil)
			return
		}
		if !tim && !same(0, 2) {
			rec.Violation("switch-scope", fmt.Sprintf("ProtoCompatibleTime changes the encoding of a type without times: %s vs %s %s", hexHead(enc[0]), hexHead(enc[2]), desc()), nil)
			return
		}
		if !ld && !tim && !same(0, 3) {
			rec.Violation("switch-scope", fmt.Sprintf("the switches change the encoding of a type they do not govern %s", desc()), nil)
			return
		}
		_ = ptag
		if rec.WantSample() && md != nil && len(data) > 8 && len(data) < 70 {
			rec.Sample(map[string]any{"type": typeString(typ), "value": model.Show(v), "plenc_proto_bytes": fmt.Sprintf("%x", data), "protobuf_go": "parsed with 0 unknown fields, values equal; its own serialisation read back by plenc"})
		}
	}
}

// firstBadWireType scans top-level tags for wire types other than 0,1,2,5 (-1 = none)
func firstBadWireType(data []byte) int {
	for _, f := range model.SplitFields(data) {
		if w := f.WireType; w != 0 && w != 1 && w != 2 && w != 5 {
			return w
		}
	}
	return -1
}

// recycle prepares a struct for re-use the way callers of the repeated-field form do: slices are
// truncated to length 0 keeping their backing arrays, every other field is zeroed
func recycle(v reflect.Value) {
	if v.Kind() != reflect.Struct {
		v.Set(reflect.Zero(v.Type()))
		return
	}
	for i := 0; i < v.NumField(); i++ {
		fv := v.Field(i)
		if !fv.CanSet() {
			continue
		}
		if fv.Kind() == reflect.Slice && !fv.IsNil() {
			fv.Set(fv.Slice(0, 0))
		} else {
			fv.Set(reflect.Zero(fv.Type()))
		}
	}
}

func init() {
	core.Register(&core.Prop{
		ID:        "C12",
		Technique: "proto-mode output of the real Marshal parsed by protobuf-go (dynamicpb with a proto2 descriptor generated from the Go type) and by the model's strict walker; protobuf-go's own serialisation decoded by plenc; default-mode decode of the repeated-field form; four-configuration metamorphic comparison",
		Rule: "every 31st case: repeated fields (ProtoCompatibleArrays, proto tag) of pointers to pointers to strings, structs, times and byte slices with nil outer and nil inner pointers among the elements: every element keeps its place, the full ones their values, for the proto-mode and the default-mode reader. generated struct types with every map field tagged proto (indexes legal as protobuf field numbers in 3 of 4 cases) x boundary-biased values, ProtoCompatibleArrays+ProtoCompatibleTime instance. Per value: strict walk (exact lengths, wire types 0/1/2/5 only), byte comparison with the documented proto-mode encoding, round trip, and - for types expressible as a protobuf schema (sint64/uint64/float/double/bool/bytes, nested messages, packed and repeated fields, key=1/value=2 entry messages, Timestamp{int64 seconds=1; int32 nanos=2}) - parse by protobuf-go with zero unknown fields and equal values/presence, then protobuf-go's serialisation (number order) read back by plenc; " +
			"every decode repeated into a recycled target (slices cut to [:0], other fields zeroed); every third value through long-lived instances; arrays-only output read by a default instance; encodings under the four configurations compared for types that a switch does not govern. distinct = (type, value-shape) hashes",
		Assume: []string{"google.golang.org/protobuf v1.26.0 as the standard implementation", "null.* and JSON-any fields, slices of slices and pointers to slices have no protobuf schema: they are checked by the walker and the model only"},
		Plan: func(tier string) []core.Lane {
			if tier == "thorough" {
				return []core.Lane{{Lane: "plain", Cases: 600000, Shards: 16, TimeoutS: 3600}}
			}
			return []core.Lane{{Lane: "plain", Cases: 8000, Shards: 16, TimeoutS: 1200}}
		},
		Case: c12Case,
	})
}
