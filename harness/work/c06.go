package work

import (
	"bytes"
	"fmt"
	"reflect"
	"runtime"
	"sync"

	"verifharness/core"
	"verifharness/gen"
	"verifharness/model"
	"verifharness/types"
)

// C06: Marshal appends.

// pointerShaped wraps t so that the struct is stored directly in an interface word
func pointerShaped(t reflect.Type, how int) reflect.Type {
	var inner reflect.Type
	switch how % 5 {
	case 3, 4:
		// one pointer-shaped field and fields of size zero around it: only a struct whose ONE field is
		// pointer-shaped lives in the interface word itself
		z := reflect.StructField{Name: "Z", Type: reflect.TypeOf(struct{}{}), Tag: `plenc:"2"`}
		p := reflect.StructField{Name: "X", Type: reflect.PointerTo(t), Tag: `plenc:"1"`}
		if how%5 == 3 {
			return reflect.StructOf([]reflect.StructField{z, p})
		}
		return reflect.StructOf([]reflect.StructField{p, z})
	case 0:
		inner = reflect.PointerTo(t)
	case 1:
		inner = reflect.MapOf(reflect.TypeOf(""), t)
	default:
		inner = reflect.StructOf([]reflect.StructField{{Name: "P", Type: reflect.PointerTo(t), Tag: `plenc:"3"`}})
	}
	return reflect.StructOf([]reflect.StructField{{Name: "X", Type: inner, Tag: `plenc:"1"`}})
}

// c06Deep: the result depends on the value alone also for a value a thousand levels deep while 15
// other goroutines encode theirs
func c06Deep(c *core.Ctx, idx int) {
	rec := c.Rec
	cfg := instCfgs()[idx%4]
	name := cfgName(cfg)
	p := instNew(cfg)
	const g, depth = 16, 1000
	heads := make([]*types.Tree, g)
	refs := make([][]byte, g)
	for w := range heads {
		for i := 0; i < depth; i++ {
			heads[w] = &types.Tree{V: i*g + w, Next: heads[w]}
		}
		b, err := p.Marshal(nil, heads[w])
		if err != nil {
			rec.Violation("marshal-error", fmt.Sprintf("[%s] a list %d deep: %v", name, depth, err), nil)
			return
		}
		refs[w] = b
	}
	var wg sync.WaitGroup
	fails := make([]string, g)
	start := make(chan struct{})
	for w := 0; w < g; w++ {
		wg.Add(1)
		go func(w int) {
			defer wg.Done()
			<-start
			for k := 0; k < 3 && fails[w] == ""; k++ {
				prefix := []byte{0xAB, 0xCD}
				out, err, pn := marshal(p, append(make([]byte, 0, 64), prefix...), heads[w])
				if err != nil || pn != "" || len(out) < 2 || !bytes.Equal(out[:2], prefix) || !bytes.Equal(out[2:], refs[w]) {
					fails[w] = fmt.Sprintf("Marshal(buf, v) is not buf followed by what Marshal(nil, v) gave alone: %v %s (%d bytes, alone %d)", err, trunc1(pn), len(out), len(refs[w])+2)
				}
			}
		}(w)
	}
	close(start)
	wg.Wait()
	rec.Eval(3 * g)
	rec.Count("deep_concurrent_marshals", 3*g)
	rec.NonTrivial(core.Hash64("deep", name, fmt.Sprint(idx)))
	for w, f := range fails {
		if f != "" {
			rec.Violation("concurrent-callers", fmt.Sprintf("[%s] %d goroutines, each encoding its own list %d levels deep: goroutine %d: %s", name, g, depth, w, f), nil)
			return
		}
	}
}

type c06Long struct {
	Big  []int64 `plenc:"1"`
	Name string  `plenc:"2"`
	N    int     `plenc:"3"`
	P    *int    `plenc:"4"`
	Tail string  `plenc:"5"`
}

var c06Sink [4][16]*c06Long // one ring per allocating goroutine

// c06Collected: a value passed to Marshal by value (or through a pointer the caller drops) lives only
// through the call; its first field takes long enough to encode for whole garbage collections to
// run meanwhile, and other goroutines allocate values of the same shape all the time. The bytes are
// those of the value all the same.
func c06Collected(c *core.Ctx, idx int) {
	rec := c.Rec
	cfg := instCfgs()[idx%4]
	name := cfgName(cfg)
	p := instNew(cfg)
	big := make([]int64, 1<<20)
	for i := range big {
		big[i] = int64(i) * 977
	}
	seven := 7
	kept := c06Long{Big: big, Name: "the name of the value", N: 424242, P: &seven, Tail: "the tail of the value"}
	want, err, pn := marshal(p, nil, &kept)
	if err != nil || pn != "" {
		rec.Violation("marshal-error", fmt.Sprintf("[%s] %v %s", name, err, pn), nil)
		return
	}
	stop := make(chan struct{})
	var wg sync.WaitGroup
	wg.Add(1)
	go func() {
		defer wg.Done()
		for {
			select {
			case <-stop:
				return
			default:
				runtime.GC()
			}
		}
	}()
	for w := 0; w < 4; w++ {
		wg.Add(1)
		go func(w int) {
			defer wg.Done()
			other := -w
			for k := 0; ; k++ {
				select {
				case <-stop:
					return
				default:
				}
				c06Sink[w][k%16] = &c06Long{Big: []int64{int64(k)}, Name: "somebody else's name", N: -k, P: &other, Tail: "somebody else's tail"}
				if k%64 == 0 {
					runtime.Gosched()
				}
			}
		}(w)
	}
	rounds := 10
	if c.Lane == "race" {
		rounds = 2
	}
	prefix := []byte("prefix:")
	buf := make([]byte, 0, len(want)+len(prefix))
	fail := ""
	for k := 0; k < rounds && fail == ""; k++ {
		var out []byte
		var err error
		how := "by value"
		var pn string
		if k%2 == 0 {
			pn = core.Guard(func() { out, err = p.Marshal(append(buf[:0], prefix...), kept) })
		} else {
			how = "through a pointer the caller drops"
			pn = core.Guard(func() {
				cp := new(c06Long)
				*cp = kept
				out, err = p.Marshal(append(buf[:0], prefix...), cp)
			})
		}
		rec.Eval(1)
		if err != nil || pn != "" || !bytes.HasPrefix(out, prefix) || !bytes.Equal(out[len(prefix):], want) {
			fail = fmt.Sprintf("[%s] call %d, value passed %s while the collector runs and others allocate values of the same shape: Marshal gives %d bytes, the value encodes to %d bytes; the last 60 bytes are %x, should be %x (%v %s)", name, k, how, len(out)-len(prefix), len(want), head(tailOf(out, 60), 60), head(tailOf(want, 60), 60), err, trunc1(pn))
		}
	}
	close(stop)
	wg.Wait()
	c06Sink = [4][16]*c06Long{}
	if fail != "" {
		rec.Violation("repetition", fail, nil)
		return
	}
	rec.Count("marshals_under_collection", rounds)
	rec.NonTrivial(core.Hash64("collected", name, fmt.Sprint(idx)))
}

func tailOf(b []byte, n int) []byte {
	if len(b) > n {
		return b[len(b)-n:]
	}
	return b
}

// c06DirectShapes: every shape of value that Go keeps directly in an interface word - not only
// structs of one pointer, also arrays of one such element, nested. Most of them are types plenc
// turns away today; whichever it accepts must encode alike by value and through a pointer
// (round 12: k06).
func c06DirectShapes(c *core.Ctx, idx int) {
	rec := c.Rec
	r := c.Rand(idx)
	cfg := instCfgs()[idx%4]
	p := instNew(cfg)
	leaf := structOf(sf("A", tInt, `plenc:"1"`), sf("B", tString, `plenc:"2"`))
	pl := reflect.PointerTo(leaf)
	arr := func(t reflect.Type) reflect.Type { return reflect.ArrayOf(1, t) }
	shapes := []reflect.Type{arr(pl), arr(arr(pl)), arr(reflect.PointerTo(tInt)), arr(reflect.MapOf(tString, tInt)), arr(reflect.PointerTo(arr(pl))),
		structOf(sf("X", arr(pl), `plenc:"1"`)), arr(structOf(sf("X", pl, `plenc:"1"`))), reflect.ArrayOf(2, pl), reflect.ArrayOf(0, pl), arr(tInt), reflect.ArrayOf(3, tString),
		structOf(sf("X", reflect.MapOf(tString, leaf), `plenc:"1"`)), structOf(sf("X", structOf(sf("Y", pl, `plenc:"1"`)), `plenc:"1"`))}
	for _, t := range shapes {
		v := reflect.New(t)
		fillPresent(v.Elem(), r)
		if r.IntN(3) == 0 {
			// the pointee's first word zero: a codec that takes the pointer for the address of the value reads a nil there
			zeroFirstWords(v.Elem())
		}
		byPtr, err, pn := marshal(p, nil, v.Interface())
		rec.Eval(1)
		if pn != "" {
			rec.Violation("marshal-panic", fmt.Sprintf("[%s] Marshal through a pointer panicked\n  type %s\n%s", cfgName(cfg), typeString(t), pn), nil)
			return
		}
		if err != nil {
			rec.Count("direct_shapes_turned_away", 1)
			continue
		}
		rec.Count("direct_shapes_accepted", 1)
		byVal, err, pn := marshal(p, nil, v.Elem().Interface())
		if err != nil || pn != "" || !bytes.Equal(byVal, byPtr) {
			rec.Violation("by-value", fmt.Sprintf("[%s] Marshal by value differs from Marshal through a pointer (%v %s)\n  type %s\n  value %s\n  by value   %s\n  by pointer %s", cfgName(cfg), err, trunc1(pn), typeString(t), model.Show(v.Elem()), hexHead(byVal), hexHead(byPtr)), nil)
			return
		}
		pre := []byte{1, 2, 3}
		again, err, pn := marshal(p, pre, v.Elem().Interface())
		if err != nil || pn != "" || !bytes.Equal(again, append([]byte{1, 2, 3}, byPtr...)) {
			rec.Violation("append", fmt.Sprintf("[%s] Marshal by value onto a prefix is not the prefix followed by the encoding (%v %s)\n  type %s\n  got %s", cfgName(cfg), err, trunc1(pn), typeString(t), hexHead(again)), nil)
			return
		}
	}
	rec.NonTrivial(core.Hash64("direct-shapes", fmt.Sprint(idx)))
}

// zeroFirstWords sets the first field of every struct reached through v to its zero value
func zeroFirstWords(v reflect.Value) {
	switch v.Kind() {
	case reflect.Ptr:
		if !v.IsNil() {
			zeroFirstWords(v.Elem())
		}
	case reflect.Array, reflect.Slice:
		for i := 0; i < v.Len(); i++ {
			zeroFirstWords(v.Index(i))
		}
	case reflect.Struct:
		if v.NumField() > 0 && v.Field(0).CanSet() {
			if k := v.Field(0).Kind(); k != reflect.Ptr && k != reflect.Map && k != reflect.Array && k != reflect.Struct {
				v.Field(0).SetZero()
			}
			for i := 0; i < v.NumField(); i++ {
				zeroFirstWords(v.Field(i))
			}
		}
	}
}

func c06Case(c *core.Ctx, idx int) {
	if idx%53 == 9 {
		c06DirectShapes(c, idx)
		return
	}
	if idx%101 == 5 {
		c06Deep(c, idx)
		return
	}
	if idx%257 == 11 {
		c06Collected(c, idx)
		return
	}
	rec := c.Rec
	tc := genType(c, idx, nil)
	if idx%5 == 0 && tc.typ.Kind() != reflect.Map {
		pt := pointerShaped(tc.typ, idx/5)
		if tc.cfg.Validate(pt, "") == "" {
			tc.typ = pt
			rec.Count("pointer_shaped_types", 1)
		}
	}
	if idx%13 == 6 && tc.cfg.Null {
		// slices of the null types: elements that are wider in memory than on the wire (as slice
		// elements they lose invalidity on the way back - known finding D24 - but this check only writes)
		el := []reflect.Type{model.NullFloatT, model.NullIntT, model.NullBoolT, model.NullTimeT, model.NullStringT}[(idx/13)%5]
		st := reflect.SliceOf(el)
		tc.typ = []reflect.Type{
			reflect.StructOf([]reflect.StructField{{Name: "F", Type: st, Tag: `plenc:"1"`}, {Name: "S", Type: reflect.TypeOf(""), Tag: `plenc:"2"`}, {Name: "G", Type: st, Tag: `plenc:"3"`}}),
			reflect.StructOf([]reflect.StructField{{Name: "A", Type: reflect.TypeOf(int64(0)), Tag: `plenc:"1"`}, {Name: "F", Type: st, Tag: `plenc:"2"`}}),
		}[(idx/65)%2]
		rec.Count("slices_of_null_types", 1)
	}
	if _, err := tc.p.CodecForType(tc.typ); err != nil {
		rec.Violation("valid-type-rejected", fmt.Sprintf("[%s] %v\n  type %s", tc.name, err, typeString(tc.typ)), nil)
		return
	}
	rv := c.RandFor(idx, "values")
	sameBytes := func(a, b []byte, multi bool) bool {
		if bytes.Equal(a, b) {
			return true
		}
		if !multi || len(a) != len(b) {
			return false
		}
		ca, e1 := tc.cfg.Canon(tc.typ, "", a)
		cb, e2 := tc.cfg.Canon(tc.typ, "", b)
		return e1 == nil && e2 == nil && bytes.Equal(ca, cb)
	}
	var reuse []byte
	var seenVals []reflect.Value
	var seenRefs [][]byte
	nv := 10
	if c.Thorough() {
		nv = 50
	}
	for j := 0; j < nv; j++ {
		vg := &gen.VG{R: rv, C: tc.cfg, Budget: 150}
		v := vg.Value(tc.typ, "")
		if j == 0 {
			v = reflect.New(tc.typ).Elem()
		}
		multi := model.HasMultiMap(v)
		desc := func() string {
			return fmt.Sprintf("[%s]\n  type %s\n  value %s", tc.name, typeString(tc.typ), model.Show(v))
		}
		ref, err, pn := marshal(tc.p, nil, ptrTo(v))
		if err != nil || pn != "" {
			rec.Violation("marshal-error", fmt.Sprintf("%v %s %s", err, pn, desc()), caseExtra(tc, v, nil))
			return
		}
		noteShape(c, tc, v)
		if len(ref) == 0 {
			rec.Count("encodes_to_nothing", 1)
		}
		if !multi {
			seenVals, seenRefs = append(seenVals, model.DeepCopy(v)), append(seenRefs, ref)
		}
		// repetitions, with a schema query on the same instance in between
		if j == 1 || j == 4 {
			describe(tc.p, tc.typ)
		}
		for k := 0; k < 2; k++ {
			again, err, pn := marshal(tc.p, nil, ptrTo(v))
			rec.Eval(1)
			if err != nil || pn != "" || !sameBytes(again, ref, multi) {
				rec.Violation("repetition", fmt.Sprintf("Marshal of the same value gives different bytes on repetition: %x vs %x (%v %s) %s", head(again, 80), head(ref, 80), err, pn, desc()), caseExtra(tc, v, ref))
				return
			}
		}
		// by value
		byVal, err, pn := marshal(tc.p, nil, v.Interface())
		rec.Eval(1)
		if err != nil || pn != "" || !sameBytes(byVal, ref, multi) {
			rec.Violation("by-value", fmt.Sprintf("Marshal(nil, v) by value differs from by pointer: %x vs %x (%v %s) %s", head(byVal, 80), head(ref, 80), err, trunc1(pn), desc()), caseExtra(tc, v, ref))
			return
		}
		// prefixes
		for _, pl := range []int{0, 1, 17, 4096} {
			for _, spare := range []int{0, 1, len(ref) + 64} {
				backing := make([]byte, pl, pl+spare)
				for i := range backing {
					backing[i] = byte(i*7 + 3)
				}
				snap := append([]byte(nil), backing...)
				out, err, pn := marshal(tc.p, backing, ptrTo(v))
				rec.Eval(1)
				what := fmt.Sprintf("prefix len %d cap %d", pl, pl+spare)
				if err != nil || pn != "" {
					rec.Violation("marshal-error", fmt.Sprintf("%s: %v %s %s", what, err, pn, desc()), caseExtra(tc, v, nil))
					return
				}
				if !bytes.Equal(backing, snap) {
					rec.Violation("prefix-modified", fmt.Sprintf("%s: Marshal changed bytes of the destination below its length %s", what, desc()), caseExtra(tc, v, ref))
					return
				}
				if len(out) < pl || !bytes.Equal(out[:pl], snap) {
					rec.Violation("prefix-lost", fmt.Sprintf("%s: result (%d bytes) does not start with the buffer's existing bytes %s", what, len(out), desc()), caseExtra(tc, v, ref))
					return
				}
				if !sameBytes(out[pl:], ref, multi) {
					rec.Violation("appended-bytes", fmt.Sprintf("%s: appended bytes %x differ from Marshal(nil, v) = %x %s", what, head(out[pl:], 80), head(ref, 80), desc()), caseExtra(tc, v, ref))
					return
				}
			}
		}
		// every capacity between "no room" and "enough": a reallocation then falls between any two
		// writes of the encoder
		if j%4 == 2 && len(ref) > 0 && len(ref) <= 400 && !multi {
			for spare := 0; spare <= len(ref)+1; spare++ {
				backing := append(make([]byte, 0, 3+spare), 0xA1, 0xB2, 0xC3)
				out, err, pn := marshal(tc.p, backing, ptrTo(v))
				if err != nil || pn != "" || len(out) != 3+len(ref) || !bytes.Equal(out[:3], []byte{0xA1, 0xB2, 0xC3}) || !bytes.Equal(out[3:], ref) {
					rec.Violation("appended-bytes", fmt.Sprintf("prefix len 3 cap %d: result %x differs from the prefix followed by Marshal(nil, v) = %x (%v %s) %s", 3+spare, head(out, 80), head(ref, 80), err, trunc1(pn), desc()), caseExtra(tc, v, ref))
					return
				}
			}
			rec.Eval(len(ref) + 2)
			rec.Count("buffer_capacities_tried", len(ref)+2)
		}
		// buffer re-use across calls
		out, err, pn := marshal(tc.p, reuse[:0], ptrTo(v))
		rec.Eval(1)
		if err != nil || pn != "" || !sameBytes(out, ref, multi) {
			rec.Violation("buffer-reuse", fmt.Sprintf("Marshal into a re-used buffer gives %x, Marshal(nil, v) gives %x (%v %s) %s", head(out, 80), head(ref, 80), err, pn, desc()), caseExtra(tc, v, ref))
			return
		}
		if out != nil {
			reuse = out
		}
		// the same variable, changed where it is (same addresses, same backing arrays), marshalled
		// again into a non-nil buffer: the result depends on the value alone, not on what was
		// marshalled from these addresses before
		if v.CanAddr() && !multi {
			mutateInPlace(v, &gen.VG{R: rv, C: tc.cfg, Budget: 100}, 0)
			// the call that could see stale state comes first: nothing else is sized or marshalled in between
			first, ferr, fpn := marshal(tc.p, reuse[:0], ptrTo(v))
			fresh := model.DeepCopy(v)
			want, err, pn := marshal(tc.p, nil, ptrTo(fresh))
			if err == nil && pn == "" && !model.HasMultiMap(v) {
				if ferr != nil || fpn != "" || !bytes.Equal(first, want) {
					rec.Violation("stale-after-mutation", fmt.Sprintf("after changing the value in place, Marshal into the re-used buffer gives %x, a fresh copy of the same value gives %x (%v %s) %s\n  value now %s", head(first, 80), head(want, 80), ferr, trunc1(fpn), desc(), model.Show(v)), caseExtra(tc, v, want))
					return
				}
				for k, buf := range [][]byte{append(make([]byte, 0, 4), 0xAB, 0xCD), nil} {
					got, err, pn := marshal(tc.p, buf, ptrTo(v))
					rec.Eval(1)
					pre := len(buf)
					if err != nil || pn != "" || len(got) < pre || !bytes.Equal(got[pre:], want) {
						rec.Violation("stale-after-mutation", fmt.Sprintf("after changing the value in place, Marshal into buffer shape %d gives %x, a fresh copy of the same value gives %x (%v %s) %s\n  value now %s", k, head(got, 80), head(want, 80), err, trunc1(pn), desc(), model.Show(v)), caseExtra(tc, v, want))
						return
					}
				}
				rec.Count("in_place_mutations", 1)
			}
		}
		if rec.WantSample() && len(ref) > 2 && len(ref) < 60 {
			rec.Sample(map[string]any{"config": tc.name, "type": typeString(tc.typ), "value": model.Show(v), "bytes": fmt.Sprintf("%x", ref), "prefixes": "len 0/1/17/4096 x cap len, len+1, len+n+64"})
		}
	}
	// ... and whatever was marshalled in between: the values of the case once more, last to first
	for i := len(seenVals) - 1; i >= 0; i-- {
		again, err, pn := marshal(tc.p, nil, ptrTo(seenVals[i]))
		rec.Eval(1)
		if err != nil || pn != "" || !bytes.Equal(again, seenRefs[i]) {
			rec.Violation("repetition", fmt.Sprintf("[%s] the encoding of a value changed after other values of the type were marshalled on the instance: %x then, %x now (%v %s)\n  type %s\n  value %s", tc.name, head(seenRefs[i], 80), head(again, 80), err, trunc1(pn), typeString(tc.typ), model.Show(seenVals[i])), caseExtra(tc, seenVals[i], seenRefs[i]))
			return
		}
	}
	// the result depends on the value alone also while other goroutines marshal other values of the
	// type on the same instance, by value and by pointer
	if idx%3 == 2 && len(seenVals) > 1 {
		const g, rounds = 4, 12
		same := func(i int, a, b []byte) bool { return bytes.Equal(a, b) }
		rec.Eval(g * rounds * len(seenVals))
		rec.Count("concurrent_marshal_calls", g*rounds*len(seenVals))
		if d := concurrentMarshals(tc.p, seenVals, seenRefs, same, g, rounds, true); d != "" {
			rec.Violation("concurrent-callers", fmt.Sprintf("[%s] %s\n  type %s", tc.name, d, typeString(tc.typ)), caseExtra(tc, reflect.Value{}, nil))
		}
	}
}

func trunc1(s string) string {
	if len(s) > 300 {
		return s[:300]
	}
	return s
}

func init() {
	core.Register(&core.Prop{
		ID:        "C06",
		Technique: "append-contract monitor: real Marshal called with prefixes of several lengths/capacities, re-used buffers, by value and by pointer, repeatedly; results compared with Marshal(nil,v)",
		Rule: "every 53rd case: every shape of value Go keeps directly in an interface word (arrays of one pointer-shaped element, nested, in and around structs): whichever plenc accepts encodes alike by value, through a pointer and onto a prefix. generated types (every fifth wrapped into a struct that Go stores directly in the interface word: single pointer / map / nested single-pointer field) x boundary-biased values incl. the zero value and values that encode to nothing; the values of a case are encoded once more, last to first, at its end; every 257th case marshals a value with a million-element first field by value and through a dropped pointer while the collector runs and four goroutines allocate values of the same shape; " +
			"per value: 2 repetitions, by-value call, 12 (prefix length, spare capacity) shapes with a snapshot of the destination, one call into a buffer re-used along the case, in-place mutation of the same variable followed by calls into non-nil buffers; every third case ends with 4 goroutines marshalling the case's values at once by value and by pointer. Bytes compared exactly, or through the model's canonical parse when the value holds a multi-entry map. distinct = (type, configuration, value-shape) hashes with non-zero content",
		Assume: []string{"model.Canon for comparing encodings that differ only in map entry order"},
		Plan: func(tier string) []core.Lane {
			if tier == "thorough" {
				return []core.Lane{{Lane: "plain", Cases: 120000, Shards: 16, TimeoutS: 7200}, {Lane: "race", Cases: 10000, Shards: 16, TimeoutS: 3600}}
			}
			return []core.Lane{{Lane: "plain", Cases: 4000, Shards: 16, TimeoutS: 1200}}
		},
		Case: c06Case,
	})
}
