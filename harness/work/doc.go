// Package work holds one workload + monitor per property.
package work
