package work

import (
	"bytes"
	"fmt"
	"math/rand/v2"
	"reflect"
	"sync"
	"sync/atomic"
	"time"
	"unsafe"

	"github.com/philpearl/plenc"
	"github.com/philpearl/plenc/plenccodec"
	"github.com/philpearl/plenc/plenccore"

	"verifharness/core"
	"verifharness/gen"
	"verifharness/model"
)

// C17: registrations and options are scoped to their instance and (type, tag) key.

// Marked is a harness type; without a registration it is an ordinary struct
type Marked struct {
	X int `plenc:"1"`
}

// MarkStr is a named string; without a registration it falls back to the string codec
type MarkStr string

var (
	markedT  = reflect.TypeOf(Marked{})
	markStrT = reflect.TypeOf(MarkStr(""))
)

// markerCodec writes a constant that identifies the registration it came from
type markerCodec struct {
	id   byte
	size uintptr
	typ  reflect.Type // when set, what New allocates
}

func (m markerCodec) body() []byte                 { return []byte{0xEE, m.id, 0xEE} }
func (m markerCodec) Omit(ptr unsafe.Pointer) bool { return false }
func (m markerCodec) WireType() plenccore.WireType { return plenccore.WTLength }
func (m markerCodec) Descriptor() plenccodec.Descriptor {
	return plenccodec.Descriptor{Type: plenccodec.FieldTypeString}
}
func (m markerCodec) New() unsafe.Pointer {
	if m.typ != nil {
		return reflect.New(m.typ).UnsafePointer()
	}
	if m.size == unsafe.Sizeof("") {
		return unsafe.Pointer(new(MarkStr))
	}
	return unsafe.Pointer(new(Marked))
}
func (m markerCodec) Read(data []byte, ptr unsafe.Pointer, wt plenccore.WireType) (int, error) {
	if len(data) != 0 && !bytes.Equal(data, m.body()) { // empty: the element that stands for a nil pointer
		return 0, fmt.Errorf("marker codec %d handed foreign bytes %x", m.id, data)
	}
	return len(data), nil
}
func (m markerCodec) Size(ptr unsafe.Pointer, tag []byte) int {
	if len(tag) == 0 {
		return 3
	}
	return len(tag) + 1 + 3
}
func (m markerCodec) Append(data []byte, ptr unsafe.Pointer, tag []byte) []byte {
	if len(tag) != 0 {
		data = append(data, tag...)
		data = append(data, 3)
	}
	return append(data, m.body()...)
}

type c17Inst struct {
	p    *plenc.Plenc
	cfg  model.Cfg
	name string
	ids  map[model.TypeTag]byte
	typ  reflect.Type // the host type valid for this instance
}

func (in *c17Inst) markerBody(t reflect.Type, tag string) []byte {
	return []byte{0xEE, in.ids[model.TypeTag{Type: t, Tag: tag}], 0xEE}
}

func c17NewInst(r *rand.Rand, n int, nextID *byte) *c17Inst {
	in := &c17Inst{ids: map[model.TypeTag]byte{}}
	in.cfg = model.Cfg{ProtoArrays: r.IntN(2) == 0, ProtoTime: r.IntN(2) == 0, Plain: map[reflect.Type]model.Special{}, Tagged: map[model.TypeTag]model.Special{}}
	in.p = &plenc.Plenc{ProtoCompatibleArrays: in.cfg.ProtoArrays, ProtoCompatibleTime: in.cfg.ProtoTime}
	in.p.RegisterDefaultCodecs()
	reg := func(t reflect.Type, tag string) {
		*nextID++
		id := *nextID
		in.ids[model.TypeTag{Type: t, Tag: tag}] = id
		mc := markerCodec{id: id, size: t.Size()}
		if tag == "" {
			in.p.RegisterCodec(t, mc)
			in.cfg.Plain[t] = model.SpMarker
		} else {
			in.p.RegisterCodecWithTag(t, tag, mc)
			in.cfg.Tagged[model.TypeTag{Type: t, Tag: tag}] = model.SpMarker
		}
	}
	if r.IntN(3) != 0 {
		reg(markedT, "")
	}
	if r.IntN(2) == 0 {
		reg(markedT, "m1")
	}
	if r.IntN(3) == 0 {
		reg(markedT, "m2")
	}
	if r.IntN(3) == 0 {
		reg(markStrT, "")
	}
	if r.IntN(4) == 0 {
		reg(markStrT, "m1")
	}
	in.name = fmt.Sprintf("instance %d (arrays=%v time=%v, %d registrations)", n, in.cfg.ProtoArrays, in.cfg.ProtoTime, len(in.ids))
	// the host type: every position of the marked types; fields whose (type, tag) has no codec on this instance are left out
	cand := []reflect.StructField{
		sf("V", markedT, `plenc:"1"`), sf("T1", markedT, `plenc:"2,m1"`), sf("T2", markedT, `plenc:"3,m2"`),
		sf("P", reflect.PointerTo(markedT), `plenc:"4"`), sf("PT", reflect.PointerTo(markedT), `plenc:"5,m1"`),
		sf("S", reflect.SliceOf(markedT), `plenc:"6"`), sf("M", reflect.MapOf(tString, markedT), `plenc:"7"`), sf("K", reflect.MapOf(markedT, tInt), `plenc:"8"`),
		sf("N", markStrT, `plenc:"9"`), sf("NT", markStrT, `plenc:"10,m1"`), sf("NS", reflect.SliceOf(markStrT), `plenc:"11"`), sf("NI", markStrT, `plenc:"12,intern"`),
		sf("TM", model.TimeT, `plenc:"13"`), sf("SS", reflect.SliceOf(tString), `plenc:"14"`), sf("PS", reflect.SliceOf(reflect.PointerTo(markedT)), `plenc:"15"`),
		sf("I", tInt, `plenc:"16"`), sf("MK", reflect.MapOf(markStrT, markStrT), `plenc:"17"`),
		// the same types again under the built-in tag options: the option is part of the key
		sf("SSP", reflect.SliceOf(tString), `plenc:"18,proto"`), sf("SP", reflect.SliceOf(markedT), `plenc:"19,proto"`), sf("IF", tInt, `plenc:"20,flat"`),
		sf("MP", reflect.MapOf(tString, markedT), `plenc:"21,proto"`), sf("PSP", reflect.SliceOf(reflect.PointerTo(markedT)), `plenc:"22,proto"`), sf("NSP", reflect.SliceOf(markStrT), `plenc:"23,proto"`),
	}
	// declaration order decides which of (type, "") and (type, option) an instance sees first
	r.Shuffle(len(cand), func(i, j int) { cand[i], cand[j] = cand[j], cand[i] })
	var fs []reflect.StructField
	for _, f := range cand {
		probe := reflect.StructOf([]reflect.StructField{f})
		if in.cfg.Validate(probe, "") == "" {
			fs = append(fs, f)
		}
	}
	in.typ = reflect.StructOf(fs)
	return in
}

// expect computes the bytes this instance alone should produce
func (in *c17Inst) expect(v reflect.Value) []byte {
	model.MarkerBody = in.markerBody
	return in.cfg.Encode(v)
}

func c17Value(r *rand.Rand, in *c17Inst) reflect.Value {
	vg := &gen.VG{R: r, C: model.Cfg{ProtoArrays: in.cfg.ProtoArrays, ProtoTime: in.cfg.ProtoTime}, Budget: 40}
	v := vg.Value(in.typ, "")
	// at most one entry per map: the encoding is then determined by the value
	for i := 0; i < v.NumField(); i++ {
		f := v.Field(i)
		if f.Kind() == reflect.Map && f.Len() > 1 {
			it := f.MapRange()
			it.Next()
			m := reflect.MakeMap(f.Type())
			m.SetMapIndex(it.Key(), it.Value())
			f.Set(m)
		}
	}
	return v
}

// c17Shared is a top-level struct type common to all instances
var c17Shared = reflect.TypeOf(struct {
	V  Marked    `plenc:"1"`
	S  []Marked  `plenc:"2"`
	N  MarkStr   `plenc:"3"`
	T  time.Time `plenc:"4"`
	SS []string  `plenc:"5"`
	P  *Marked   `plenc:"6"`
	T1 Marked    `plenc:"7,m1"`
}{})

// c17FirstUse runs in a process that has not touched plenc yet: a package-level registration for a
// key the defaults also fill (time.Time, uint32, int64 with "flat") comes first; the package-level
// functions must then behave like an instance that was given the same registration after
// RegisterDefaultCodecs.
func c17FirstUse(c *core.Ctx, idx int) {
	rec := c.Rec
	type reg struct {
		name string
		pkg  func()
		inst func(p *plenc.Plenc)
		typ  reflect.Type
	}
	T := reflect.TypeOf
	regs := []reg{
		{"RegisterCodec(time.Time, TimeCompatCodec)", func() { plenc.RegisterCodec(model.TimeT, plenccodec.TimeCompatCodec{}) }, func(p *plenc.Plenc) { p.RegisterCodec(model.TimeT, plenccodec.TimeCompatCodec{}) },
			T(struct {
				A time.Time `plenc:"1"`
				B int       `plenc:"2"`
			}{})},
		{"RegisterCodec(uint32, FlatIntCodec)", func() { plenc.RegisterCodec(T(uint32(0)), plenccodec.FlatIntCodec[uint32]{}) }, func(p *plenc.Plenc) { p.RegisterCodec(T(uint32(0)), plenccodec.FlatIntCodec[uint32]{}) },
			T(struct {
				A uint32   `plenc:"1"`
				B []uint32 `plenc:"2"`
			}{})},
		{`RegisterCodecWithTag(int64, "flat", IntCodec)`, func() { plenc.RegisterCodecWithTag(T(int64(0)), "flat", plenccodec.IntCodec[int64]{}) }, func(p *plenc.Plenc) { p.RegisterCodecWithTag(T(int64(0)), "flat", plenccodec.IntCodec[int64]{}) },
			T(struct {
				A int64 `plenc:"1,flat"`
				B int64 `plenc:"2"`
			}{})},
		{"RegisterCodec(time.Time, BQTimestampCodec)", func() { plenc.RegisterCodec(model.TimeT, plenccodec.BQTimestampCodec{}) }, func(p *plenc.Plenc) { p.RegisterCodec(model.TimeT, plenccodec.BQTimestampCodec{}) },
			T(struct {
				A time.Time  `plenc:"1"`
				P *time.Time `plenc:"2"`
			}{})},
	}
	rg := regs[idx%len(regs)]
	rg.pkg() // nothing of plenc's package-level API has been called in this process before
	ref := &plenc.Plenc{}
	ref.RegisterDefaultCodecs()
	rg.inst(ref)
	r := c.Rand(idx)
	for i := 0; i < 20; i++ {
		v := (&gen.VG{R: r, C: model.Cfg{}, Budget: 20, Finite: true}).Value(rg.typ, "")
		want, err1 := ref.Marshal(nil, ptrTo(v))
		var got []byte
		var err2 error
		pn := core.Guard(func() { got, err2 = plenc.Marshal(nil, ptrTo(v)) })
		rec.Eval(1)
		if pn != "" || (err1 != nil) != (err2 != nil) || !bytes.Equal(got, want) {
			rec.Violation("scoping-default", fmt.Sprintf("%s as the first package-level call of the process: the package-level Marshal writes %s (%v %s), an instance with the default codecs and the same registration writes %s (%v)\n  value %s", rg.name, hexHead(got), err2, trunc1(pn), hexHead(want), err1, model.Show(v)), map[string]any{"registration": rg.name})
			return
		}
		a, b := reflect.New(rg.typ), reflect.New(rg.typ)
		e1 := ref.Unmarshal(want, a.Interface())
		var e2 error
		pn = core.Guard(func() { e2 = plenc.Unmarshal(want, b.Interface()) })
		if pn != "" || (e1 != nil) != (e2 != nil) || model.Diff(a.Elem(), b.Elem(), "$") != "" {
			rec.Violation("scoping-default", fmt.Sprintf("%s as the first package-level call of the process: the package-level Unmarshal reads %s (%v %s), the equally configured instance reads %s (%v)", rg.name, model.Show(b.Elem()), e2, trunc1(pn), model.Show(a.Elem()), e1), map[string]any{"registration": rg.name})
			return
		}
	}
	rec.Count("first_use_registrations", 1)
	rec.NonTrivial(core.Hash64("firstuse", rg.name))
	rec.NonTrivial(core.Hash64("firstuse-b", rg.name, fmt.Sprint(idx)))
	if rec.WantSample() {
		rec.Sample(map[string]any{"lane": "firstuse", "registration": rg.name})
	}
}

// MarkNode refers to itself: once under a tag name that has a registration of its own, once plainly
type MarkNode struct {
	ID     int         `plenc:"1"`
	Parent *MarkNode   `plenc:"2,ref"`
	Kids   []*MarkNode `plenc:"3"`
}

// MarkTree refers to itself through a nested struct
type MarkTree struct {
	Root MarkBranch `plenc:"1"`
	N    int        `plenc:"2"`
}

type MarkBranch struct {
	Up *MarkTree `plenc:"1,ref"`
	N  int       `plenc:"3"`
}

// MarkHolder holds the tagged pointers without being recursive itself
type MarkHolder struct {
	A *MarkNode `plenc:"1,ref"`
	B *MarkTree `plenc:"2,ref"`
	C *MarkNode `plenc:"3"`
}

// c17Recursive: a codec registered under a tag name for a type that refers to itself under that
// very tag name. The registration is what the tagged field uses - inside the type itself (while its
// own codec is still being built), through a nested struct, and in a holder type used before or
// after; a second instance without the registration is not touched by it.
func c17Recursive(c *core.Ctx, idx int) {
	rec := c.Rec
	r := c.Rand(idx)
	cfg := model.Cfg{ProtoArrays: r.IntN(2) == 0, ProtoTime: r.IntN(2) == 0}
	mk := func() *plenc.Plenc {
		p := &plenc.Plenc{ProtoCompatibleArrays: cfg.ProtoArrays, ProtoCompatibleTime: cfg.ProtoTime}
		p.RegisterDefaultCodecs()
		return p
	}
	with, without := mk(), mk()
	nodeT, treeT := reflect.TypeOf(MarkNode{}), reflect.TypeOf(MarkTree{})
	idN, idT := byte(1+r.IntN(100)), byte(101+r.IntN(100))
	with.RegisterCodecWithTag(nodeT, "ref", markerCodec{id: idN, typ: nodeT})
	with.RegisterCodecWithTag(treeT, "ref", markerCodec{id: idT, typ: treeT})
	mN, mT := []byte{0xEE, idN, 0xEE}, []byte{0xEE, idT, 0xEE}
	id := 1 + r.IntN(60)
	node := &MarkNode{ID: id, Parent: &MarkNode{ID: 7, Parent: &MarkNode{ID: 8}}}
	tree := &MarkTree{Root: MarkBranch{Up: &MarkTree{N: 5}, N: 3}, N: id}
	holder := &MarkHolder{A: &MarkNode{ID: 9}, B: &MarkTree{N: 9}}
	fr := func(b []byte, idx int, body []byte) []byte {
		b = append(b, byte(idx<<3|2), byte(len(body)))
		return append(b, body...)
	}
	zz := func(n int) byte { return byte(n << 1) }
	wantNode := fr([]byte{0x08, zz(id)}, 2, mN)
	branch := fr(nil, 1, mT)
	branch = append(branch, 0x18, zz(3))
	wantTree := append(fr(nil, 1, branch), 0x10, zz(id))
	wantHolder := fr(fr(nil, 1, mN), 2, mT)
	type step struct {
		name string
		v    any
		want []byte
	}
	steps := []step{{"the self-referring type", node, wantNode}, {"the type that refers to itself through a nested struct", tree, wantTree}, {"the holder of tagged pointers", holder, wantHolder}}
	r.Shuffle(len(steps), func(i, j int) { steps[i], steps[j] = steps[j], steps[i] })
	order := fmt.Sprintf("%s, then %s, then %s", steps[0].name, steps[1].name, steps[2].name)
	for rep := 0; rep < 2; rep++ {
		for _, st := range steps {
			got, err, pn := marshal(with, nil, st.v)
			rec.Eval(1)
			if err != nil || pn != "" || !bytes.Equal(got, st.want) {
				rec.Violation("registration-ignored", fmt.Sprintf("a codec registered under the tag name \"ref\" for a type that refers to itself under that tag name is not the one used (first uses in the order: %s): Marshal of %s gives %x, want %x (%v %s)", order, st.name, got, st.want, err, trunc1(pn)), nil)
				return
			}
			back := reflect.New(reflect.TypeOf(st.v).Elem())
			if err, pn := unmarshal(with, got, back.Interface()); err != nil || pn != "" {
				rec.Violation("registration-ignored", fmt.Sprintf("Unmarshal of %s on the instance with the \"ref\" registrations fails (order: %s): %v %s\n  bytes %x", st.name, order, err, trunc1(pn), got), nil)
				return
			}
			again, err, pn := marshal(with, nil, back.Interface())
			if err != nil || pn != "" || !bytes.Equal(again, st.want) {
				rec.Violation("registration-ignored", fmt.Sprintf("%s decoded and encoded again on the instance with the \"ref\" registrations gives %x, want %x (order: %s) (%v %s)", st.name, again, st.want, order, err, trunc1(pn)), nil)
				return
			}
		}
	}
	// the instance without the registrations writes the fields with the types' own codecs
	pl := cfg.Encode(reflect.ValueOf(node).Elem())
	got, err, pn := marshal(without, nil, node)
	rec.Eval(1)
	if err != nil || pn != "" || !bytes.Equal(got, pl) {
		rec.Violation("instance-leak", fmt.Sprintf("an instance without registrations encodes the self-referring type as %x, the documented encoding is %x (%v %s)", got, pl, err, trunc1(pn)), nil)
		return
	}
	rec.Count("recursive_tagged_registrations", 1)
	rec.NonTrivial(core.Hash64("recursive", order, fmt.Sprint(idx)))
}

// c17RegisterRace: a registration for a (type, tag) key made at the very moment another goroutine
// uses that key for the first time. Whichever comes first, once both calls have returned the
// registration is what the instance hands out for the key.
func c17RegisterRace(c *core.Ctx, idx int) {
	rec := c.Rec
	r := c.Rand(idx)
	p := &plenc.Plenc{ProtoCompatibleArrays: r.IntN(2) == 0}
	p.RegisterDefaultCodecs()
	typs := []reflect.Type{reflect.TypeOf([]int(nil)), markedT, markStrT, reflect.TypeOf(map[string]int(nil)), reflect.PointerTo(markedT)}
	rounds := 1500
	if c.Lane == "race" {
		rounds = 300
	}
	for round := 0; round < rounds; round++ {
		t := typs[round%len(typs)]
		tag := fmt.Sprintf("r%d", round)
		mc := markerCodec{id: byte(round), typ: t, size: uintptr(round)}
		var spin atomic.Int32
		var wg sync.WaitGroup
		gate := make(chan struct{})
		wg.Add(2)
		go func() {
			defer wg.Done()
			<-gate
			core.Guard(func() { p.CodecForTypeWithTag(t, tag) })
		}()
		go func() {
			defer wg.Done()
			<-gate
			for d := 0; d < (round*7)%257; d++ {
				spin.Add(1)
			}
			p.RegisterCodecWithTag(t, tag, mc)
		}()
		close(gate)
		wg.Wait()
		var got plenccodec.Codec
		var err error
		pn := core.Guard(func() { got, err = p.CodecForTypeWithTag(t, tag) })
		rec.Eval(1)
		if g, ok := got.(markerCodec); pn != "" || err != nil || !ok || g.size != uintptr(round) {
			rec.Violation("registration-lost", fmt.Sprintf("RegisterCodecWithTag(%s, %q) returned while another goroutine was using the key for the first time; afterwards the instance hands out %T for the key, not the registered codec (round %d) (%v %s)", t, tag, got, round, err, trunc1(pn)), nil)
			return
		}
	}
	rec.Count("registrations_racing_with_first_use", rounds)
	rec.NonTrivial(core.Hash64("regrace", fmt.Sprint(idx)))
}

// Types the library has no codec for until one is registered: unsupported kinds, and a supported
// type under a tag name nobody has registered yet
type (
	LateArr [4]byte
	LateCx  complex128
	LateFn  func()
)

// c17LateRegistration: a definition is turned away because one of its parts has no codec; the caller
// then registers a codec for that part. From then on the registration is what every definition
// around it uses - the very definitions that failed before included - and an instance without
// the registration still turns them away (round 11: q17).
func c17LateRegistration(c *core.Ctx, idx int) {
	rec := c.Rec
	r := c.Rand(idx)
	mk := func() *plenc.Plenc {
		p := &plenc.Plenc{ProtoCompatibleArrays: r.IntN(2) == 0, ProtoCompatibleTime: r.IntN(2) == 0}
		p.RegisterDefaultCodecs()
		return p
	}
	with, without := mk(), mk()
	usePkg := false
	part := []reflect.Type{reflect.TypeOf(LateArr{}), reflect.TypeOf(LateCx(0)), reflect.TypeOf(LateFn(nil)), markedT}[r.IntN(4)]
	tag := ""
	if part == markedT {
		tag = []string{"late", "x", "flat", "proto"}[r.IntN(4)] // no codec under that tag name until it is registered
	}
	ftag := `plenc:"2"`
	if tag != "" {
		ftag = fmt.Sprintf(`plenc:"2,%s"`, tag)
	}
	holder := structOf(sf("A", tInt, `plenc:"1"`), sf("X", part, ftag))
	pholder := structOf(sf("A", tInt, `plenc:"1"`), sf("X", reflect.PointerTo(part), ftag))
	defs := []reflect.Type{holder, pholder, reflect.SliceOf(holder), reflect.MapOf(tString, holder), reflect.PointerTo(holder),
		structOf(sf("H", holder, `plenc:"3"`), sf("B", tString, `plenc:"4"`)), structOf(sf("HS", reflect.SliceOf(reflect.PointerTo(holder)), `plenc:"1"`))}
	if tag == "" {
		defs = append(defs, reflect.SliceOf(part), reflect.MapOf(tString, part), reflect.MapOf(tInt, reflect.PointerTo(part)), part)
	}
	r.Shuffle(len(defs), func(i, j int) { defs[i], defs[j] = defs[j], defs[i] })
	nfail := 1 + r.IntN(len(defs))
	mkv := func(t reflect.Type) reflect.Value {
		v := reflect.New(t)
		fillPresent(v.Elem(), r)
		return v
	}
	desc := func(t reflect.Type) string {
		return fmt.Sprintf("%s (the part without a codec at first: %s, tag option %q)", typeString(t), part, tag)
	}
	// 1. before the registration: an error, from whichever entry point
	for _, t := range defs[:nfail] {
		var err error
		var pn string
		switch r.IntN(3) {
		case 0:
			pn = core.Guard(func() { _, err = with.CodecForType(t) })
		case 1:
			_, err, pn = marshal(with, nil, mkv(t).Interface())
		default:
			err, pn = unmarshal(with, []byte{}, reflect.New(t).Interface())
		}
		rec.Eval(1)
		if pn != "" {
			rec.Violation("codec-panic", "a definition with a part that has no codec panics "+desc(t)+"\n"+pn, nil)
			return
		}
		if err == nil {
			// (not this property's business whether it must be turned away; but then there is nothing to learn here)
			rec.Count("late_registration_part_accepted_unregistered", 1)
			return
		}
	}
	// 2. the registration
	id := byte(1 + r.IntN(200))
	mc := markerCodec{id: id, typ: part}
	if tag == "" {
		with.RegisterCodec(part, mc)
	} else {
		with.RegisterCodecWithTag(part, tag, mc)
	}
	body := []byte{0xEE, id, 0xEE}
	// 3. every definition, those that failed included, now uses it
	r.Shuffle(len(defs), func(i, j int) { defs[i], defs[j] = defs[j], defs[i] })
	for _, t := range defs {
		if t.Kind() == reflect.Ptr || (with.ProtoCompatibleArrays && t.Kind() == reflect.Slice) {
			continue // (top-level pointers add nothing; D25)
		}
		v := mkv(t)
		got, err, pn := marshal(with, nil, v.Interface())
		rec.Eval(1)
		if err != nil || pn != "" {
			rec.Violation("registration-ignored", fmt.Sprintf("a codec was registered for a part after definitions around it had been turned away for want of it; Marshal of %s still fails: %v %s", desc(t), err, trunc1(pn)), nil)
			return
		}
		if !bytes.Contains(got, body) {
			rec.Violation("registration-ignored", fmt.Sprintf("the codec registered late is not the one used in %s: output %x does not hold its mark %x", desc(t), got, body), nil)
			return
		}
		back := reflect.New(t)
		if err, pn := unmarshal(with, got, back.Interface()); err != nil || pn != "" {
			rec.Violation("registration-ignored", fmt.Sprintf("Unmarshal of what the late registration wrote fails for %s: %v %s\n  bytes %x", desc(t), err, trunc1(pn), got), nil)
			return
		}
	}
	// 4. the other instance knows nothing of it
	for _, t := range defs[:2] {
		var err error
		pn := core.Guard(func() { _, err = without.CodecForType(t) })
		rec.Eval(1)
		if pn != "" || err == nil {
			rec.Violation("instance-leak", fmt.Sprintf("an instance without the registration accepts %s (%s)", desc(t), trunc1(pn)), nil)
			return
		}
	}
	_ = usePkg
	if d := lateRecursive(r); d != "" {
		rec.Violation("registration-ignored", "a type that refers to itself around a field whose codec is registered late: "+d, nil)
		return
	}
	rec.Count("late_registrations", 1)
	rec.NonTrivial(core.Hash64("late", part.String(), tag, fmt.Sprint(idx)))
}

// LateNode refers to itself (pointer, slice) before and after a field whose type has no codec
// until one is registered; LateDoc holds it by value
type LateNode struct {
	Count *int       `plenc:"1"`
	Label *string    `plenc:"2"`
	Next  *LateNode  `plenc:"3"`
	Kids  []LateNode `plenc:"4"`
	Meta  LateArr    `plenc:"5"`
	On    *bool      `plenc:"6"`
	Tail  *LateNode  `plenc:"7"`
}
type LateDoc struct {
	Head LateNode `plenc:"1"`
	N    int      `plenc:"2"`
}

// lateRecursive: the build of a type fails inside a nested type that refers to itself, because one
// field's type has no codec; the codec is registered; from then on the instance behaves like one
// that had the registration from the start - same bytes, and every pointer to a zero value still
// present after a round trip (round 12: k09). Returns a description of what went wrong, or "".
func lateRecursive(r *rand.Rand) string {
	mk := func() *plenc.Plenc {
		p := &plenc.Plenc{ProtoCompatibleArrays: r.IntN(2) == 0, ProtoCompatibleTime: r.IntN(2) == 0}
		p.RegisterDefaultCodecs()
		return p
	}
	late := mk()
	upfront := &plenc.Plenc{ProtoCompatibleArrays: late.ProtoCompatibleArrays, ProtoCompatibleTime: late.ProtoCompatibleTime}
	upfront.RegisterDefaultCodecs()
	arrT := reflect.TypeOf(LateArr{})
	mc := markerCodec{id: 9, typ: arrT}
	upfront.RegisterCodec(arrT, mc)
	zero, empty, no := 0, "", false
	seven := 7
	doc := &LateDoc{N: 3, Head: LateNode{Count: &zero, Label: &empty, On: &no,
		Next: &LateNode{Count: &zero, Label: &empty, On: &no, Next: &LateNode{Count: &seven}, Tail: &LateNode{On: &no}},
		Kids: []LateNode{{Count: &zero}, {Label: &empty, Next: &LateNode{Count: &zero}}}}}
	firsts := []any{doc, &LateNode{Count: &zero}, &[]LateDoc{*doc}, &map[string]LateDoc{"k": *doc}, &struct {
		D *LateDoc `plenc:"1"`
	}{doc}}
	r.Shuffle(len(firsts), func(i, j int) { firsts[i], firsts[j] = firsts[j], firsts[i] })
	for _, f := range firsts[:1+r.IntN(len(firsts))] {
		_, err, pn := marshal(late, nil, f)
		if pn != "" {
			return fmt.Sprintf("Marshal of %T before the registration panicked: %s", f, trunc1(pn))
		}
		if err == nil {
			return "" // (accepted without a codec for the array: nothing to learn here)
		}
	}
	late.RegisterCodec(arrT, mc)
	want, err, pn := marshal(upfront, nil, doc)
	if err != nil || pn != "" {
		return fmt.Sprintf("the instance with the registration from the start fails: %v %s", err, trunc1(pn))
	}
	got, err, pn := marshal(late, nil, doc)
	if err != nil || pn != "" || !bytes.Equal(got, want) {
		return fmt.Sprintf("after the late registration Marshal gives %x (%v %s), the instance that had the registration from the start gives %x", got, err, trunc1(pn), want)
	}
	for _, rd := range []*plenc.Plenc{late, upfront} {
		var back LateDoc
		if err, pn := unmarshal(rd, want, &back); err != nil || pn != "" {
			return fmt.Sprintf("Unmarshal after the late registration: %v %s", err, trunc1(pn))
		}
		if !reflect.DeepEqual(&back, doc) {
			which := "the instance that had the registration from the start"
			if rd == late {
				which = "the instance with the late registration"
			}
			return fmt.Sprintf("%s loses presence or values over a round trip: got %s, want %s", which, model.Show(reflect.ValueOf(back)), model.Show(reflect.ValueOf(*doc)))
		}
	}
	return ""
}

// c17BuiltinTags: one instance registers codecs under new tag names for built-in types (the types
// the default codecs are for). Every other type, every other instance - made before or after - and
// the package-level functions still encode every built-in type as documented, and none of them
// knows the new tag names (round 12: k17).
func c17BuiltinTags(c *core.Ctx, idx int) {
	rec := c.Rec
	r := c.Rand(idx)
	T := reflect.TypeOf
	builtins := []reflect.Type{T(false), T(float64(0)), T(float32(0)), T(int(0)), T(int8(0)), T(int16(0)), T(int32(0)), T(int64(0)), T(uint(0)), T(uint8(0)), T(uint16(0)), T(uint32(0)), T(uint64(0)), T([]byte(nil)), T(""), model.TimeT}
	var fs []reflect.StructField
	for i, t := range builtins {
		fs = append(fs, reflect.StructField{Name: fmt.Sprintf("F%d", i), Type: t, Tag: reflect.StructTag(fmt.Sprintf(`plenc:"%d"`, i+1))})
		fs = append(fs, reflect.StructField{Name: fmt.Sprintf("S%d", i), Type: reflect.SliceOf(t), Tag: reflect.StructTag(fmt.Sprintf(`plenc:"%d"`, i+40))})
	}
	all := reflect.StructOf(fs)
	cfgs := instCfgs()
	cfgA, cfgB := cfgs[r.IntN(4)], cfgs[r.IntN(4)]
	a, before := instNew(cfgA), instNew(cfgB)
	if r.IntN(2) == 0 {
		// the other instance has used the types already
		v := reflect.New(all)
		fillPresent(v.Elem(), r)
		marshal(before, nil, v.Interface())
	}
	tags := []string{"cents", "x1", "raw", "Flat", "f"}
	type reg struct {
		t   reflect.Type
		tag string
	}
	var regs []reg
	for i, n := 0, 1+r.IntN(4); i < n; i++ {
		rg := reg{builtins[r.IntN(len(builtins))], tags[r.IntN(len(tags))]}
		a.RegisterCodecWithTag(rg.t, rg.tag, markerCodec{id: byte(1 + i), typ: rg.t})
		regs = append(regs, rg)
	}
	after := instNew(cfgB)
	type user struct {
		name string
		cfg  model.Cfg
		enc  func(v any) ([]byte, error, string)
		with func(t reflect.Type, tag string) error
	}
	inst := func(name string, cfg model.Cfg, p *plenc.Plenc) user {
		return user{name, cfg, func(v any) ([]byte, error, string) { return marshal(p, nil, v) }, func(t reflect.Type, tag string) error {
			_, err := p.CodecForTypeWithTag(t, tag)
			return err
		}}
	}
	users := []user{inst("the registering instance", cfgA, a), inst("an instance made before the registration", cfgB, before), inst("an instance made after the registration", cfgB, after),
		{"the package-level functions", model.Cfg{}, func(v any) (out []byte, err error, pn string) {
			pn = core.Guard(func() { out, err = plenc.Marshal(nil, v) })
			return
		}, func(t reflect.Type, tag string) error {
			_, err := plenc.CodecForTypeWithTag(t, tag)
			return err
		}}}
	desc := fmt.Sprintf("after RegisterCodecWithTag on one instance for %v", regs)
	for _, u := range users {
		v := reflect.New(all)
		fillPresent(v.Elem(), r)
		got, err, pn := u.enc(v.Interface())
		want := u.cfg.Encode(v.Elem())
		rec.Eval(1)
		if err != nil || pn != "" || !bytes.Equal(got, want) {
			rec.Violation("instance-leak", fmt.Sprintf("%s: %s does not encode the built-in types as documented (%v %s)\n  got  %s\n  want %s", desc, u.name, err, trunc1(pn), hexHead(got), hexHead(want)), nil)
			return
		}
		if u.name == "the registering instance" {
			continue
		}
		for _, rg := range regs {
			for _, t := range builtins {
				if t.Kind() == reflect.Slice {
					continue // (on a slice type an unknown tag option is ignored, not refused)
				}
				var err error
				pn := core.Guard(func() { err = u.with(t, rg.tag) })
				rec.Eval(1)
				if pn != "" || err == nil {
					rec.Violation("instance-leak", fmt.Sprintf("%s: %s has a codec for (%s, %q), which nobody registered there (%s)", desc, u.name, t, rg.tag, trunc1(pn)), nil)
					return
				}
			}
		}
	}
	// on the registering instance the registration is for its key alone
	for _, rg := range regs {
		for _, t := range builtins {
			known := false
			for _, o := range regs {
				known = known || (o.t == t && o.tag == rg.tag)
			}
			if known || t.Kind() == reflect.Slice {
				continue
			}
			var err error
			pn := core.Guard(func() { _, err = a.CodecForTypeWithTag(t, rg.tag) })
			rec.Eval(1)
			if pn != "" || err == nil {
				rec.Violation("registration-ignored", fmt.Sprintf("%s: the registering instance has a codec for (%s, %q) too (%s)", desc, t, rg.tag, trunc1(pn)), nil)
				return
			}
		}
	}
	rec.Count("builtin_tag_registrations", len(regs))
	rec.NonTrivial(core.Hash64("builtin-tags", fmt.Sprint(idx)))
}

func c17Case(c *core.Ctx, idx int) {
	if c.Lane == "firstuse" {
		c17FirstUse(c, idx)
		return
	}
	if idx%9 == 4 {
		c17BuiltinTags(c, idx)
		return
	}
	if idx%7 == 3 {
		c17LateRegistration(c, idx)
		return
	}
	if idx%11 == 5 {
		c17RegisterRace(c, idx)
		return
	}
	if idx%13 == 7 {
		c17Recursive(c, idx)
		return
	}
	rec := c.Rec
	r := c.Rand(idx)
	n := 2 + r.IntN(5)
	var nextID byte
	var insts []*c17Inst
	for i := 0; i < n; i++ {
		insts = append(insts, c17NewInst(r, i, &nextID))
	}
	type job struct {
		in        *c17Inst
		typ       reflect.Type
		v         reflect.Value
		want      []byte
		failFirst *c17Inst // an instance on which a failing build is attempted just before this job
	}
	var jobs []job
	nj := 6 * n
	for j := 0; j < nj; j++ {
		in := insts[r.IntN(n)]
		v := c17Value(r, in)
		jb := job{in: in, typ: in.typ, v: v, want: in.expect(v)}
		if r.IntN(4) == 0 {
			// a top-level type that every instance knows (host types differ from instance to instance):
			// the marked struct, the named string, a struct around them
			st := []reflect.Type{markedT, markStrT, c17Shared}[r.IntN(3)]
			if in.cfg.Validate(st, "") == "" {
				sv := (&gen.VG{R: r, C: model.Cfg{ProtoArrays: in.cfg.ProtoArrays, ProtoTime: in.cfg.ProtoTime}, Budget: 20}).Value(st, "")
				jb = job{in: in, typ: st, v: sv, want: in.expect(sv)}
			}
		}
		if r.IntN(3) == 0 {
			jb.failFirst = insts[r.IntN(n)]
		}
		jobs = append(jobs, jb)
	}
	// a build that fails on one instance (an unsupported field after fields whose codecs were
	// already built) must not influence the next build on another instance
	failing := reflect.StructOf([]reflect.StructField{
		sf("S", reflect.SliceOf(markedT), `plenc:"1"`), sf("P", reflect.PointerTo(markedT), `plenc:"2"`), sf("M", reflect.MapOf(tString, markStrT), `plenc:"3"`),
		sf("SS", reflect.SliceOf(tString), `plenc:"4"`), sf("T", model.TimeT, `plenc:"5"`), sf("N", markStrT, `plenc:"6"`), sf("Bad", reflect.TypeOf(make(chan int)), `plenc:"7"`)})
	failOn := func(in *c17Inst) string {
		var err error
		if pn := core.Guard(func() { _, err = in.p.CodecForType(failing) }); pn != "" {
			return in.name + ": CodecForType of an invalid definition panicked: " + pn
		}
		if err == nil {
			return in.name + ": a definition with a chan field was accepted"
		}
		return ""
	}
	run := func(j job) string {
		if j.failFirst != nil {
			if d := failOn(j.failFirst); d != "" {
				return d
			}
		}
		got, err, pn := marshal(j.in.p, nil, ptrTo(j.v))
		if err != nil || pn != "" {
			return fmt.Sprintf("%s: Marshal %v %s\n  type %s", j.in.name, err, pn, typeString(j.typ))
		}
		if !bytes.Equal(got, j.want) {
			return fmt.Sprintf("%s produced bytes that its own options and registrations do not explain\n  got  %s\n  want %s\n  type %s\n  value %s\n  registrations %v", j.in.name, hexHead(got), hexHead(j.want), typeString(j.typ), model.Show(j.v), j.in.ids)
		}
		// and it reads its own output back (marker codecs reject foreign bytes)
		out := reflect.New(j.typ)
		if err, pn := unmarshal(j.in.p, got, out.Interface()); err != nil || pn != "" {
			return fmt.Sprintf("%s: Unmarshal of its own output: %v %s", j.in.name, err, pn)
		}
		return ""
	}
	rec.Eval(len(jobs))
	rec.Count("instances", n)
	extra := map[string]any{"instances": n}
	var fail string
	if c.Lane == "race" || idx%3 == 1 {
		// the jobs of all instances from 4 goroutines at once (every third trial of the plain lane too)
		rec.Count("concurrent_trials", 1)
		var mu sync.Mutex
		var wg sync.WaitGroup
		for w := 0; w < 4; w++ {
			wg.Add(1)
			go func(w int) {
				defer wg.Done()
				for k := w; k < len(jobs); k += 2 { // overlapping job sets: the same instance is used from several goroutines
					if d := run(jobs[k%len(jobs)]); d != "" {
						mu.Lock()
						fail = d
						mu.Unlock()
					}
				}
			}(w)
		}
		wg.Wait()
	} else {
		for _, j := range jobs {
			if fail = run(j); fail != "" {
				break
			}
		}
	}
	if fail != "" {
		rec.Violation("scoping", fail, extra)
		return
	}
	// each instance describes the host type by its own registrations
	for _, in := range insts {
		cd, err := in.p.CodecForType(in.typ)
		if err != nil {
			rec.Violation("scoping", in.name+": "+err.Error(), extra)
			return
		}
		d := cd.Descriptor()
		rec.Eval(1)
		model.MarkerBody = in.markerBody
		if diff := model.DescDiff(in.cfg.Describe(in.typ, ""), realDesc{&d}, "$", true); diff != "" {
			rec.Violation("scoping", fmt.Sprintf("%s: the Descriptor of the host type does not reflect this instance's registrations: %s\n  type %s", in.name, diff, typeString(in.typ)), extra)
			return
		}
	}
	// a registration made after the type was already used: from then on the registered codec is
	// the one used for exactly that type at top level and in structs built afterwards
	for k, in := range insts {
		if _, has := in.ids[model.TypeTag{Type: markedT}]; has || in.cfg.Validate(markedT, "") != "" {
			continue
		}
		mv := (&gen.VG{R: r, C: model.Cfg{ProtoArrays: in.cfg.ProtoArrays, ProtoTime: in.cfg.ProtoTime}, Budget: 10}).Value(markedT, "")
		b0, err, pn := marshal(in.p, nil, ptrTo(mv))
		if want := in.expect(mv); err != nil || pn != "" || !bytes.Equal(b0, want) {
			rec.Violation("scoping", fmt.Sprintf("%s: top-level value of the marked struct type before any registration: %v %s got %s want %s", in.name, err, pn, hexHead(b0), hexHead(want)), extra)
			return
		}
		nextID++
		mc := markerCodec{id: nextID, size: markedT.Size()}
		in.ids[model.TypeTag{Type: markedT}] = nextID
		in.cfg.Plain[markedT] = model.SpMarker
		if k%2 == 0 {
			in.p.RegisterCodec(markedT, mc)
		} else {
			in.p.RegisterCodecWithTag(markedT, "", mc)
		}
		how := []string{"RegisterCodec", `RegisterCodecWithTag(..., "")`}[k%2]
		b1, err, pn := marshal(in.p, nil, ptrTo(mv))
		rec.Eval(2)
		if want := in.expect(mv); err != nil || pn != "" || !bytes.Equal(b1, want) {
			rec.Violation("scoping", fmt.Sprintf("%s: after %s for a type that was already used at top level, Marshal of that type does not use the registered codec: %v %s\n  got  %s\n  want %s", in.name, how, err, pn, hexHead(b1), hexHead(want)), extra)
			return
		}
		// another top-level type in between, then the bytes are read back by the registered codec
		if _, err, pn := marshal(in.p, nil, ptrTo(reflect.ValueOf(int64(7)))); err != nil || pn != "" {
			rec.Violation("scoping", fmt.Sprintf("%s: Marshal(int64): %v %s", in.name, err, pn), extra)
			return
		}
		back := reflect.New(markedT)
		if err, pn := unmarshal(in.p, b1, back.Interface()); err != nil || pn != "" {
			rec.Violation("scoping", fmt.Sprintf("%s: after %s, Unmarshal of what Marshal wrote with the registered codec fails: %v %s", in.name, how, err, pn), extra)
			return
		}
		// a struct built after the registration uses it for its field
		ht := reflect.StructOf([]reflect.StructField{sf("A", tInt, `plenc:"1"`), sf("L", markedT, `plenc:"2"`)})
		hv := reflect.New(ht).Elem()
		hv.Field(0).SetInt(3)
		b2, err, pn := marshal(in.p, nil, ptrTo(hv))
		if want := in.expect(hv); err != nil || pn != "" || !bytes.Equal(b2, want) {
			rec.Violation("scoping", fmt.Sprintf("%s: after %s, a struct built afterwards does not use the registered codec for its field: %v %s\n  got  %s\n  want %s", in.name, how, err, pn, hexHead(b2), hexHead(want)), extra)
			return
		}
		rec.Count("late_registrations", 1)
	}
	// registering again, for element types, the very codecs the defaults use changes nothing - in
	// particular not what the instance does with the slice and pointer types built on them ([]byte has
	// a registration of its own, which a registration for uint8 must leave alone)
	for _, in := range insts {
		bt := reflect.StructOf([]reflect.StructField{sf("B", reflect.TypeOf([]byte(nil)), `plenc:"1"`), sf("BB", reflect.TypeOf([][]byte(nil)), `plenc:"2"`), sf("I", reflect.TypeOf([]int32(nil)), `plenc:"3"`), sf("P", reflect.PointerTo(tString), `plenc:"4"`), sf("S", reflect.SliceOf(tString), `plenc:"5"`), sf("U", reflect.TypeOf([]uint8(nil)), `plenc:"6"`)})
		bv := reflect.New(bt).Elem()
		bv.Field(0).SetBytes([]byte{0x80, 0xff, 0x01})
		bv.Field(1).Set(reflect.ValueOf([][]byte{{0x90}, {}}))
		bv.Field(2).Set(reflect.ValueOf([]int32{-1, 300}))
		s := "p"
		bv.Field(3).Set(reflect.ValueOf(&s))
		bv.Field(4).Set(reflect.ValueOf([]string{"a", ""}))
		bv.Field(5).SetBytes([]byte{0xfe})
		want := in.expect(bv)
		if r.IntN(2) == 0 {
			// (half of the instances have used the type before the re-registration)
			marshal(in.p, nil, ptrTo(bv))
		}
		in.p.RegisterCodec(reflect.TypeOf(uint8(0)), plenccodec.UintCodec[uint8]{})
		in.p.RegisterCodec(reflect.TypeOf(int32(0)), plenccodec.IntCodec[int32]{})
		in.p.RegisterCodec(tString, plenccodec.StringCodec{})
		nt := reflect.StructOf(append([]reflect.StructField{sf("X", tInt, `plenc:"9"`)}, func() []reflect.StructField {
			var fs []reflect.StructField
			for i := 0; i < bt.NumField(); i++ {
				fs = append(fs, bt.Field(i))
			}
			return fs
		}()...))
		nv := reflect.New(nt).Elem()
		for i := 0; i < bt.NumField(); i++ {
			nv.Field(i + 1).Set(bv.Field(i))
		}
		for _, tv := range []reflect.Value{bv, nv} {
			got, err, pn := marshal(in.p, nil, ptrTo(tv))
			rec.Eval(1)
			if w := in.expect(tv); err != nil || pn != "" || !bytes.Equal(got, w) {
				rec.Violation("scoping", fmt.Sprintf("%s: after registering the default codecs of uint8, int32 and string once more, slices and pointers of them are encoded differently: %v %s\n  got  %s\n  want %s", in.name, err, trunc1(pn), hexHead(got), hexHead(w)), extra)
				return
			}
		}
		_ = want
		rec.Count("default_codecs_registered_again", 1)
	}
	// a field keeps the codec registered for its type whatever options the fields before it carry
	if idx%5 == 2 {
		if !afterInternCheck(c, r, instCfgs()[idx%4], cfgName(instCfgs()[idx%4]), c19Vocab(r), "scoping") {
			return
		}
	}
	// the package-level functions still behave like a default-configured instance
	dt := reflect.StructOf([]reflect.StructField{sf("V", markedT, `plenc:"1"`), sf("N", markStrT, `plenc:"2"`), sf("S", reflect.SliceOf(tString), `plenc:"3"`), sf("T", model.TimeT, `plenc:"4"`), sf("T1", markedT, `plenc:"5,m1"`)})
	dv := (&gen.VG{R: r, C: model.Cfg{}, Budget: 30}).Value(dt, "")
	want := model.Cfg{}.Encode(dv)
	var got []byte
	var err error
	pn := core.Guard(func() { got, err = plenc.Marshal(nil, ptrTo(dv)) })
	def := newDefault()
	got2, err2, pn2 := marshal(def, nil, ptrTo(dv))
	rec.Eval(2)
	if err != nil || pn != "" || !bytes.Equal(got, want) {
		rec.Violation("scoping-default", fmt.Sprintf("the package-level Marshal is affected by registrations or options made on other instances: got %s want %s (%v %s)\n  value %s", hexHead(got), hexHead(want), err, pn, model.Show(dv)), extra)
		return
	}
	if err2 != nil || pn2 != "" || !bytes.Equal(got2, want) {
		rec.Violation("scoping-default", fmt.Sprintf("a fresh default-configured instance differs from the model: got %s want %s (%v %s)", hexHead(got2), hexHead(want), err2, pn2), extra)
		return
	}
	out := reflect.New(dt)
	if pn := core.Guard(func() { err = plenc.Unmarshal(got, out.Interface()) }); pn != "" || err != nil {
		rec.Violation("scoping-default", fmt.Sprintf("package-level Unmarshal: %v %s", err, pn), extra)
		return
	}
	if _, err := plenc.CodecForTypeWithTag(tInt, "flat"); err != nil {
		rec.Violation("scoping-default", "package-level CodecForTypeWithTag(int, flat): "+err.Error(), nil)
	}
	h := core.Hash64(fmt.Sprint(idx))
	for _, in := range insts {
		h = h*31 ^ core.Hash64(in.name, in.typ.String())
	}
	rec.NonTrivial(h)
	if rec.WantSample() {
		in := insts[0]
		rec.Sample(map[string]any{"instances": n, "first_instance": in.name, "its_host_type": typeString(in.typ), "its_registrations(type,tag->marker id)": fmt.Sprint(in.ids), "example_bytes": fmt.Sprintf("%x", head(jobs[0].want, 60))})
	}
}

// c17Finish registers a marker codec at package level (once per process, at the
// very end of the shard): the package-level functions must use it, fresh and
// existing instances must not.
func c17Finish(c *core.Ctx) {
	if c.Lane == "firstuse" {
		return
	}
	rec := c.Rec
	r := c.Rand(1 << 30)
	var nextID byte = 200
	before := c17NewInst(r, 0, &nextID)
	plenc.RegisterCodec(markedT, markerCodec{id: 99, size: markedT.Size()})
	plenc.RegisterCodecWithTag(markStrT, "pk", markerCodec{id: 98, size: markStrT.Size()})
	dt := reflect.StructOf([]reflect.StructField{sf("V", markedT, `plenc:"1"`), sf("N", markStrT, `plenc:"2,pk"`), sf("P", reflect.PointerTo(markedT), `plenc:"3"`)})
	dv := reflect.New(dt).Elem()
	dv.Field(0).Set(reflect.ValueOf(Marked{X: 5}))
	dv.Field(1).Set(reflect.ValueOf(MarkStr("zz")))
	ids := map[model.TypeTag]byte{{Type: markedT, Tag: ""}: 99, {Type: markStrT, Tag: "pk"}: 98}
	model.MarkerBody = func(t reflect.Type, tag string) []byte {
		return []byte{0xEE, ids[model.TypeTag{Type: t, Tag: tag}], 0xEE}
	}
	want := model.Cfg{Plain: map[reflect.Type]model.Special{markedT: model.SpMarker}, Tagged: map[model.TypeTag]model.Special{{Type: markStrT, Tag: "pk"}: model.SpMarker}}.Encode(dv)
	var got []byte
	var err error
	pn := core.Guard(func() { got, err = plenc.Marshal(nil, ptrTo(dv)) })
	rec.Eval(1)
	if err != nil || pn != "" || !bytes.Equal(got, want) {
		rec.ViolationAt(-1, "scoping-default", fmt.Sprintf("a codec registered with the package-level RegisterCodec is not the one the package-level Marshal uses: got %s want %s (%v %s)", hexHead(got), hexHead(want), err, pn), nil)
		return
	}
	// instances, old and new, do not see it
	for _, in := range []*c17Inst{before, c17NewInst(r, 1, &nextID)} {
		v := c17Value(r, in)
		want := in.expect(v)
		got, err, pn := marshal(in.p, nil, ptrTo(v))
		rec.Eval(1)
		if err != nil || pn != "" || !bytes.Equal(got, want) {
			rec.ViolationAt(-1, "scoping", fmt.Sprintf("a package-level registration leaked into %s: got %s want %s (%v %s)", in.name, hexHead(got), hexHead(want), err, pn), nil)
			return
		}
	}
	rec.Count("package_level_registration_checked", 1)
	_ = time.Now
}

func init() {
	core.Register(&core.Prop{
		ID:        "C17",
		Technique: "marker-codec monitor: several Plenc instances with random options and random (type, tag) registrations of harness marker codecs used in interleaved order (race lane: concurrently); every output compared byte for byte with the model parameterised by that instance only; package-level functions compared with a default configuration",
		Rule: "every 9th trial: codecs registered under new tag names for built-in types on one instance; the registering instance, instances made before and after, and the package-level functions still encode every built-in type (plain and in slices) as documented, and only the registered keys answer to the tag names. every 7th trial: definitions around a part without a codec (array, complex, func; a struct under an unregistered tag name) are turned away, then a codec is registered for the part: every definition, those that failed included, must use it from then on, and an instance without the registration still turns them away. every 11th trial: 1500 rounds of RegisterCodecWithTag(T, fresh tag) against the first CodecForTypeWithTag of that key from another goroutine with a swept delay, the key must give the registered codec afterwards. Every 13th trial: codecs registered under a tag name for two types that refer to themselves under that tag name (directly, through a nested struct) and a non-recursive holder, first uses in every order, exact bytes, an instance without the registrations beside it. Otherwise one trial = 2-6 instances, each with random ProtoCompatibleArrays/Time and a random subset of registrations {(Marked,\"\"),(Marked,m1),(Marked,m2),(MarkStr,\"\"),(MarkStr,m1)} of marker codecs that write a constant identifying the registration; the marked struct type and the named string type are placed as value, tagged value, pointer target, slice element, map key, map value, interned field, and the same slice/map/int types again under the built-in proto/flat options, in shuffled declaration order; failing builds interleaved on random instances; 6 x instances marshal/unmarshal jobs in random instance order; " +
			"then the package-level Marshal/Unmarshal are compared with a default configuration. Lane firstuse: 16 fresh processes whose first package-level call is a registration for a key the defaults also fill. At the end of each shard a package-level registration is made and must be visible to the package-level functions only. distinct = distinct trials (sets of instance configurations)",
		Assume: []string{"model.Encode parameterised by one instance's options and registrations"},
		Plan: func(tier string) []core.Lane {
			if tier == "thorough" {
				return []core.Lane{{Lane: "plain", Cases: 900000, Shards: 16, TimeoutS: 7200}, {Lane: "race", Cases: 60000, Shards: 16, TimeoutS: 3600}, {Lane: "firstuse", Cases: 16, Shards: 16, TimeoutS: 600}}
			}
			return []core.Lane{{Lane: "plain", Cases: 8000, Shards: 16, TimeoutS: 1200}, {Lane: "race", Cases: 640, Shards: 16, TimeoutS: 1200}, {Lane: "firstuse", Cases: 16, Shards: 16, TimeoutS: 600}}
		},
		Case:   c17Case,
		Finish: c17Finish,
	})
}
