package work

import (
	"encoding/binary"
	"fmt"
	"math/rand/v2"
	"reflect"
	"sync"
	"time"
	"unsafe"

	"github.com/philpearl/plenc"

	"verifharness/core"
	"verifharness/gen"
	"verifharness/model"
	"verifharness/types"
)

// C10: re-used targets and instances never leak stale state.

// staleTails shortens slices in place so that their backing arrays keep stale
// elements beyond the length
func staleTails(v reflect.Value, r *rand.Rand, depth int) {
	if depth > 6 {
		return
	}
	switch v.Kind() {
	case reflect.Ptr:
		if !v.IsNil() {
			staleTails(v.Elem(), r, depth+1)
		}
	case reflect.Struct:
		if v.Type() == model.TimeT {
			return
		}
		for i := 0; i < v.NumField(); i++ {
			if v.Type().Field(i).IsExported() {
				staleTails(v.Field(i), r, depth+1)
			}
		}
	case reflect.Slice:
		for i := 0; i < v.Len() && i < 4 && v.Type().Elem().Kind() != reflect.Interface; i++ {
			staleTails(v.Index(i), r, depth+1)
		}
		if v.Len() >= 2 && v.CanSet() && r.IntN(2) == 0 {
			v.Set(v.Slice(0, r.IntN(v.Len())))
		}
	}
}

type c10fresh struct {
	typ   reflect.Type
	data  []byte
	first reflect.Value
}

// heldPointee is what a pointer element of a slice of the target pointed to before the call
type heldPointee struct {
	path string
	ptr  reflect.Value
	was  reflect.Value
}

// collectHeld lists the pointees of the pointer elements of every slice reachable in v, the
// elements beyond the length (up to the capacity) included. A decoded slice holds new elements,
// each decoded into a zero element (appended ones in the repeated form): whatever the slice held
// before is the caller's and is not written to.
func collectHeld(v reflect.Value, path string, depth int, out *[]heldPointee) {
	if depth > 8 || len(*out) > 400 {
		return
	}
	switch v.Kind() {
	case reflect.Ptr:
		if !v.IsNil() {
			collectHeld(v.Elem(), path+"*", depth+1, out)
		}
	case reflect.Struct:
		if v.Type() == model.TimeT {
			return
		}
		for i := 0; i < v.NumField(); i++ {
			if v.Type().Field(i).IsExported() {
				collectHeld(v.Field(i), path+"."+v.Type().Field(i).Name, depth+1, out)
			}
		}
	case reflect.Map:
		it := v.MapRange()
		for it.Next() {
			collectHeld(it.Value(), path+"[k]", depth+1, out)
		}
	case reflect.Slice:
		if v.IsNil() || v.Cap() == 0 {
			return
		}
		full := v.Slice(0, v.Cap())
		for i := 0; i < full.Len() && i < 64; i++ {
			e := full.Index(i)
			if e.Kind() == reflect.Ptr {
				if !e.IsNil() {
					pv := reflect.New(e.Type()).Elem() // the pointer itself, not the slot it sits in
					pv.Set(e)
					*out = append(*out, heldPointee{fmt.Sprintf("%s[%d]", path, i), pv, model.DeepCopy(e.Elem())})
				}
				continue
			}
			collectHeld(e, fmt.Sprintf("%s[%d]", path, i), depth+1, out)
		}
	}
}

// soleOwners keeps the held pointees that nothing else in the target can reach: the pointer occurs
// once in the whole target, and what it points to holds no pointer, slice or map of its own (a
// pointer field that shares the pointee is decoded INTO by the merge rules, legitimately)
func soleOwners(root reflect.Value, held []heldPointee) []heldPointee {
	if len(held) == 0 {
		return held
	}
	seen := map[unsafe.Pointer]int{}
	var walk func(v reflect.Value, depth int)
	walk = func(v reflect.Value, depth int) {
		if depth > 12 {
			return
		}
		switch v.Kind() {
		case reflect.Ptr:
			if !v.IsNil() {
				seen[v.UnsafePointer()]++
				if seen[v.UnsafePointer()] == 1 {
					walk(v.Elem(), depth+1)
				}
			}
		case reflect.Struct:
			if v.Type() == model.TimeT {
				return
			}
			for i := 0; i < v.NumField(); i++ {
				walk(v.Field(i), depth+1)
			}
		case reflect.Map:
			it := v.MapRange()
			for it.Next() {
				walk(it.Key(), depth+1)
				walk(it.Value(), depth+1)
			}
		case reflect.Slice:
			if !v.IsNil() {
				full := v.Slice(0, v.Cap())
				for i := 0; i < full.Len(); i++ {
					walk(full.Index(i), depth+1)
				}
			}
		}
	}
	walk(root, 0)
	var flat func(t reflect.Type) bool
	flat = func(t reflect.Type) bool {
		switch t.Kind() {
		case reflect.Ptr, reflect.Slice, reflect.Map, reflect.Interface:
			return false
		case reflect.Struct:
			if t == model.TimeT {
				return true
			}
			for i := 0; i < t.NumField(); i++ {
				if !flat(t.Field(i).Type) {
					return false
				}
			}
		}
		return true
	}
	out := held[:0]
	for _, h := range held {
		if seen[h.ptr.UnsafePointer()] == 1 && flat(h.ptr.Type().Elem()) {
			out = append(out, h)
		}
	}
	return out
}

func c10History(c *core.Ctx, idx, worker int, p *plenc.Plenc, cfg model.Cfg, name string, typs []reflect.Type) {
	rec := c.Rec
	r := c.RandFor(idx, fmt.Sprintf("history%d", worker))
	nops := 50
	if c.Thorough() {
		nops = 100
	}
	targets := map[reflect.Type]reflect.Value{}
	var fresh []c10fresh
	for op := 0; op < nops; op++ {
		typ := typs[r.IntN(len(typs))]
		tc := &tcase{cfg: cfg, name: name, p: p, typ: typ}
		v := (&gen.VG{R: r, C: cfg, Budget: 120}).Value(typ, "")
		data, err, pn := marshal(p, nil, ptrTo(v))
		if err != nil || pn != "" {
			rec.Violation("marshal-error", fmt.Sprintf("[%s] %v %s\n  type %s", name, err, pn, typeString(typ)), caseExtra(tc, v, nil))
			return
		}
		if len(data) > 1 && r.IntN(3) == 0 {
			// a decode that is rejected half-way, into a target nobody looks at again, is part of the history
			// too: what it leaves in pooled scratch space, tables or codecs must not reach the next decode
			for k := 0; k < 2; k++ {
				junk := reflect.New(typ)
				if k == 1 {
					junk.Elem().Set(model.DeepCopy(v))
				}
				if err, pn := unmarshal(p, damage(r, data), junk.Interface()); err != nil || pn != "" {
					rec.Count("rejected_decodes_in_history", 1)
				}
			}
		}
		// the target: re-used from an earlier decode, a generated prior, or fresh
		var target reflect.Value
		kind := r.IntN(6)
		switch {
		case kind < 3 && targets[typ].IsValid():
			target = targets[typ]
			rec.Count("reused_targets", 1)
		case kind < 5:
			target = reflect.New(typ)
			target.Elem().Set((&gen.VG{R: r, C: cfg, Budget: 120}).Value(typ, ""))
			rec.Count("generated_priors", 1)
		default:
			target = reflect.New(typ)
			rec.Count("fresh_targets", 1)
		}
		if r.IntN(2) == 0 {
			staleTails(target.Elem(), r, 0)
		}
		prior := model.DeepCopy(target.Elem())
		want := reflect.New(typ)
		want.Elem().Set(model.DeepCopy(prior))
		rec.Eval(1)
		h, nt := model.ShapeHash(prior)
		h2, nt2 := model.ShapeHash(v)
		if nt || nt2 {
			rec.NonTrivial(h ^ h2*31 ^ core.Hash64(typ.String(), name))
		}
		var held []heldPointee
		collectHeld(target.Elem(), "$", 0, &held)
		held = soleOwners(target.Elem(), held)
		err, pn = unmarshal(p, data, target.Interface())
		desc := func() string {
			return fmt.Sprintf("[%s] op %d of the history\n  type %s\n  prior target %s\n  decoded value %s\n  bytes %s", name, op, typeString(typ), model.Show(prior), model.Show(v), hexHead(data))
		}
		if err != nil || pn != "" {
			rec.Violation("unmarshal-error", fmt.Sprintf("Unmarshal into a populated target failed: %v %s %s", err, pn, desc()), caseExtra(tc, v, data))
			return
		}
		for _, h := range held {
			rec.Count("held_slice_element_pointees_checked", 1)
			if d := model.Diff(h.was, h.ptr.Elem(), h.path+"*"); d != "" {
				rec.Violation("merge", fmt.Sprintf("Unmarshal wrote to what a pointer element of a slice of the target pointed to before the call (the backing array was re-used without being cleared first; a decoded slice holds new elements): %s %s", d, desc()), caseExtra(tc, v, data))
				return
			}
		}
		if err := cfg.Decode(want.Elem(), data); err != nil {
			rec.Violation("model-error", err.Error()+" "+desc(), nil)
			return
		}
		if d := model.Diff(want.Elem(), target.Elem(), "$"); d != "" {
			rec.Violation("merge", fmt.Sprintf("Unmarshal into a populated target does not follow the merge rules: %s %s\n  got  %s\n  want %s", d, desc(), model.Show(target.Elem()), model.Show(want.Elem())), caseExtra(tc, v, data))
			return
		}
		targets[typ] = target
		// a fresh-target decode is independent of history: remember it and re-issue it later
		if r.IntN(4) == 0 && len(fresh) < 12 {
			f := reflect.New(typ)
			if err, pn := unmarshal(p, data, f.Interface()); err == nil && pn == "" {
				fresh = append(fresh, c10fresh{typ, data, f.Elem()})
			}
		}
		if len(fresh) > 0 && r.IntN(3) == 0 {
			fr := fresh[r.IntN(len(fresh))]
			f := reflect.New(fr.typ)
			err, pn := unmarshal(p, fr.data, f.Interface())
			rec.Eval(1)
			rec.Count("fresh_redecodes", 1)
			if err != nil || pn != "" {
				rec.Violation("fresh-decode", fmt.Sprintf("[%s] re-issued fresh decode failed: %v %s", name, err, pn), nil)
				return
			}
			if d := model.Diff(fr.first, f.Elem(), "$"); d != "" {
				rec.Violation("history-dependence", fmt.Sprintf("[%s] a decode into a fresh variable depends on what was done before on the instance: %s\n  type %s\n  bytes %s\n  first  %s\n  later  %s", name, d, typeString(fr.typ), hexHead(fr.data), model.Show(fr.first), model.Show(f.Elem())), nil)
				return
			}
			// and it equals the model's fresh decode
			w := reflect.New(fr.typ)
			if err := cfg.Decode(w.Elem(), fr.data); err == nil {
				if d := model.Diff(w.Elem(), f.Elem(), "$"); d != "" {
					rec.Violation("fresh-decode", fmt.Sprintf("[%s] fresh decode differs from the reference decoder: %s\n  type %s\n  bytes %s", name, d, typeString(fr.typ), hexHead(fr.data)), nil)
					return
				}
			}
		}
		if worker == 0 && rec.WantSample() && len(data) > 3 && len(data) < 40 {
			rec.Sample(map[string]any{"config": name, "op": op, "type": typeString(typ), "prior_target": model.Show(prior), "data_of": model.Show(v), "bytes": fmt.Sprintf("%x", data), "target_after": model.Show(target.Elem())})
		}
	}
}

// c10DupKeys: one encoded map that names a key more than once (no encoder of plenc's writes that,
// a merged or hand-built message can): entries are applied in order, into a nil, an empty and a
// populated target map alike, as the reference decoder does.
func c10DupKeys(c *core.Ctx, idx int) {
	rec := c.Rec
	r := c.Rand(idx)
	cfg := instCfgs()[idx%4]
	name := cfgName(cfg)
	p := instNew(cfg)
	T := reflect.TypeOf
	for round := 0; round < 12; round++ {
		kt := []reflect.Type{T(""), T(int32(0)), T(types.Key{}), T(uint64(0))}[r.IntN(4)]
		vt := []reflect.Type{T(int64(0)), T(""), T(types.Leaf{}), T([]byte(nil)), T((*int32)(nil)), T(float64(0)), T(false), T([]int(nil))}[r.IntN(8)]
		ht := reflect.StructOf([]reflect.StructField{{Name: "M", Type: reflect.MapOf(kt, vt), Tag: `plenc:"1"`}, {Name: "Z", Type: T(int8(0)), Tag: `plenc:"2"`}})
		if cfg.Validate(ht, "") != "" {
			continue
		}
		vg := &gen.VG{R: r, C: cfg, Budget: 12}
		key := vg.Value(kt, "")
		one := func(val reflect.Value) []byte {
			h := reflect.New(ht).Elem()
			m := reflect.MakeMap(ht.Field(0).Type)
			m.SetMapIndex(key, val)
			h.Field(0).Set(m)
			return cfg.Encode(h)
		}
		var entries [][]byte
		ok := true
		n := 2 + r.IntN(3)
		for i := 0; i < n && ok; i++ {
			val := reflect.Zero(vt)
			if r.IntN(2) == 0 {
				val = vg.Value(vt, "")
			}
			e := one(val)
			// tag of field 1 (counted form), a count of one, then the entry
			if len(e) < 3 || e[0] != 0x0b || e[1] != 0x01 {
				ok = false
				break
			}
			entries = append(entries, e[2:])
		}
		if !ok {
			continue
		}
		data := []byte{0x0b, byte(len(entries))}
		for _, e := range entries {
			data = append(data, e...)
		}
		data = append(data, 0x10, 0x02) // Z = 1
		for _, shape := range []string{"nil map", "empty map", "map that holds the key"} {
			prior := reflect.New(ht).Elem()
			switch shape {
			case "empty map":
				prior.Field(0).Set(reflect.MakeMap(ht.Field(0).Type))
			case "map that holds the key":
				m := reflect.MakeMap(ht.Field(0).Type)
				m.SetMapIndex(key, vg.Value(vt, ""))
				prior.Field(0).Set(m)
			}
			got, want := reflect.New(ht), reflect.New(ht)
			got.Elem().Set(model.DeepCopy(prior))
			want.Elem().Set(model.DeepCopy(prior))
			if err := cfg.Decode(want.Elem(), data); err != nil {
				break // the reference decoder does not take this shape: nothing to compare with
			}
			err, pn := unmarshal(p, data, got.Interface())
			rec.Eval(1)
			if err != nil || pn != "" {
				rec.Violation("merge", fmt.Sprintf("[%s] a map that names one key %d times is rejected (target: %s): %v %s\n  type %s\n  bytes %s", name, len(entries), shape, err, trunc1(pn), typeString(ht), hexHead(data)), nil)
				return
			}
			if d := model.Diff(want.Elem(), got.Elem(), "$"); d != "" {
				rec.Violation("merge", fmt.Sprintf("[%s] a map that names one key %d times: entries are not applied in order into a %s: %s\n  type %s\n  bytes %s\n  got  %s\n  want %s", name, len(entries), shape, d, typeString(ht), hexHead(data), model.Show(got.Elem()), model.Show(want.Elem())), nil)
				return
			}
			rec.Count("duplicate_key_decodes", 1)
			rec.NonTrivial(core.Hash64("dup", ht.String(), shape, fmt.Sprint(idx, round)))
		}
	}
}

type c10TimeInner struct {
	T time.Time `plenc:"1"`
	X int       `plenc:"2"`
}

type c10Times struct {
	T  time.Time            `plenc:"1"`
	P  *time.Time           `plenc:"2"`
	S  c10TimeInner         `plenc:"3"`
	PP *c10TimeInner        `plenc:"4"`
	M  map[string]time.Time `plenc:"5"`
	Z  int                  `plenc:"6"`
}

// c10PartialTimes: times as other writers of the format put them on the wire - a seconds or a
// nanoseconds part that is zero left out, or both - decoded into targets that hold other, non-zero
// times in every position: a time that is present in the data replaces the old one whole. The
// messages are assembled by hand; the reference decoder says what they hold.
func c10PartialTimes(c *core.Ctx, idx int) {
	rec := c.Rec
	r := c.Rand(idx)
	cfg := instCfgs()[(idx/13)%4]
	name := cfgName(cfg)
	p := instNew(cfg)
	uv := func(b []byte, v uint64) []byte { return binary.AppendUvarint(b, v) }
	zz := func(v int64) uint64 {
		if cfg.ProtoTime {
			return uint64(v)
		}
		return uint64(v<<1) ^ uint64(v>>63)
	}
	body := func(sec, nanos int64, parts int) []byte {
		var b []byte
		if parts&1 != 0 {
			b = uv(append(b, 0x08), zz(sec))
		}
		if parts&2 != 0 {
			if cfg.ProtoTime {
				b = uv(append(b, 0x10), uint64(uint32(nanos)))
			} else {
				b = uv(append(b, 0x10), zz(nanos))
			}
		}
		return b
	}
	framed := func(b []byte, idx int, inner []byte) []byte {
		b = uv(b, uint64(idx)<<3|2)
		b = uv(b, uint64(len(inner)))
		return append(b, inner...)
	}
	for round := 0; round < 24; round++ {
		sec := []int64{1, 1700000000, -1, 253402300799, 86400, -62135596800 + 1}[r.IntN(6)]
		nanos := []int64{1, 999999999, 500000000, 123456789}[r.IntN(4)]
		parts := []int{1, 2, 0, 3}[round%4]
		tb := body(sec, nanos, parts)
		var data []byte
		var where []string
		if r.IntN(2) == 0 {
			data = framed(data, 1, tb)
			where = append(where, "T")
		}
		if r.IntN(2) == 0 {
			data = framed(data, 2, tb)
			where = append(where, "P")
		}
		if r.IntN(2) == 0 {
			data = framed(data, 3, framed(nil, 1, tb))
			where = append(where, "S.T")
		}
		if r.IntN(2) == 0 {
			data = framed(data, 4, framed(nil, 1, tb))
			where = append(where, "PP.T")
		}
		if r.IntN(2) == 0 {
			entry := framed(framed(nil, 1, []byte("k")), 2, tb)
			data = uv(data, 5<<3|3)
			data = uv(data, 1)
			data = uv(data, uint64(len(entry)))
			data = append(data, entry...)
			where = append(where, "M[k]")
		}
		data = append(data, 0x30, 0x02)
		old := time.Unix(1234567890+int64(r.IntN(1000)), int64(1+r.IntN(999999998))).UTC()
		old2 := old.Add(time.Hour)
		for _, shape := range []string{"fresh", "populated"} {
			prior := c10Times{}
			if shape == "populated" {
				prior = c10Times{T: old, P: &old2, S: c10TimeInner{T: old, X: 3}, PP: &c10TimeInner{T: old2, X: 4}, M: map[string]time.Time{"k": old, "other": old2}, Z: 9}
			}
			got, want := reflect.New(reflect.TypeOf(prior)), reflect.New(reflect.TypeOf(prior))
			got.Elem().Set(model.DeepCopy(reflect.ValueOf(prior)))
			want.Elem().Set(model.DeepCopy(reflect.ValueOf(prior)))
			if err := cfg.Decode(want.Elem(), data); err != nil {
				rec.Count("partial_time_messages_the_reference_rejects", 1)
				break
			}
			err, pn := unmarshal(p, data, got.Interface())
			rec.Eval(1)
			what := []string{"neither part", "seconds only", "nanoseconds only", "both parts"}[parts]
			if err != nil || pn != "" {
				rec.Violation("merge", fmt.Sprintf("[%s] times written with %s (at %v) into a %s target are rejected: %v %s\n  bytes %s", name, what, where, shape, err, trunc1(pn), hexHead(data)), nil)
				return
			}
			if d := model.Diff(want.Elem(), got.Elem(), "$"); d != "" {
				rec.Violation("merge", fmt.Sprintf("[%s] times written with %s (at %v) into a %s target: a time present in the data does not replace the old one whole: %s\n  bytes %s\n  got  %s\n  want %s", name, what, where, shape, d, hexHead(data), model.Show(got.Elem()), model.Show(want.Elem())), nil)
				return
			}
			rec.Count("partial_time_decodes", 1)
			rec.NonTrivial(core.Hash64("partial", name, shape, fmt.Sprint(idx, round)))
		}
	}
}

// c10Keyless: map entries whose key field is left out (the key is the empty string: writers that
// omit default values do that) in second or later position, after an entry with a key, for the
// JSON object codec and for ordinary string-keyed maps, into nil, empty and populated targets.
func c10Keyless(c *core.Ctx, idx int) {
	rec := c.Rec
	r := c.Rand(idx)
	cfg := instCfgs()[(idx/17)%4]
	name := cfgName(cfg)
	p := instNew(cfg)
	T := reflect.TypeOf
	for round := 0; round < 12; round++ {
		mt := []reflect.Type{model.JSONMapT, T(map[string]int64(nil)), T(map[string]string(nil)), T(map[string]types.Leaf(nil)), model.JSONMapT}[r.IntN(5)]
		ht := reflect.StructOf([]reflect.StructField{{Name: "M", Type: mt, Tag: `plenc:"1"`}, {Name: "Z", Type: T(int8(0)), Tag: `plenc:"2"`}})
		if cfg.Validate(ht, "") != "" {
			continue
		}
		vg := &gen.VG{R: r, C: cfg, Budget: 12, ValidUTF8: true}
		one := func(key string, val reflect.Value) []byte {
			h := reflect.New(ht).Elem()
			m := reflect.MakeMap(mt)
			m.SetMapIndex(reflect.ValueOf(key), val)
			h.Field(0).Set(m)
			e := cfg.Encode(h)
			if len(e) < 3 || e[0] != 0x0b || e[1] != 0x01 || int(e[2]) != len(e)-3 || e[2] >= 0x80 {
				return nil
			}
			return e[2:]
		}
		val := func() reflect.Value {
			for {
				v := vg.Value(mt.Elem(), "")
				if mt.Elem().Kind() != reflect.Interface || !v.IsNil() {
					return v
				}
			}
		}
		n := 2 + r.IntN(3)
		keyless := 1 + r.IntN(n-1)
		var entries [][]byte
		for i := 0; i < n; i++ {
			key := []string{"a", "b", "key", "k" + fmt.Sprint(i)}[r.IntN(4)]
			if i == keyless {
				key = ""
			}
			e := one(key, val())
			if e == nil {
				entries = nil
				break
			}
			if i == keyless {
				// drop the (empty) key field: tag 0x0a, length 0
				if len(e) < 3 || e[1] != 0x0a || e[2] != 0x00 {
					entries = nil
					break
				}
				e = append([]byte{e[0] - 2}, e[3:]...)
			}
			entries = append(entries, e)
		}
		if entries == nil {
			continue
		}
		data := []byte{0x0b, byte(len(entries))}
		for _, e := range entries {
			data = append(data, e...)
		}
		data = append(data, 0x10, 0x02)
		for _, shape := range []string{"nil map", "empty map", "map that holds the empty key"} {
			prior := reflect.New(ht).Elem()
			switch shape {
			case "empty map":
				prior.Field(0).Set(reflect.MakeMap(mt))
			case "map that holds the empty key":
				m := reflect.MakeMap(mt)
				m.SetMapIndex(reflect.ValueOf(""), val())
				m.SetMapIndex(reflect.ValueOf("keep"), val())
				prior.Field(0).Set(m)
			}
			got, want := reflect.New(ht), reflect.New(ht)
			got.Elem().Set(model.DeepCopy(prior))
			want.Elem().Set(model.DeepCopy(prior))
			if err := cfg.Decode(want.Elem(), data); err != nil {
				rec.Count("keyless_messages_the_reference_rejects", 1)
				break
			}
			err, pn := unmarshal(p, data, got.Interface())
			rec.Eval(1)
			if err != nil || pn != "" {
				rec.Violation("merge", fmt.Sprintf("[%s] a map whose entry %d of %d has no key field is rejected (target: %s): %v %s\n  type %s\n  bytes %s", name, keyless+1, n, shape, err, trunc1(pn), typeString(ht), hexHead(data)), nil)
				return
			}
			if d := model.Diff(want.Elem(), got.Elem(), "$"); d != "" {
				rec.Violation("merge", fmt.Sprintf("[%s] a map whose entry %d of %d has no key field (the key is the empty string) decoded into a %s: %s\n  type %s\n  bytes %s\n  got  %s\n  want %s", name, keyless+1, n, shape, d, typeString(ht), hexHead(data), model.Show(got.Elem()), model.Show(want.Elem())), nil)
				return
			}
			rec.Count("keyless_entry_decodes", 1)
			rec.NonTrivial(core.Hash64("keyless", ht.String(), shape, fmt.Sprint(idx, round)))
		}
	}
}

func c10Case(c *core.Ctx, idx int) {
	if idx%31 == 7 {
		// a target that is one of plenc's own types: a Descriptor variable that was walked with and is
		// then decoded into again, with a descriptor of as many fields in another layout (round 12: k10)
		c13Foreign(c, idx)
		return
	}
	if idx%17 == 9 && c.Lane != "race" {
		c10Keyless(c, idx)
		return
	}
	if idx%13 == 6 && c.Lane != "race" {
		c10PartialTimes(c, idx)
		return
	}
	if idx%11 == 4 && c.Lane != "race" {
		c10DupKeys(c, idx)
		return
	}
	cfgs := instCfgs()
	cfg := cfgs[idx%4]
	p := instNew(cfg)
	name := cfgName(cfg)
	r := c.RandFor(idx, "types")
	tg := &gen.TG{R: r, C: cfg, Lib: true, Skipped: true}
	var typs []reflect.Type
	for len(typs) < 4 {
		t := tg.Top(3)
		if _, err := p.CodecForType(t); err != nil {
			c.Rec.Violation("valid-type-rejected", fmt.Sprintf("[%s] %v\n  type %s", name, err, typeString(t)), nil)
			return
		}
		typs = append(typs, t)
	}
	workers := 1
	if c.Lane == "race" {
		workers = 8
	}
	var wg sync.WaitGroup
	for w := 0; w < workers; w++ {
		wg.Add(1)
		go func(w int) {
			defer wg.Done()
			if pn := core.Guard(func() { c10History(c, idx, w, p, cfg, name, typs) }); pn != "" {
				c.Rec.Violation("panic", pn, nil)
			}
		}(w)
	}
	wg.Wait()
}

func init() {
	core.Register(&core.Prop{
		ID:        "C10",
		Technique: "history monitor: seeded Marshal/Unmarshal histories on one instance with re-used, pre-populated and stale-tailed targets compared with a reference decoder implementing the merge rules; fresh decodes re-issued along the history; race lane with 8 goroutines sharing the instance",
		Rule: "before every decode of a history the pointees of all pointer elements of the target's slices (stale elements up to the capacity included; only pointees nothing else in the target reaches) are recorded, after it they must be unchanged: a decoded slice holds new elements. every 31st case: a plenccodec.Descriptor variable that has been walked with is the target of decoding another stored descriptor (as many fields, other layout), four times in turn; what it renders afterwards is what the codec's own descriptor renders. a third of the operations of a history are preceded by two decodes of a damaged copy of the message (cut, bit flipped, continuation bit set) into throw-away targets, whatever they return. every 17th case decodes hand-assembled maps (JSON object codec, string-keyed maps) with an entry that has no key field in second or later position into nil, empty and populated targets; every 13th case decodes hand-assembled messages whose times lack the seconds, the nanoseconds or both parts (field, pointer, nested struct, pointer to struct, existing map key) into fresh and populated targets; every 11th case decodes hand-built maps that name one key 2-4 times into nil, empty and populated targets. Otherwise one history = one fresh Plenc instance, 4 generated types, 50 (thorough 100) operations: marshal a boundary-biased value, decode it into a target that is re-used from an earlier decode / filled with a generated prior / fresh, half of the time after shortening slices in place so their backing arrays keep stale elements; " +
			"the target is compared by value with model.Decode(prior, data); a quarter of the decodes are remembered as fresh-target decodes and re-issued later in the history, where they must give the identical result. distinct = (type, configuration, prior-shape, value-shape) hashes",
		Assume: []string{"model.Decode states the merge rules of the statement; pointer identity and backing-array identity are not part of the property and are not compared"},
		Plan: func(tier string) []core.Lane {
			if tier == "thorough" {
				return []core.Lane{{Lane: "plain", Cases: 120000, Shards: 16, TimeoutS: 7200}, {Lane: "race", Cases: 4000, Shards: 16, TimeoutS: 7200}, {Lane: "asan", Cases: 8000, Shards: 16, TimeoutS: 3600}}
			}
			return []core.Lane{{Lane: "plain", Cases: 4000, Shards: 16, TimeoutS: 1200}, {Lane: "race", Cases: 96, Shards: 16, TimeoutS: 1200}}
		},
		Case: c10Case,
	})
}
