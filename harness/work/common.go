package work

import (
	"fmt"
	"reflect"
	"sync"

	"github.com/philpearl/plenc"
	"github.com/unravelin/null"

	"verifharness/core"
	"verifharness/gen"
	"verifharness/inst"
	"verifharness/model"
)

// tcase is one generated (configuration, type) pair with its instance
type tcase struct {
	cfg  model.Cfg
	name string
	p    *plenc.Plenc
	typ  reflect.Type
}

// genType generates the type of case idx. depth 3, library types on.
func genType(c *core.Ctx, idx int, tweak func(*gen.TG)) *tcase {
	cfgs := inst.Cfgs()
	cfg := cfgs[idx%len(cfgs)]
	r := c.RandFor(idx, "type")
	tg := &gen.TG{R: r, C: cfg, Lib: true, Skipped: true, JSONTags: true}
	if idx%13 == 5 {
		// an instance on which time.Time itself has the BigQuery timestamp codec (a codec that embeds one
		// of the library's scalar codecs and overrides part of it), so that it is the element codec of
		// []time.Time and the value codec of maps, which carry no tag option (round 11: q02)
		tg.C.Plain = map[reflect.Type]model.Special{model.TimeT: model.SpBQTime}
	}
	if tweak != nil {
		tweak(tg)
	}
	t := tg.Top(3)
	if idx%91 == 5 && !tg.C.ProtoArrays && tg.C.Plain[model.TimeT] == model.SpBQTime {
		t = model.TimeT // the time itself at top level under the BigQuery codec (witness D34)
	}
	return &tcase{cfg: tg.C, name: inst.CfgName(tg.C), p: inst.New(tg.C), typ: t}
}

func typeString(t reflect.Type) string {
	s := t.String()
	if len(s) > 900 {
		s = s[:900] + "...(truncated)"
	}
	return s
}

func hexHead(b []byte) string {
	if len(b) > 200 {
		return fmt.Sprintf("%x...(%d bytes)", b[:200], len(b))
	}
	return fmt.Sprintf("%x", b)
}

// caseExtra describes a case for a replay file
func caseExtra(tc *tcase, v reflect.Value, data []byte) map[string]any {
	m := map[string]any{"config": tc.name, "type": typeString(tc.typ)}
	if v.IsValid() {
		m["value"] = model.Show(v)
	}
	if data != nil {
		m["bytes"] = hexHead(data)
	}
	return m
}

// ptrTo returns an addressable copy's pointer as interface
func ptrTo(v reflect.Value) any {
	if v.CanAddr() {
		return v.Addr().Interface()
	}
	p := reflect.New(v.Type())
	p.Elem().Set(v)
	return p.Interface()
}

// marshal calls the real Marshal under panic capture
func marshal(p *plenc.Plenc, buf []byte, arg any) (out []byte, err error, panicked string) {
	panicked = core.Guard(func() { out, err = p.Marshal(buf, arg) })
	return
}

// unmarshal calls the real Unmarshal under panic capture
func unmarshal(p *plenc.Plenc, data []byte, target any) (err error, panicked string) {
	panicked = core.Guard(func() { err = p.Unmarshal(data, target) })
	return
}

func noteShape(c *core.Ctx, tc *tcase, v reflect.Value) {
	h, nt := model.ShapeHash(v)
	h ^= core.Hash64(tc.typ.String(), tc.name)
	c.Rec.Distinct("shapes", h)
	if nt {
		c.Rec.NonTrivial(h)
	}
}

func newDefault() *plenc.Plenc {
	p := &plenc.Plenc{}
	p.RegisterDefaultCodecs()
	return p
}

func instCfgs() []model.Cfg            { return inst.Cfgs() }
func instNew(c model.Cfg) *plenc.Plenc { return inst.New(c) }
func cfgName(c model.Cfg) string       { return inst.CfgName(c) }

// isRecursive reports whether t reaches a library type without a finite Descriptor (D20)
func isRecursive(t reflect.Type) bool {
	return reachesRecursive(t, map[reflect.Type]bool{})
}

func reachesRecursive(t reflect.Type, seen map[reflect.Type]bool) bool {
	if seen[t] {
		return true
	}
	switch t.Kind() {
	case reflect.Ptr, reflect.Slice:
		return reachesRecursive(t.Elem(), seen)
	case reflect.Map:
		return reachesRecursive(t.Key(), seen) || reachesRecursive(t.Elem(), seen)
	case reflect.Struct:
		if t == model.TimeT {
			return false
		}
		seen[t] = true
		defer delete(seen, t)
		for i := 0; i < t.NumField(); i++ {
			if t.Field(i).IsExported() && t.Field(i).Tag.Get("plenc") != "-" && reachesRecursive(t.Field(i).Type, seen) {
				return true
			}
		}
	}
	return false
}

type (
	nullInt    = null.Int
	nullBool   = null.Bool
	nullFloat  = null.Float
	nullString = null.String
	nullTime   = null.Time
)

// mutateInPlace changes the scalars and strings of v where they are: the variable, its nested structs
// and the backing arrays of its slices keep their addresses and lengths. Used to find state that a
// codec keeps about a value between calls (size caches keyed by address and the like).
func mutateInPlace(v reflect.Value, vg *gen.VG, depth int) {
	if depth > 8 {
		return
	}
	t := v.Type()
	if t == model.TimeT || t.PkgPath() == model.NullIntT.PkgPath() {
		if v.CanSet() {
			v.Set(vg.Value(t, ""))
		}
		return
	}
	switch v.Kind() {
	case reflect.Ptr:
		if !v.IsNil() {
			mutateInPlace(v.Elem(), vg, depth+1)
		}
	case reflect.Struct:
		for _, f := range model.Fields(t) {
			fv := v.Field(f.GoIndex)
			switch fv.Kind() {
			case reflect.Ptr, reflect.Struct, reflect.Slice:
				mutateInPlace(fv, vg, depth+1)
			case reflect.Map, reflect.Interface:
			default:
				if fv.CanSet() {
					fv.Set(vg.Value(fv.Type(), f.Opt))
				}
			}
		}
	case reflect.Slice:
		if t.Elem().Kind() == reflect.Interface {
			return
		}
		for i := 0; i < v.Len(); i++ {
			e := v.Index(i)
			switch e.Kind() {
			case reflect.Ptr, reflect.Struct, reflect.Slice:
				mutateInPlace(e, vg, depth+1)
			case reflect.Map, reflect.Interface:
			default:
				e.Set(vg.Value(e.Type(), ""))
			}
		}
	}
}

// concurrentMarshals has g goroutines marshal the values on p at the same time, each starting at
// another value, by pointer and (byValue) by value, into nil and into a buffer the goroutine
// re-uses. Every result must be what the same call returned alone (refs). Returns the first
// difference.
func concurrentMarshals(p *plenc.Plenc, vals []reflect.Value, refs [][]byte, same func(i int, a, b []byte) bool, g, rounds int, byValue bool) string {
	var mu sync.Mutex
	var fail string
	var wg sync.WaitGroup
	start := make(chan struct{})
	for w := 0; w < g; w++ {
		wg.Add(1)
		go func(w int) {
			defer wg.Done()
			var reuse []byte
			<-start
			for k := 0; k < rounds*len(vals); k++ {
				i := (k + w*(len(vals)/g+1)) % len(vals)
				var arg any = ptrTo(vals[i])
				how := "by pointer"
				if byValue && k%2 == 1 {
					arg, how = vals[i].Interface(), "by value"
				}
				buf := []byte(nil)
				if k%3 == 2 {
					buf = reuse[:0]
				}
				out, err, pn := marshal(p, buf, arg)
				if err != nil || pn != "" || !same(i, out, refs[i]) {
					mu.Lock()
					if fail == "" {
						fail = fmt.Sprintf("goroutine %d of %d, Marshal %s of value %s: got %s (%v %s), alone the call returns %s", w, g, how, model.Show(vals[i]), hexHead(out), err, trunc1(pn), hexHead(refs[i]))
					}
					mu.Unlock()
					return
				}
				if buf != nil || reuse == nil {
					reuse = out
				}
			}
		}(w)
	}
	close(start)
	wg.Wait()
	return fail
}

// describe asks p for the Descriptor of t's codec (types with a finite descriptor only, known
// finding D20): a schema query is read-only - it must not change how the instance encodes or
// decodes afterwards
func describe(p *plenc.Plenc, t reflect.Type) {
	if isRecursive(t) {
		return
	}
	if cd, err := p.CodecForType(t); err == nil {
		core.Guard(func() { _ = cd.Descriptor() })
	}
}
