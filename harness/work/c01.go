package work

import (
	"bytes"
	"encoding/binary"
	"fmt"
	"math/rand/v2"
	"os"
	"path/filepath"
	"reflect"
	"runtime"
	"strconv"
	"strings"
	"time"
	"unsafe"

	"github.com/philpearl/plenc"
	"github.com/philpearl/plenc/plenccodec"
	"github.com/philpearl/plenc/plenccore"

	"verifharness/core"
	"verifharness/gen"
	"verifharness/model"
	"verifharness/mon"
	"verifharness/types"
)

// C01 (round trip) and C02 (wire format) share their workload: generated types
// x boundary-biased values x the four configurations, executed against the
// real Marshal/Unmarshal and compared with the independent model.

const (
	modeC01 = 1
	modeC02 = 2
)

func valuesPerType(c *core.Ctx) int {
	if c.Thorough() {
		return 40
	}
	return 24
}

// sharedInsts are long-lived instances, one per configuration and process: every case also runs
// through them, so that codecs built for earlier types (tagged and untagged uses of the same
// slice, map and named types in other structs) are in their registries. A violation seen only
// there depends on the history of the instance; its replay re-runs the shard up to the case.
var sharedInsts = map[string]*plenc.Plenc{}
var sharedEpoch = -1

// sharedTick retires the long-lived instances every 400 cases of a shard: their registries keep
// every codec ever built (a struct codec holds a table of largest index + 1 entries), which over
// the tens of thousands of types of a thorough run adds up to gigabytes per process. The epoch is
// a function of the case index, so a replay from the start of the shard meets the same instances.
func sharedTick(c *core.Ctx, idx int) {
	n := c.NShards
	if n < 1 {
		n = 1
	}
	if e := idx / n / 400; e != sharedEpoch {
		sharedEpoch = e
		sharedInsts = map[string]*plenc.Plenc{}
	}
}

func sharedInst(tc *tcase) *plenc.Plenc {
	p := sharedInsts[tc.name]
	if p == nil {
		p = instNew(tc.cfg)
		sharedInsts[tc.name] = p
	}
	return p
}

func historyExtra(c *core.Ctx, tc *tcase, v reflect.Value, data []byte) map[string]any {
	m := caseExtra(tc, v, data)
	m["replay_from_shard_start"] = true
	m["shard"], m["nshards"] = c.Shard, c.NShards
	return m
}

func roundTripCase(c *core.Ctx, idx int, mode int) {
	sharedTick(c, idx)
	sweep := idx%16 == 3 // (the index windows leave no gaps: no other special case takes their turn)
	if idx%509 == 9 && !sweep {
		bigContainers(c, idx, mode)
		return
	}
	if idx%37 == 11 && mode == modeC01 && !sweep {
		lateRegistration(c, idx)
		return
	}
	if idx%47 == 33 && !sweep {
		concurrentTagged(c, idx)
		return
	}
	if idx%43 == 21 && !sweep && mode == modeC01 {
		taggedElements(c, idx)
		return
	}
	if idx%41 == 13 && !sweep {
		cfg := instCfgs()[idx%4]
		countedContainers(c, idx, cfg, instNew(cfg))
		return
	}
	tc := genType(c, idx, nil)
	rec := c.Rec
	if idx%11 == 6 && tc.typ.Kind() != reflect.Map {
		// a struct whose only field of non-zero size is a pointer or a map: what Go keeps directly in an
		// interface word, and what Marshal therefore has to treat specially when it is passed by value
		if pt := pointerShaped(tc.typ, idx/11); tc.cfg.Validate(pt, "") == "" {
			tc.typ = pt
			rec.Count("pointer_shaped_types", 1)
		}
	}
	if sweep {
		// every field index in turn: consecutive windows of 24 indexes, from 0 up to the bound of D29,
		// each window with a low and a far field beside it (round 11: q01)
		if st := indexWindow(idx / 16); tc.cfg.Validate(st, "") == "" {
			tc.typ = st
			rec.Count("index_window_types", 1)
			rec.Count("indexes_swept", indexWindowWidth)
		}
	}
	var cerr error
	if p := core.Guard(func() { _, cerr = tc.p.CodecForType(tc.typ) }); p != "" {
		rec.Violation("codec-panic", fmt.Sprintf("CodecForType(%s) [%s] panicked: %s", typeString(tc.typ), tc.name, p), caseExtra(tc, reflect.Value{}, nil))
		return
	}
	if cerr != nil {
		rec.Violation("valid-type-rejected", fmt.Sprintf("CodecForType rejects a type the documented rules accept [%s]: %v\n  type %s", tc.name, cerr, typeString(tc.typ)), caseExtra(tc, reflect.Value{}, nil))
		return
	}
	rec.Count("types", 1)
	rec.Count("cfg_"+tc.name, 1)
	rv := c.RandFor(idx, "values")
	var prev []byte
	var last reflect.Value
	for j := 0; j < valuesPerType(c); j++ {
		vg := &gen.VG{R: rv, C: tc.cfg, Budget: 250}
		v := vg.Value(tc.typ, "")
		if j == 0 {
			v = reflect.New(tc.typ).Elem() // the zero value is always a case
		}
		rec.Eval(1)
		noteShape(c, tc, v)
		if j > 0 && len(prev) > 1 {
			// rejected decodes of damaged encodings of the previous value, on the instances the
			// next round trips use: a decode that fails half-way must leave nothing behind
			for k := 0; k < 2; k++ {
				if k == 0 && idx%5 == 1 && j%4 == 1 {
					sweepDamage(c, tc.p, tc.typ, prev)
					sweepDamage(c, sharedInst(tc), tc.typ, prev)
				}
				bad := damage(rv, prev)
				for _, p := range []*plenc.Plenc{tc.p, sharedInst(tc)} {
					junk := reflect.New(tc.typ)
					if err, pn := unmarshal(p, bad, junk.Interface()); err != nil || pn != "" {
						rec.Count("rejected_decodes_between_round_trips", 1)
					}
				}
			}
		}
		if j == 2 {
			describe(tc.p, tc.typ)
		}
		if j == 3 || j == 7 {
			// asking for the codec the type would have under a tag option is a question, not a setting
			opt := []string{"flat", "proto", "intern", "flattime"}[(idx+j)%4]
			core.Guard(func() { tc.p.CodecForTypeWithTag(tc.typ, opt) })
			core.Guard(func() { sharedInst(tc).CodecForTypeWithTag(tc.typ, opt) })
		}
		if j == 5 {
			describe(sharedInst(tc), tc.typ)
		}
		data, err, pn := marshal(tc.p, nil, ptrTo(v))
		if pn != "" {
			rec.Violation("marshal-panic", fmt.Sprintf("Marshal panicked [%s]: %s\n  type %s\n  value %s", tc.name, pn, typeString(tc.typ), model.Show(v)), caseExtra(tc, v, nil))
			return
		}
		if err != nil {
			rec.Violation("marshal-error", fmt.Sprintf("Marshal failed [%s]: %v\n  type %s\n  value %s", tc.name, err, typeString(tc.typ), model.Show(v)), caseExtra(tc, v, nil))
			return
		}
		if rec.WantSample() && len(data) > 4 && len(data) < 80 {
			rec.Sample(map[string]any{"config": tc.name, "type": typeString(tc.typ), "value": model.Show(v), "bytes": fmt.Sprintf("%x", data)})
		}
		// the same value through the long-lived instance of this configuration
		if j%4 == 1 && !model.HasMultiMap(v) {
			// passed by value, the value is the same value
			bv, err, pn := marshal(tc.p, nil, v.Interface())
			rec.Eval(1)
			if err != nil || pn != "" || !bytes.Equal(bv, data) {
				rec.Violation("round-trip", fmt.Sprintf("Marshal of the value passed by value gives other bytes than through a pointer [%s]: %v %s\n  type %s\n  value %s\n  by value   %s\n  by pointer %s", tc.name, err, trunc1(pn), typeString(tc.typ), model.Show(v), hexHead(bv), hexHead(data)), caseExtra(tc, v, data))
				return
			}
		}
		if sp := sharedInst(tc); j%3 == 0 {
			sd, err, pn := marshal(sp, nil, ptrTo(v))
			rec.Eval(1)
			ok := err == nil && pn == "" && (bytes.Equal(sd, data) || (model.HasMultiMap(v) && len(sd) == len(data)))
			if ok && mode == modeC01 {
				so := reflect.New(tc.typ)
				if err, pn := unmarshal(sp, sd, so.Interface()); err != nil || pn != "" || model.Diff(tc.cfg.Normalise(v, "", true), so.Elem(), "$") != "" {
					ok = false
				}
			}
			if !ok {
				rec.Violation("history-dependent", fmt.Sprintf("a long-lived instance that has built codecs for other types before handles this value differently from a fresh instance [%s]: %v %s\n  type %s\n  value %s\n  fresh instance %s\n  used instance  %s", tc.name, err, trunc1(pn), typeString(tc.typ), model.Show(v), hexHead(data), hexHead(sd)), historyExtra(c, tc, v, data))
				return
			}
		}
		prev, last = data, v
		if mode == modeC02 {
			checkWire(c, tc, v, data)
			continue
		}
		out := reflect.New(tc.typ)
		err, pn = unmarshal(tc.p, data, out.Interface())
		if pn != "" {
			rec.Violation("unmarshal-panic", fmt.Sprintf("Unmarshal panicked [%s]: %s\n  type %s\n  value %s\n  bytes %s", tc.name, pn, typeString(tc.typ), model.Show(v), hexHead(data)), caseExtra(tc, v, data))
			return
		}
		if err != nil {
			rec.Violation("unmarshal-error", fmt.Sprintf("Unmarshal of Marshal's own output failed [%s]: %v\n  type %s\n  value %s\n  bytes %s", tc.name, err, typeString(tc.typ), model.Show(v), hexHead(data)), caseExtra(tc, v, data))
			return
		}
		if j == 4 && idx%5 == 2 {
			// the decoded value is all that keeps its parts alive: a collection and fresh allocations of
			// the same small sizes in between must not change it
			gcChurn()
			rec.Count("compared_after_gc", 1)
		}
		want := tc.cfg.Normalise(v, "", true)
		if d := model.Diff(want, out.Elem(), "$"); d != "" {
			rec.Violation("round-trip", fmt.Sprintf("Unmarshal(Marshal(v)) differs from v beyond the documented normalisations [%s]: %s\n  type %s\n  value %s\n  got   %s\n  bytes %s", tc.name, d, typeString(tc.typ), model.Show(v), model.Show(out.Elem()), hexHead(data)), caseExtra(tc, v, data))
			return
		}
		if d := model.CheckUTC(out.Elem(), "$"); d != "" {
			rec.Violation("time-not-utc", fmt.Sprintf("[%s] %s\n  type %s", tc.name, d, typeString(tc.typ)), caseExtra(tc, v, data))
			return
		}
	}
	if idx%7 == 5 && tc.typ.Kind() == reflect.Struct && last.IsValid() {
		sizedBodies(c, idx, tc, last, mode)
	}
	if idx%5 == 3 && mode == modeC01 && last.IsValid() && !model.HasMultiMap(last) {
		lookAlikes(c, idx, tc, last)
	}
}

// setStrings sets every string below v (map keys excepted) to s and returns how many it set
// fix64Codec and lenU32Codec are codecs a caller registers under a tag name for built-in integer
// types; their wire types (fixed 64 bit, length-delimited) are not the one of the default codec
type fix64Codec struct{}

func (fix64Codec) Omit(ptr unsafe.Pointer) bool { return *(*int64)(ptr) == 0 }
func (fix64Codec) WireType() plenccore.WireType { return plenccore.WT64 }
func (fix64Codec) Descriptor() plenccodec.Descriptor {
	return plenccodec.Descriptor{Type: plenccodec.FieldTypeInt}
}
func (fix64Codec) New() unsafe.Pointer                     { return unsafe.Pointer(new(int64)) }
func (fix64Codec) Size(ptr unsafe.Pointer, tag []byte) int { return len(tag) + 8 }
func (fix64Codec) Append(data []byte, ptr unsafe.Pointer, tag []byte) []byte {
	return binary.LittleEndian.AppendUint64(append(data, tag...), uint64(*(*int64)(ptr)))
}
func (fix64Codec) Read(data []byte, ptr unsafe.Pointer, wt plenccore.WireType) (int, error) {
	if len(data) < 8 {
		return 0, fmt.Errorf("fix64: %d bytes", len(data))
	}
	*(*int64)(ptr) = int64(binary.LittleEndian.Uint64(data))
	return 8, nil
}

type lenU32Codec struct{}

func (lenU32Codec) Omit(ptr unsafe.Pointer) bool { return *(*uint32)(ptr) == 0 }
func (lenU32Codec) WireType() plenccore.WireType { return plenccore.WTLength }
func (lenU32Codec) Descriptor() plenccodec.Descriptor {
	return plenccodec.Descriptor{Type: plenccodec.FieldTypeString}
}
func (lenU32Codec) New() unsafe.Pointer { return unsafe.Pointer(new(uint32)) }
func (lenU32Codec) text(ptr unsafe.Pointer) string {
	return strconv.FormatUint(uint64(*(*uint32)(ptr)), 10)
}
func (c lenU32Codec) Size(ptr unsafe.Pointer, tag []byte) int {
	l := len(c.text(ptr))
	if len(tag) != 0 {
		l += len(tag) + plenccore.SizeVarUint(uint64(l))
	}
	return l
}
func (c lenU32Codec) Append(data []byte, ptr unsafe.Pointer, tag []byte) []byte {
	t := c.text(ptr)
	if len(tag) != 0 {
		data = plenccore.AppendVarUint(append(data, tag...), uint64(len(t)))
	}
	return append(data, t...)
}
func (lenU32Codec) Read(data []byte, ptr unsafe.Pointer, wt plenccore.WireType) (int, error) {
	v, err := strconv.ParseUint(string(data), 10, 32)
	if err != nil {
		return 0, err
	}
	*(*uint32)(ptr) = uint32(v)
	return len(data), nil
}

// taggedElements: codecs registered under a tag name for int64 and uint32, of another wire type
// than the default ones, and struct types that carry the tag on plain fields, on pointers and on
// SLICES of those types (where the documentation promises nothing about the tag, but the type
// is accepted): whatever the bytes are, the values come back (round 12: k01)
func taggedElements(c *core.Ctx, idx int) {
	rec := c.Rec
	r := c.Rand(idx)
	cfg := instCfgs()[idx%4]
	p := instNew(cfg)
	T := reflect.TypeOf
	p.RegisterCodecWithTag(T(int64(0)), "fixed", fix64Codec{})
	p.RegisterCodecWithTag(T(uint32(0)), "text", lenU32Codec{})
	i64, u32 := T(int64(0)), T(uint32(0))
	for round := 0; round < 4; round++ {
		var fs []reflect.StructField
		add := func(t reflect.Type, opt string) {
			tag := fmt.Sprintf(`plenc:"%d"`, len(fs)+1)
			if opt != "" {
				tag = fmt.Sprintf(`plenc:"%d,%s"`, len(fs)+1, opt)
			}
			fs = append(fs, reflect.StructField{Name: fmt.Sprintf("F%d", len(fs)), Type: t, Tag: reflect.StructTag(tag)})
		}
		for _, pair := range []struct {
			t   reflect.Type
			opt string
		}{{i64, "fixed"}, {u32, "text"}} {
			shapes := []reflect.Type{pair.t, reflect.PointerTo(pair.t), reflect.SliceOf(pair.t), reflect.SliceOf(reflect.PointerTo(pair.t)), reflect.SliceOf(reflect.SliceOf(pair.t))}
			r.Shuffle(len(shapes), func(i, j int) { shapes[i], shapes[j] = shapes[j], shapes[i] })
			for _, sh := range shapes[:2+r.IntN(4)] {
				add(sh, pair.opt)
				if r.IntN(2) == 0 {
					add(sh, "")
				}
			}
		}
		st := reflect.StructOf(fs)
		if _, err := p.CodecForType(st); err != nil {
			rec.Count("tagged_element_types_turned_away", 1)
			continue
		}
		for j := 0; j < 3; j++ {
			v := reflect.New(st)
			fillPresent(v.Elem(), r)
			data, err, pn := marshal(p, nil, v.Interface())
			rec.Eval(1)
			desc := func() string {
				return fmt.Sprintf("[%s] codecs registered under tag names for int64 (fixed 64 bit) and uint32 (decimal text)\n  type %s\n  value %s\n  bytes %s", cfgName(cfg), typeString(st), model.Show(v.Elem()), hexHead(data))
			}
			if err != nil || pn != "" {
				rec.Violation("marshal-error", fmt.Sprintf("%v %s %s", err, trunc1(pn), desc()), nil)
				return
			}
			out := reflect.New(st)
			if err, pn := unmarshal(p, data, out.Interface()); err != nil || pn != "" {
				rec.Violation("unmarshal-error", fmt.Sprintf("%v %s %s", err, trunc1(pn), desc()), nil)
				return
			}
			if !reflect.DeepEqual(v.Elem().Interface(), out.Elem().Interface()) {
				rec.Violation("round-trip", fmt.Sprintf("Unmarshal(Marshal(v)) differs from v: got %s %s", model.Show(out.Elem()), desc()), nil)
				return
			}
			rec.Count("tagged_element_round_trips", 1)
		}
	}
	rec.NonTrivial(core.Hash64("tagged-elements", fmt.Sprint(idx)))
}

// concurrentTagged: on an instance that has built nothing yet one goroutine asks for the codec of a
// top-level type under a tag option (proto, flat) at the moment another marshals a value of the
// type, which uses no tag option. Each gets what it gets when it is alone: the documented bytes
// for the value, the codec kind of the option for the request (round 12: k02). The yield hooks in
// the codec lookup widen the window.
func concurrentTagged(c *core.Ctx, idx int) {
	rec := c.Rec
	r := c.Rand(idx)
	cfg := instCfgs()[(idx%2)*2] // (without ProtoCompatibleArrays: top-level slices have no repeated form, D25)
	T := reflect.TypeOf
	leaf := reflect.StructOf([]reflect.StructField{{Name: "A", Type: T(int8(0)), Tag: `plenc:"1"`}, {Name: "B", Type: T(""), Tag: `plenc:"2"`}})
	cases := []struct {
		t   reflect.Type
		tag string
	}{{T([]string(nil)), "proto"}, {reflect.SliceOf(leaf), "proto"}, {T(map[string]int32(nil)), "proto"}, {T(types.MyInt(0)), "flat"}, {T(types.MyInt32(0)), "flat"}, {T([]time.Time(nil)), "proto"}, {T([][]byte(nil)), "proto"}, {T(int64(0)), "flat"}}
	ref := instNew(cfg)
	prev := c07YieldMode
	defer func() { c07YieldMode = prev }()
	for trial := 0; trial < 60; trial++ {
		cs := cases[r.IntN(len(cases))]
		v := (&gen.VG{R: r, C: cfg, Budget: 30}).Value(cs.t, "")
		for v.IsZero() || model.HasMultiMap(v) {
			v = (&gen.VG{R: r, C: cfg, Budget: 30}).Value(cs.t, "")
		}
		want := cfg.Encode(v)
		rc, rerr := ref.CodecForTypeWithTag(cs.t, cs.tag)
		wantKind := fmt.Sprintf("%T", rc)
		if rerr != nil {
			continue
		}
		p := instNew(cfg)
		c07YieldMode = 1
		var got []byte
		var merr error
		var mpn, cpn, gotKind string
		var cerr error
		start := make(chan struct{})
		done := make(chan struct{}, 2)
		order := r.IntN(2)
		go func() {
			defer func() { done <- struct{}{} }()
			<-start
			if order == 0 {
				mon.Jitter(0)
			}
			got, merr, mpn = marshal(p, nil, ptrTo(v))
		}()
		go func() {
			defer func() { done <- struct{}{} }()
			<-start
			if order == 1 {
				mon.Jitter(0)
			}
			cpn = core.Guard(func() {
				var cd plenccodec.Codec
				cd, cerr = p.CodecForTypeWithTag(cs.t, cs.tag)
				gotKind = fmt.Sprintf("%T", cd)
			})
		}()
		close(start)
		<-done
		<-done
		c07YieldMode = 0
		rec.Eval(2)
		desc := fmt.Sprintf("[%s] on a new instance, Marshal of a %s at the same moment as CodecForTypeWithTag(%s, %q)", cfgName(cfg), cs.t, cs.t, cs.tag)
		if merr != nil || mpn != "" || !bytes.Equal(got, want) {
			rec.Violation("wire-format", fmt.Sprintf("%s: Marshal gives %s (%v %s), the documented encoding is %s\n  value %s", desc, hexHead(got), merr, trunc1(mpn), hexHead(want), model.Show(v)), nil)
			return
		}
		if cerr != nil || cpn != "" || gotKind != wantKind {
			rec.Violation("wire-format", fmt.Sprintf("%s: the request gives a %s (%v %s), alone it gives a %s", desc, gotKind, cerr, trunc1(cpn), wantKind), nil)
			return
		}
		// and afterwards both keys hold what they should
		again, err, pn := marshal(p, nil, ptrTo(v))
		if err != nil || pn != "" || !bytes.Equal(again, want) {
			rec.Violation("wire-format", fmt.Sprintf("%s: afterwards Marshal gives %s (%v %s), the documented encoding is %s", desc, hexHead(again), err, trunc1(pn), hexHead(want)), nil)
			return
		}
		rec.Count("concurrent_tagged_first_uses", 1)
	}
	rec.NonTrivial(core.Hash64("concurrent-tagged", fmt.Sprint(idx)))
}

const indexWindowWidth = 24

// indexWindow builds a struct with a field at every index of the w-th window of indexWindowWidth
// consecutive indexes (windows wrap at the bound known finding D29 sets), field types in turn, plus a
// field at index 1 or 0 and one far above the window
func indexWindow(w int) reflect.Type {
	T := reflect.TypeOf
	leaf := reflect.StructOf([]reflect.StructField{{Name: "A", Type: T(int8(0)), Tag: `plenc:"1"`}, {Name: "B", Type: T(""), Tag: `plenc:"2"`}})
	kinds := []reflect.Type{T(int(0)), T(""), T([]int32(nil)), T((*int16)(nil)), leaf, T(float64(0)), T(true), T([]string(nil)), T(map[string]int(nil)), T(uint64(0)), reflect.PointerTo(leaf), T([]byte(nil)), T(float32(0)), reflect.SliceOf(leaf), T(uint8(0)), T((*string)(nil)), T(time.Time{})}
	base := (w * indexWindowWidth) % (100000 - indexWindowWidth - 1)
	var fs []reflect.StructField
	order := rand.New(rand.NewPCG(uint64(w), 77)).Perm(indexWindowWidth)
	for _, i := range order {
		t := kinds[(w+i)%len(kinds)]
		tag := fmt.Sprintf(`plenc:"%d"`, base+i)
		if k := t.Kind(); k == reflect.Int && (w+i)%2 == 0 {
			tag = fmt.Sprintf(`plenc:"%d,flat"`, base+i)
		} else if k == reflect.String && (w+i)%3 == 0 {
			tag = fmt.Sprintf(`plenc:"%d,intern"`, base+i)
		}
		fs = append(fs, reflect.StructField{Name: fmt.Sprintf("F%d", i), Type: t, Tag: reflect.StructTag(tag)})
	}
	if base > 1 {
		fs = append(fs, reflect.StructField{Name: "Low", Type: T(""), Tag: reflect.StructTag(fmt.Sprintf(`plenc:"%d"`, w%2))})
	}
	far := base + indexWindowWidth + []int{1, 2, 100, 1000, 4096, 30000}[w%6]
	if far > 100000 {
		far = 100000
	}
	fs = append(fs, reflect.StructField{Name: "Far", Type: T(int32(0)), Tag: reflect.StructTag(fmt.Sprintf(`plenc:"%d"`, far))})
	return reflect.StructOf(fs)
}

func setStrings(v reflect.Value, s string, depth int) int {
	if depth > 10 {
		return 0
	}
	n := 0
	switch v.Kind() {
	case reflect.String:
		if v.CanSet() {
			v.SetString(s)
			n++
		}
	case reflect.Ptr:
		if !v.IsNil() {
			n += setStrings(v.Elem(), s, depth+1)
		}
	case reflect.Struct:
		if v.Type() == model.TimeT {
			return 0
		}
		for i := 0; i < v.NumField(); i++ {
			if v.Type().Field(i).IsExported() {
				n += setStrings(v.Field(i), s, depth+1)
			}
		}
	case reflect.Slice:
		for i := 0; i < v.Len(); i++ {
			n += setStrings(v.Index(i), s, depth+1)
		}
	case reflect.Map:
		for _, k := range v.MapKeys() {
			e := reflect.New(v.Type().Elem()).Elem()
			e.Set(v.MapIndex(k))
			if m := setStrings(e, s, depth+1); m > 0 {
				v.SetMapIndex(k, e)
				n += m
			}
		}
	}
	return n
}

// lookAlikes round-trips two copies of a value whose strings are all one or the other of two
// strings of equal length that the usual 32-bit hashes and checksums cannot tell apart, one after
// the other on the same instances: whatever a codec remembers about the first must not stand in
// for the second.
func lookAlikes(c *core.Ctx, idx int, tc *tcase, v reflect.Value) {
	rec := c.Rec
	pairs := c19CollisionsOnce()
	if len(pairs) == 0 {
		return
	}
	for k := 0; k < 3; k++ {
		pair := pairs[(idx/5+k)%len(pairs)]
		for _, p := range []*plenc.Plenc{tc.p, sharedInst(tc)} {
			for _, s := range pair {
				w := reflect.New(tc.typ).Elem()
				w.Set(model.DeepCopy(v))
				if setStrings(w, s, 0) == 0 {
					return
				}
				data, err, pn := marshal(p, nil, ptrTo(w))
				out := reflect.New(tc.typ)
				if err == nil && pn == "" {
					err, pn = unmarshal(p, data, out.Interface())
				}
				rec.Eval(1)
				if err != nil || pn != "" {
					rec.Violation("round-trip", fmt.Sprintf("[%s] round trip of a value whose strings are all %q failed: %v %s\n  type %s", tc.name, s, err, trunc1(pn), typeString(tc.typ)), caseExtra(tc, w, data))
					return
				}
				if d := model.Diff(tc.cfg.Normalise(w, "", true), out.Elem(), "$"); d != "" {
					rec.Violation("round-trip", fmt.Sprintf("Unmarshal(Marshal(v)) differs from v [%s] for the second of two values whose strings (%q, %q) have equal length and equal 32-bit hashes: %s\n  type %s\n  value %s\n  got   %s", tc.name, pair[0], pair[1], d, typeString(tc.typ), model.Show(w), model.Show(out.Elem())), caseExtra(tc, w, data))
					return
				}
			}
		}
	}
	rec.Count("look_alike_string_round_trips", 1)
}

// sizedBodies pads a string or []byte field of struct value v until v's encoding is exactly b-12..b+1
// bytes long for b = 128 and 16384 (the edges of the 1-, 2- and 3-byte length prefixes; the
// thorough tier adds 2^21 now and then) and nests the value as a field, pointer target, slice
// element and map value of a struct that is itself a field of an outer struct, so that length
// prefixes of exactly boundary size are written and read for the body and for the frames around it
// at every kind of nesting.
func sizedBodies(c *core.Ctx, idx int, tc *tcase, v reflect.Value, mode int) {
	rec := c.Rec
	var fld *model.FieldInfo
	for _, f := range model.Fields(tc.typ) {
		if (f.Type.Kind() == reflect.String && f.Type.PkgPath() == "") || f.Type == model.BytesT {
			f := f
			fld = &f
			break
		}
	}
	if fld == nil || tc.cfg.Validate(tc.typ, "") != "" {
		return
	}
	nv := reflect.New(tc.typ).Elem()
	nv.Set(model.DeepCopy(v))
	set := func(n int) {
		if fld.Type.Kind() == reflect.String {
			nv.Field(fld.GoIndex).SetString(strings.Repeat("s", n))
		} else {
			nv.Field(fld.GoIndex).SetBytes(bytes.Repeat([]byte{'b'}, n))
		}
	}
	// the body sizes around each boundary, so that the frames around the body (map entry, element,
	// the enclosing struct with its other fields) land on the boundary as well
	var targets []int
	for _, b := range []int{128, 16384} {
		for d := -12; d <= 1; d++ {
			targets = append(targets, b+d)
		}
	}
	if c.Thorough() && idx%257 == 5 {
		// (a modulus coprime to the shard count, and few sizes: each of these costs megabytes)
		for d := -2; d <= 1; d++ {
			targets = append(targets, 1<<21+d)
		}
	}
	sf := func(name string, t reflect.Type, tag string) reflect.StructField {
		return reflect.StructField{Name: name, Type: t, Tag: reflect.StructTag(tag)}
	}
	for _, target := range targets {
		set(0)
		l := len(tc.cfg.Encode(nv))
		n := target - l
		for it := 0; it < 5 && n >= 0 && l != target; it++ {
			set(n)
			l = len(tc.cfg.Encode(nv))
			n -= l - target
		}
		if l != target {
			continue
		}
		one := reflect.MakeSlice(reflect.SliceOf(tc.typ), 2, 2)
		one.Index(0).Set(nv)
		m := reflect.MakeMap(reflect.MapOf(reflect.TypeOf(""), tc.typ))
		m.SetMapIndex(reflect.ValueOf("k"), nv)
		ptr := reflect.New(tc.typ)
		ptr.Elem().Set(nv)
		for _, w := range []struct {
			name string
			f    reflect.StructField
			val  reflect.Value
		}{
			{"struct field", sf("X", tc.typ, `plenc:"1"`), nv},
			{"pointer target", sf("X", ptr.Type(), `plenc:"2"`), ptr},
			{"slice element", sf("X", one.Type(), `plenc:"3"`), one},
			{"map value", sf("X", m.Type(), `plenc:"4"`), m},
			{"proto map value", sf("X", m.Type(), `plenc:"5,proto"`), m},
		} {
			wt := reflect.StructOf([]reflect.StructField{sf("A", reflect.TypeOf(int32(0)), `plenc:"9"`), w.f, sf("Z", reflect.TypeOf(""), `plenc:"16"`)})
			if tc.cfg.Validate(wt, "") != "" {
				continue
			}
			iv := reflect.New(wt).Elem()
			iv.Field(1).Set(w.val)
			if target%2 == 0 {
				iv.Field(0).SetInt(-1)
				iv.Field(2).SetString("end")
			}
			// once more inside an outer struct: the size the wrapper reports becomes a length prefix
			wt = reflect.StructOf([]reflect.StructField{sf("I", wt, `plenc:"1"`), sf("J", reflect.TypeOf(false), `plenc:"2"`)})
			wv := reflect.New(wt).Elem()
			wv.Field(0).Set(iv)
			wv.Field(1).SetBool(true)
			what := fmt.Sprintf("a %d-byte body nested as %s [%s]\n  body type %s", target, w.name, tc.name, typeString(tc.typ))
			data, err, pn := marshal(tc.p, nil, ptrTo(wv))
			rec.Eval(1)
			if err != nil || pn != "" {
				rec.Violation("sized-body", fmt.Sprintf("Marshal of %s: %v %s", what, err, trunc1(pn)), caseExtra(tc, reflect.Value{}, nil))
				return
			}
			want := tc.cfg.Encode(wv)
			same := bytes.Equal(data, want)
			if !same && model.HasMultiMap(wv) && len(data) == len(want) {
				cg, e1 := tc.cfg.Canon(wt, "", data)
				cw, e2 := tc.cfg.Canon(wt, "", want)
				same = e1 == nil && e2 == nil && bytes.Equal(cg, cw)
			}
			if !same {
				k := 0
				for k < len(data) && k < len(want) && data[k] == want[k] {
					k++
				}
				rec.Violation("sized-body", fmt.Sprintf("the encoding of %s differs from the documented format at byte %d: got ...%s (%d bytes), want ...%s (%d bytes)", what, k, hexHead(data[max(0, k-4):min(len(data), k+12)]), len(data), hexHead(want[max(0, k-4):min(len(want), k+12)]), len(want)), caseExtra(tc, reflect.Value{}, nil))
				return
			}
			out := reflect.New(wt)
			if err, pn := unmarshal(tc.p, data, out.Interface()); err != nil || pn != "" {
				rec.Violation("sized-body", fmt.Sprintf("Unmarshal of %s: %v %s", what, err, trunc1(pn)), caseExtra(tc, reflect.Value{}, nil))
				return
			}
			if d := model.Diff(tc.cfg.Normalise(wv, "", true), out.Elem(), "$"); d != "" {
				rec.Violation("sized-body", fmt.Sprintf("%s does not round-trip: %s", what, d), caseExtra(tc, reflect.Value{}, nil))
				return
			}
			rec.Count("sized_bodies", 1)
			rec.Distinct("sized_body_kinds", core.Hash64(fmt.Sprint(target), w.name))
		}
	}
}

// countedContainers: slices and maps with exactly 127, 128, 129, 16383 and 16384 entries (the edges
// of the 1- and 2-byte counts) of small elements, as plain and as proto-tagged fields of a struct
// that is itself a field of an outer struct - so that whatever the codec reports as the size of
// such a container becomes a length prefix - compared with the documented bytes and round-tripped.
func countedContainers(c *core.Ctx, idx int, cfg model.Cfg, p *plenc.Plenc) bool {
	rec := c.Rec
	name := cfgName(cfg)
	T := reflect.TypeOf
	n := []int{127, 128, 129, 16383, 16384, 255, 256}[(idx/7)%7]
	mk := []func() reflect.Value{
		func() reflect.Value {
			m := make(map[int32]string, n)
			for i := 0; i < n; i++ {
				m[int32(i)] = "v"
			}
			return reflect.ValueOf(m)
		},
		func() reflect.Value {
			m := make(map[string]types.Leaf, n)
			for i := 0; i < n; i++ {
				m[strconv.Itoa(i)] = types.Leaf{A: i}
			}
			return reflect.ValueOf(m)
		},
		func() reflect.Value {
			s := make([]string, n)
			for i := range s {
				s[i] = "e"
			}
			return reflect.ValueOf(s)
		},
		func() reflect.Value { return reflect.ValueOf(make([]types.Leaf, n)) },
		func() reflect.Value {
			s := make([]int64, n)
			for i := range s {
				s[i] = int64(i)
			}
			return reflect.ValueOf(s)
		},
		func() reflect.Value { return reflect.ValueOf(make([]bool, n)) },
	}
	val := mk[idx%len(mk)]()
	for _, opt := range []string{"", ",proto"} {
		ht := reflect.StructOf([]reflect.StructField{{Name: "X", Type: val.Type(), Tag: reflect.StructTag(`plenc:"2` + opt + `"`)}, {Name: "Z", Type: T(""), Tag: `plenc:"3"`}})
		ot := reflect.StructOf([]reflect.StructField{{Name: "H", Type: ht, Tag: `plenc:"1"`}, {Name: "E", Type: T(int8(0)), Tag: `plenc:"2"`}, {Name: "L", Type: reflect.SliceOf(ht), Tag: `plenc:"3"`}})
		if cfg.Validate(ot, "") != "" {
			continue
		}
		hv := reflect.New(ht).Elem()
		hv.Field(0).Set(val)
		hv.Field(1).SetString("z")
		ov := reflect.New(ot).Elem()
		ov.Field(0).Set(hv)
		ov.Field(1).SetInt(-1)
		l := reflect.MakeSlice(ot.Field(2).Type, 2, 2)
		l.Index(1).Set(hv)
		ov.Field(2).Set(l)
		what := fmt.Sprintf("%s with exactly %d entries in a field tagged `2%s` of a nested struct [%s]", val.Type(), n, opt, name)
		data, err, pn := marshal(p, nil, ptrTo(ov))
		rec.Eval(1)
		if err != nil || pn != "" {
			rec.Violation("counted-container", fmt.Sprintf("Marshal of %s: %v %s", what, err, trunc1(pn)), nil)
			return false
		}
		if _, err := cfg.Canon(ot, "", data); err != nil {
			rec.Violation("counted-container", fmt.Sprintf("the encoding of %s cannot be walked to its end (a size that disagrees with the bytes written becomes a wrong length prefix): %v", what, err), nil)
			return false
		}
		if val.Kind() != reflect.Map {
			if want := cfg.Encode(ov); !bytes.Equal(data, want) {
				rec.Violation("counted-container", fmt.Sprintf("the encoding of %s differs from the documented format (%d vs %d bytes)", what, len(data), len(want)), nil)
				return false
			}
		}
		out := reflect.New(ot)
		if err, pn := unmarshal(p, data, out.Interface()); err != nil || pn != "" {
			rec.Violation("counted-container", fmt.Sprintf("Unmarshal of %s: %v %s", what, err, trunc1(pn)), nil)
			return false
		}
		if d := model.Diff(cfg.Normalise(ov, "", true), out.Elem(), "$"); d != "" {
			rec.Violation("counted-container", fmt.Sprintf("%s does not round-trip: %s", what, d), nil)
			return false
		}
		rec.Count("counted_containers", 1)
		rec.NonTrivial(core.Hash64("counted", val.Type().String(), opt, fmt.Sprint(n), name))
	}
	return true
}

// lateRegistration: a codec is registered for a type the instance has already used at top level (the
// BigQuery codec for time.Time, the flat codec for uint64); values marshalled afterwards still come
// back through Unmarshal, with other top-level types used in between.
func lateRegistration(c *core.Ctx, idx int) {
	rec := c.Rec
	r := c.Rand(idx)
	cfg := instCfgs()[idx%4]
	p := instNew(cfg)
	name := cfgName(cfg)
	type step struct {
		typ reflect.Type
		reg func()
		how string
	}
	steps := []step{
		{model.TimeT, func() { p.RegisterCodec(model.TimeT, plenccodec.BQTimestampCodec{}) }, "RegisterCodec(time.Time, BQTimestampCodec)"},
		{reflect.TypeOf(uint64(0)), func() { p.RegisterCodecWithTag(reflect.TypeOf(uint64(0)), "", plenccodec.FlatIntCodec[uint64]{}) }, `RegisterCodecWithTag(uint64, "", FlatIntCodec)`},
	}
	st := steps[(idx/4)%2]
	vg := &gen.VG{R: r, C: cfg, Budget: 20, Finite: true}
	value := func() reflect.Value {
		v := vg.Value(st.typ, "")
		if st.typ == model.TimeT {
			// the BigQuery codec keeps microseconds and has no encoding for the zero time
			t := time.UnixMicro(v.Interface().(time.Time).UnixMicro()).UTC()
			for t.IsZero() {
				t = time.UnixMicro(vg.Value(st.typ, "").Interface().(time.Time).UnixMicro()).UTC()
			}
			v = reflect.ValueOf(t)
		}
		return v
	}
	roundTrip := func(when string, between bool) bool {
		v := value()
		data, err, pn := marshal(p, nil, ptrTo(v))
		if err != nil || pn != "" {
			rec.Violation("late-registration", fmt.Sprintf("[%s] %s: Marshal %v %s", name, when, err, pn), nil)
			return false
		}
		if between {
			s := "another top-level type"
			marshal(p, nil, &s)
			var n int32
			unmarshal(p, []byte{0x02}, &n)
		}
		out := reflect.New(st.typ)
		if err, pn := unmarshal(p, data, out.Interface()); err != nil || pn != "" {
			rec.Violation("late-registration", fmt.Sprintf("[%s] %s: Unmarshal of Marshal's output fails: %v %s\n  value %s\n  bytes %s", name, when, err, pn, model.Show(v), hexHead(data)), nil)
			return false
		}
		rec.Eval(1)
		if d := model.Diff(cfg.Normalise(v, "", true), out.Elem(), "$"); d != "" {
			rec.Violation("late-registration", fmt.Sprintf("[%s] %s: Unmarshal(Marshal(v)) differs from v: %s\n  value %s\n  bytes %s", name, when, d, model.Show(v), hexHead(data)), nil)
			return false
		}
		return true
	}
	for i := 0; i < 3; i++ {
		if !roundTrip("before any registration", i == 1) {
			return
		}
	}
	st.reg()
	for i := 0; i < 4; i++ {
		if !roundTrip("after "+st.how+" for a type that was already used at top level", i%2 == 0) {
			return
		}
	}
	rec.Count("late_registrations", 1)
	rec.NonTrivial(core.Hash64("late", st.how, name, fmt.Sprint(idx)))
}

type bigElem struct {
	A int32  `plenc:"1"`
	B string `plenc:"2"`
}

// bigContainers round-trips containers with 70 thousand to 1.2 million entries of every element
// family (the decoders grow, pre-size and cap their allocations by rules of their own, none of
// which a few dozen elements ever reach), as a plain and as a proto-tagged field.
func bigContainers(c *core.Ctx, idx int, mode int) {
	rec := c.Rec
	k := idx / 509
	fam := k % 7
	n := []int{600011, 1200017, 300007, 70001}[(k/7)%4]
	cfg := instCfgs()[k%4]
	var val reflect.Value
	switch fam {
	case 0:
		s := make([]string, n)
		for i := range s {
			s[i] = strconv.Itoa(i)
		}
		val = reflect.ValueOf(s)
	case 1:
		s := make([]bigElem, n)
		for i := range s {
			s[i] = bigElem{A: int32(i), B: "e"}
		}
		val = reflect.ValueOf(s)
	case 2:
		s := make([]*bigElem, n)
		for i := range s {
			s[i] = &bigElem{A: int32(i + 1)}
		}
		val = reflect.ValueOf(s)
	case 3:
		s := make([][]byte, n)
		for i := range s {
			s[i] = []byte{byte(i), byte(i >> 8), byte(i >> 16), 0x80}
		}
		val = reflect.ValueOf(s)
	case 4:
		s := make([]time.Time, n)
		for i := range s {
			s[i] = time.Unix(int64(i), int64(i%1000)).UTC()
		}
		val = reflect.ValueOf(s)
	case 5:
		s := make([][]int32, n)
		for i := range s {
			s[i] = []int32{int32(i), -1}
		}
		val = reflect.ValueOf(s)
	default:
		m := make(map[int32]string, n)
		for i := 0; i < n; i++ {
			m[int32(i)] = "v"
		}
		val = reflect.ValueOf(m)
	}
	for _, opt := range []string{"", ",proto"} {
		ht := reflect.StructOf([]reflect.StructField{{Name: "N", Type: reflect.TypeOf(int32(0)), Tag: `plenc:"1"`}, {Name: "X", Type: val.Type(), Tag: reflect.StructTag(`plenc:"2` + opt + `"`)}, {Name: "Z", Type: reflect.TypeOf(""), Tag: `plenc:"3"`}})
		if cfg.Validate(ht, "") != "" {
			continue
		}
		hv := reflect.New(ht).Elem()
		hv.Field(0).SetInt(7)
		hv.Field(1).Set(val)
		hv.Field(2).SetString("end")
		p := instNew(cfg)
		what := fmt.Sprintf("%s with %d entries in a field tagged `2%s` [%s]", val.Type(), n, opt, cfgName(cfg))
		data, err, pn := marshal(p, nil, hv.Addr().Interface())
		rec.Eval(1)
		if err != nil || pn != "" {
			rec.Violation("big-container", fmt.Sprintf("Marshal of %s: %v %s", what, err, trunc1(pn)), nil)
			return
		}
		if mode == modeC02 && val.Kind() != reflect.Map {
			if want := cfg.Encode(hv); !bytes.Equal(data, want) {
				k := 0
				for k < len(data) && k < len(want) && data[k] == want[k] {
					k++
				}
				rec.Violation("big-container", fmt.Sprintf("the encoding of %s differs from the documented format at byte %d of %d (want %d bytes)", what, k, len(data), len(want)), nil)
				return
			}
		}
		out := reflect.New(ht)
		if err, pn := unmarshal(p, data, out.Interface()); err != nil || pn != "" {
			rec.Violation("big-container", fmt.Sprintf("Unmarshal of %s (%d bytes): %v %s", what, len(data), err, trunc1(pn)), nil)
			return
		}
		if d := model.Diff(hv, out.Elem(), "$"); d != "" {
			rec.Violation("big-container", fmt.Sprintf("%s does not round-trip: %s", what, d), nil)
			return
		}
		rec.Count("big_containers", 1)
		rec.Max("big_container_entries", float64(n))
		rec.NonTrivial(core.Hash64("big", val.Type().String(), opt, fmt.Sprint(n), cfgName(cfg)))
	}
}

var churnKeep [][]*int64
var c02Churned = map[int]bool{}

// gcChurn runs a garbage collection and then allocates tens of thousands of small objects, filled
// with ones: memory that the collector wrongly took for dead is handed out again and overwritten
func gcChurn() {
	runtime.GC()
	a := make([]*int64, 0, 30000)
	for i := 0; i < 30000; i++ {
		x := int64(-1)
		a = append(a, &x)
	}
	b := make([]*[2]int64, 0, 10000)
	for i := 0; i < 10000; i++ {
		b = append(b, &[2]int64{-1, -1})
	}
	churnKeep = [][]*int64{a} // keep one generation alive so that the next churn gets other blocks
	_ = b
}

// damage returns a copy of a valid encoding that is cut short, has one byte changed, or both
func damage(r *rand.Rand, data []byte) []byte {
	bad := append([]byte(nil), data...)
	switch r.IntN(3) {
	case 0:
		bad = bad[:r.IntN(len(bad))]
	case 1:
		bad[r.IntN(len(bad))] ^= byte(1 << r.IntN(8))
	default:
		bad = bad[:1+r.IntN(len(bad))]
		bad[len(bad)-1] |= 0x80
	}
	return bad
}

// sweepDamage decodes copies of data that are damaged at every byte position in turn (the byte set to
// 0xff, raised by one, lowered by one: lengths that run past their field, counts that are off by
// one, tags that change index or wire type) into throw-away targets of type typ on p. Whatever these
// decodes return, they are only there to fail at every depth of the message - inside map keys, between
// key and value, in the middle of a nested struct - before the next ordinary call (round 12: k03).
func sweepDamage(c *core.Ctx, p *plenc.Plenc, typ reflect.Type, data []byte) {
	if len(data) == 0 || len(data) > 400 {
		return
	}
	bad := make([]byte, len(data))
	for i := range data {
		for _, nb := range []byte{0xff, data[i] + 1, data[i] - 1} {
			copy(bad, data)
			bad[i] = nb
			junk := reflect.New(typ)
			if err, pn := unmarshal(p, bad, junk.Interface()); err != nil || pn != "" {
				c.Rec.Count("rejected_decodes_of_byte_sweeps", 1)
			}
		}
	}
	c.Rec.Count("byte_sweeps", 1)
}

// checkWire compares Marshal's bytes with the model's
func checkWire(c *core.Ctx, tc *tcase, v reflect.Value, data []byte) {
	rec := c.Rec
	want := tc.cfg.Encode(v)
	if bytes.Equal(data, want) {
		rec.Count("byte_exact", 1)
	} else {
		multi := model.HasMultiMap(v)
		if !multi {
			rec.Violation("wire-format", fmt.Sprintf("Marshal output differs from the documented encoding [%s]\n  type %s\n  value %s\n  got  %s\n  want %s", tc.name, typeString(tc.typ), model.Show(v), hexHead(data), hexHead(want)), caseExtra(tc, v, data))
			return
		}
		cg, err := tc.cfg.Canon(tc.typ, "", data)
		if err != nil {
			rec.Violation("wire-format-walk", fmt.Sprintf("Marshal output cannot be walked as an encoding of its type [%s]: %v\n  type %s\n  value %s\n  got %s", tc.name, err, typeString(tc.typ), model.Show(v), hexHead(data)), caseExtra(tc, v, data))
			return
		}
		cw, err := tc.cfg.Canon(tc.typ, "", want)
		if err != nil {
			rec.Violation("model-error", fmt.Sprintf("model encoding does not walk: %v", err), caseExtra(tc, v, want))
			return
		}
		if !bytes.Equal(cg, cw) {
			rec.Violation("wire-format", fmt.Sprintf("Marshal output differs from the documented encoding, also up to map entry order [%s]\n  type %s\n  value %s\n  got  %s\n  want %s", tc.name, typeString(tc.typ), model.Show(v), hexHead(cg), hexHead(cw)), caseExtra(tc, v, data))
			return
		}
		rec.Count("equal_up_to_map_order", 1)
	}
	// Conversely: any field order is accepted. Shuffle the fields of the model's
	// encoding at every struct level and decode with the real Unmarshal.
	if tc.typ.Kind() == reflect.Struct && len(want) > 0 {
		r := c.RandFor(c.Idx, "shuffle")
		sh, changed := tc.cfg.Shuffle(tc.typ, want, r)
		if changed {
			rec.Count("shuffled_decodes", 1)
			out := reflect.New(tc.typ)
			err, pn := unmarshal(tc.p, sh, out.Interface())
			if pn != "" || err != nil {
				rec.Violation("field-order", fmt.Sprintf("Unmarshal fails on a valid encoding with fields in another order [%s]: %v %s\n  type %s\n  value %s\n  bytes %s", tc.name, err, pn, typeString(tc.typ), model.Show(v), hexHead(sh)), caseExtra(tc, v, sh))
				return
			}
			ref := reflect.New(tc.typ)
			if err, pn := unmarshal(tc.p, want, ref.Interface()); err != nil || pn != "" {
				rec.Violation("field-order", fmt.Sprintf("Unmarshal fails on the documented encoding [%s]: %v %s\n  type %s\n  bytes %s", tc.name, err, pn, typeString(tc.typ), hexHead(want)), caseExtra(tc, v, want))
				return
			}
			if d := model.Diff(ref.Elem(), out.Elem(), "$"); d != "" {
				rec.Violation("field-order", fmt.Sprintf("decoding depends on field order [%s]: %s\n  type %s\n  value %s\n  in order   %s\n  reordered  %s", tc.name, d, typeString(tc.typ), model.Show(v), hexHead(want), hexHead(sh)), caseExtra(tc, v, sh))
				return
			}
			if c.Idx%5 == 3 && !c02Churned[c.Idx] {
				// ... and what the documented bytes decode to is the value, also after a garbage collection
				// and tens of thousands of small allocations
				c02Churned[c.Idx] = true
				gcChurn()
				if d := model.Diff(tc.cfg.Normalise(v, "", true), ref.Elem(), "$"); d != "" {
					rec.Violation("wire-format", fmt.Sprintf("what the documented encoding decodes to no longer equals the value after a garbage collection [%s]: %s\n  type %s\n  value %s\n  bytes %s", tc.name, d, typeString(tc.typ), model.Show(v), hexHead(want)), caseExtra(tc, v, want))
				}
				rec.Count("compared_after_gc", 1)
			}
		}
	}
}

// checkGoldens validates the model against the golden files of the pinned
// commit (committed copy in /verif/corpus/golden) and the real code against both
func checkGoldens(c *core.Ctx) {
	anInt32 := int32(1234)
	type st struct {
		Name string   `plenc:"1"`
		Age  int      `plenc:"2,flat"`
		F32  float32  `plenc:"3"`
		F64  float64  `plenc:"4"`
		I    int      `plenc:"5"`
		J    []uint32 `plenc:"6"`
		K    []string `plenc:"7"`
		L    *int     `plenc:"8"`
		M    *int32   `plenc:"9"`
	}
	type sa struct {
		Name string `plenc:"1"`
		Age  int    `plenc:"2"`
	}
	cases := []struct {
		name string
		v    any
	}{
		{"string", "hats"}, {"string_array", []string{"hats", "coats"}}, {"bytes", []byte{1, 2, 3, 4}}, {"int16", int16(1234)}, {"int32", int32(1234)},
		{"int64", int64(12343453453)}, {"uint16", uint16(1234)}, {"uint32", uint32(1234)}, {"uint64", uint64(12343453453)}, {"int_array", []int{1, 2, 1337, 98, -100}},
		{"float32", float32(1234.5678)}, {"float64", float64(1234.5678)}, {"float_array", []float64{1.2, 3.4, 5.6}}, {"bool", true}, {"bool_array", []bool{true, false, true}},
		{"struct", st{Name: "Phil", Age: 1337, F32: 1234.5678, F64: 1234.5678, I: -234332, J: []uint32{747439, 2223, 3344}, K: []string{"hats", "coats"}, M: &anInt32}},
		{"struct_array", []sa{{Name: "Phil", Age: 1337}, {Name: "Bob", Age: 42}}},
		{"map", map[string]int{"Phil": 1337}}, {"time", time.Date(1970, 3, 15, 13, 37, 42, 0, time.UTC)},
	}
	dir := os.Getenv("VERIF_DIR")
	if dir == "" {
		dir = "/verif"
	}
	cfg := model.Cfg{}
	tc := &tcase{cfg: cfg, name: "default"}
	for _, gc := range cases {
		golden, err := os.ReadFile(filepath.Join(dir, "corpus", "golden", gc.name+".golden"))
		if err != nil {
			c.Rec.Violation("model-error", "golden file missing: "+err.Error(), nil)
			continue
		}
		v := reflect.ValueOf(gc.v)
		if got := cfg.Encode(v); !bytes.Equal(got, golden) {
			c.Rec.Violation("model-error", fmt.Sprintf("model does not reproduce golden %s: %x vs %x", gc.name, got, golden), nil)
		}
		tc.typ = v.Type()
		data, err, pn := marshal(newDefault(), nil, gc.v)
		if err != nil || pn != "" || !bytes.Equal(data, golden) {
			c.Rec.Violation("golden", fmt.Sprintf("Marshal of the %s golden case gives %x (err %v %s), the file pinned at the reference commit holds %x", gc.name, data, err, pn, golden), nil)
		}
		c.Rec.Eval(1)
		c.Rec.Count("goldens", 1)
	}
}

func init() {
	plan := func(quick, thorough int) func(string) []core.Lane {
		return func(tier string) []core.Lane {
			if tier == "thorough" {
				return []core.Lane{
					{Lane: "plain", Cases: thorough, Shards: 16, TimeoutS: 7200},
					{Lane: "race", Cases: thorough / 10, Shards: 16, TimeoutS: 7200},
					{Lane: "asan", Cases: thorough / 10, Shards: 16, TimeoutS: 7200},
				}
			}
			return []core.Lane{{Lane: "plain", Cases: quick, Shards: 16, TimeoutS: 1200}}
		}
	}
	genRule := "types: seeded random struct/slice/map/pointer compositions built with reflect (depth<=3, indexes over the 1/2-byte tag boundaries, flat/intern/proto options, json tags, skipped and unexported fields) plus a committed library of named, recursive, mutually recursive and embedding types; " +
		"values: boundary-biased (every varint group edge, width limits, -0/NaN/denormals, strings around the 1/2/3-byte length prefixes, nil/empty/zero-keyed containers, zoned and monotonic times, null.* presence, JSON-any trees); four Plenc configurations. " +
		"Every third value also goes through a long-lived instance per configuration that has built the codecs of all earlier cases; between the values of a case, damaged encodings (cut, bit flipped, continuation bit set; in a fifth of the cases every byte position in turn set to 0xff, raised and lowered by one) of the previous value are decoded on both instances, whatever they return. " +
		"Every seventh struct type is padded to encodings of every size from b-12 to b+1 for b = 128, 16384 (thorough: also 2^21) and nested as field, pointer target, slice element, map value and proto map value of a struct inside an outer struct. Every 509th case round-trips a container with 70 001 - 1 200 017 entries (strings, structs, pointers, byte slices, times, nested slices, map entries; plain and proto-tagged). Descriptor() of the type is asked for between the calls of a case. Every 37th case (C01) registers a codec for a type the instance has already used at top level and round-trips through it; in a fifth of the cases one comparison comes after a garbage collection and 40 000 small allocations. " +
		"Every 16th case is a struct with a field at every index of a window of 24 consecutive indexes (windows in turn from 0 upwards: 0..11999 in the quick tier, up to the 100000 of known finding D29 in the thorough one), with a low and a far field beside it. Every 13th case runs on an instance whose time.Time codec is the BigQuery timestamp codec (element codec of []time.Time, value codec of maps). The intern option also sits on slices and maps. " +
		"Every 47th case: sixty new instances on which one goroutine asks for the codec of a top-level type under a tag option while another marshals a value of the type; every 43rd case (C01): codecs registered under tag names for built-in integer types with other wire types, the tag on fields, pointers and slices. " +
		"A case is non-trivial when its value has a non-zero scalar, non-empty container or non-nil pointer; distinct = distinct (type, configuration, value-shape class) hashes."
	core.Register(&core.Prop{
		ID:        "C01",
		Technique: "reference-model monitor: real Marshal/Unmarshal round trips compared with an independent Normalise/Equal oracle",
		Rule:      genRule,
		Assume:    []string{"harness model (model.Normalise, model.Diff) states the documented normalisations", "known findings D4 and D22 are excluded from generation (known_findings.json)"},
		Plan:      plan(8000, 300000),
		Setup:     func(c *core.Ctx) { plenccodec.SetVerifYield(c07Hook) },
		Case:      func(c *core.Ctx, idx int) { roundTripCase(c, idx, modeC01) },
	})
	core.Register(&core.Prop{
		ID:        "C02",
		Technique: "byte-exact comparison of real Marshal output with an independent encoder of the documented format (canonical map order), golden files, shuffled-field decodes",
		Rule:      genRule + " Each value's bytes are compared with the model's; for struct values the model's encoding is re-ordered at every nesting level and decoded by the real Unmarshal.",
		Assume:    []string{"harness model (model.Encode, model.Canon) states the documented format; anchored on the 19 golden files of the pinned commit"},
		Plan:      plan(8000, 200000),
		Setup: func(c *core.Ctx) {
			plenccodec.SetVerifYield(c07Hook)
			if c.Shard == 0 {
				checkGoldens(c)
			}
		},
		Case: func(c *core.Ctx, idx int) { roundTripCase(c, idx, modeC02) },
	})
}
