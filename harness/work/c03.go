package work

import (
	"encoding/binary"
	"fmt"
	"math/rand/v2"
	"reflect"
	"strings"

	"verifharness/core"
	"verifharness/gen"
	"verifharness/model"
)

// C03: schema evolution. S' is derived from S by a random edit script applied
// at every nesting depth of the reflect-built struct types.

type editor struct {
	r     *rand.Rand
	tg    *gen.TG
	stats map[string]int
}

func (e *editor) edit(t reflect.Type, depth int) reflect.Type {
	if t == model.TimeT || t.Name() != "" || t == model.BytesT || t == model.JSONMapT || t == model.JSONArrayT {
		return t // named types cannot be rebuilt with reflect: they are shared unchanged
	}
	switch t.Kind() {
	case reflect.Ptr:
		return reflect.PointerTo(e.edit(t.Elem(), depth))
	case reflect.Slice:
		return reflect.SliceOf(e.edit(t.Elem(), depth))
	case reflect.Map:
		return reflect.MapOf(t.Key(), e.edit(t.Elem(), depth))
	case reflect.Struct:
		return e.editStruct(t, depth)
	}
	return t
}

func (e *editor) editStruct(t reflect.Type, depth int) reflect.Type {
	used := map[int]bool{}
	for _, f := range model.Fields(t) {
		used[f.Index] = true
	}
	var fs []reflect.StructField
	for i := 0; i < t.NumField(); i++ {
		sf := t.Field(i)
		tag := sf.Tag.Get("plenc")
		if !sf.IsExported() || tag == "-" {
			if e.r.IntN(2) == 0 {
				fs = append(fs, sf)
			}
			continue
		}
		if e.r.IntN(4) == 0 {
			e.stats["removed"]++
			continue
		}
		nf := reflect.StructField{Name: sf.Name, Type: e.edit(sf.Type, depth+1), Tag: sf.Tag}
		if nf.Type != sf.Type {
			e.stats["nested_edits"]++
		}
		if e.r.IntN(3) == 0 {
			nf.Name = fmt.Sprintf("R%d_%d", depth, i)
			if e.r.IntN(2) == 0 {
				nf.Tag = reflect.StructTag(fmt.Sprintf(`plenc:%q json:"renamed%d"`, tag, i))
			}
			e.stats["renamed"]++
		}
		fs = append(fs, nf)
	}
	nadd := e.r.IntN(3)
	for i := 0; i < nadd; i++ {
		idx := e.r.IntN(5000)
		if e.r.IntN(2) == 0 {
			idx = []int{0, 1, 2, 3, 4, 14, 15, 16, 17, 18, 2046, 2047, 2048, 2049}[e.r.IntN(14)]
		}
		if used[idx] {
			continue
		}
		used[idx] = true
		nt := e.tg.Type(1, gen.PosField)
		fs = append(fs, reflect.StructField{Name: fmt.Sprintf("A%d_%d", depth, i), Type: nt, Tag: reflect.StructTag(fmt.Sprintf(`plenc:"%d"`, idx))})
		e.stats["added"]++
	}
	if len(fs) > 1 && e.r.IntN(2) == 0 {
		e.r.Shuffle(len(fs), func(i, j int) { fs[i], fs[j] = fs[j], fs[i] })
		e.stats["reordered"]++
	}
	return reflect.StructOf(fs)
}

// unknownWireTypes records which wire types occur as unknown fields at the top level of S' for data of S
func unknownWireTypes(c *core.Ctx, cfg model.Cfg, s, s2 reflect.Type) {
	have := map[int]bool{}
	for _, f := range model.Fields(s2) {
		have[f.Index] = true
	}
	for _, f := range model.Fields(s) {
		if have[f.Index] {
			continue
		}
		w := cfg.WireType(f.Type, f.Opt)
		name := fmt.Sprintf("unknown_wt%d", w)
		if cfg.Repeated(f.Type, f.Opt) {
			name = "unknown_repeated"
		}
		c.Rec.Count(name, 1)
	}
}

// c03KeyedMaps: a map whose key is a struct that the new version of the type has added fields to;
// keys with zero fields among the others. Between the good decodes the message arrives damaged at
// every byte position in turn (a decode can then fail inside a key, after its first field). The new
// fields of every key are zero, the old ones what the data says (round 12: k03).
func c03KeyedMaps(c *core.Ctx, idx int) {
	rec := c.Rec
	r := c.Rand(idx)
	cfg := instCfgs()[idx%4]
	p := instNew(cfg)
	T := reflect.TypeOf
	opt := []string{"", ",proto"}[r.IntN(2)]
	k1 := structOf(sf("A", tInt, `plenc:"1"`), sf("B", tString, `plenc:"2"`))
	k2 := structOf(sf("A", tInt, `plenc:"1"`), sf("B", tString, `plenc:"2"`), sf("C", tString, `plenc:"3"`), sf("D", T(int32(0)), `plenc:"4"`))
	s1 := structOf(sf("M", reflect.MapOf(k1, T(int16(0))), `plenc:"1`+opt+`"`), sf("N", tInt, `plenc:"2"`))
	s2 := structOf(sf("M", reflect.MapOf(k2, T(int16(0))), `plenc:"1`+opt+`"`), sf("N", tInt, `plenc:"2"`), sf("X", tString, `plenc:"3"`))
	for round := 0; round < 5; round++ {
		v := reflect.New(s1)
		m := reflect.MakeMap(s1.Field(0).Type)
		type kk struct {
			a int
			b string
		}
		want := map[kk]int64{}
		for i, n := 0, 2+r.IntN(5); i < n; i++ {
			k := kk{[]int{0, 0, 1, 5, 300}[r.IntN(5)], []string{"", "", "x", "yy", "a longer key string"}[r.IntN(5)]}
			kv := reflect.New(k1).Elem()
			kv.Field(0).SetInt(int64(k.a))
			kv.Field(1).SetString(k.b)
			val := int64(1 + r.IntN(100))
			m.SetMapIndex(kv, reflect.ValueOf(int16(val)))
			want[k] = val
		}
		v.Elem().Field(0).Set(m)
		v.Elem().Field(1).SetInt(int64(round + 1))
		data, err, pn := marshal(p, nil, v.Interface())
		if err != nil || pn != "" {
			rec.Violation("marshal-error", fmt.Sprintf("%v %s", err, pn), nil)
			return
		}
		// the good decode follows EVERY rejected one directly (a later damaged copy that decodes well
		// would tidy up after an earlier one that did not)
		bad0 := make([]byte, len(data))
		var got reflect.Value
		for pos := -1; pos < len(data) && len(data) <= 300; pos++ {
			rejected := pos < 0
			if pos >= 0 {
				for _, nb := range []byte{0xff, data[pos] + 1, data[pos] - 1} {
					copy(bad0, data)
					bad0[pos] = nb
					if e, q := unmarshal(p, bad0, reflect.New(s2).Interface()); e != nil || q != "" {
						rejected = true
						rec.Count("rejected_decodes_before_keyed_maps", 1)
					}
				}
			}
			if !rejected {
				continue
			}
			got = reflect.New(s2)
			err, pn = unmarshal(p, data, got.Interface())
			rec.Eval(1)
			if err != nil || pn != "" {
				break
			}
			gm := got.Elem().Field(0)
			wrong := gm.Len() != len(want)
			for it := gm.MapRange(); !wrong && it.Next(); {
				k := it.Key()
				w, ok := want[kk{int(k.Field(0).Int()), k.Field(1).String()}]
				wrong = !ok || w != it.Value().Int() || k.Field(2).String() != "" || k.Field(3).Int() != 0
			}
			if wrong {
				break
			}
		}
		desc := fmt.Sprintf("[%s] map with a struct key that S' has added fields to\n  S  %s\n  S' %s\n  value %s\n  bytes %s", cfgName(cfg), typeString(s1), typeString(s2), model.Show(v.Elem()), hexHead(data))
		if err != nil || pn != "" {
			rec.Violation("evolved-decode-error", fmt.Sprintf("data of S does not decode into S': %v %s %s", err, trunc1(pn), desc), nil)
			return
		}
		gm := got.Elem().Field(0)
		bad := gm.Len() != len(want) || got.Elem().Field(1).Int() != int64(round+1) || got.Elem().Field(2).String() != ""
		for it := gm.MapRange(); !bad && it.Next(); {
			k := it.Key()
			w, ok := want[kk{int(k.Field(0).Int()), k.Field(1).String()}]
			bad = !ok || w != it.Value().Int() || k.Field(2).String() != "" || k.Field(3).Int() != 0
		}
		if bad {
			rec.Violation("evolved-decode", fmt.Sprintf("decoding data of S into S' gives the wrong target (keys take their old fields from the data, their new fields are zero): got %s %s", model.Show(got.Elem()), desc), nil)
			return
		}
		rec.Count("keyed_map_evolutions", 1)
	}
	rec.NonTrivial(core.Hash64("keyed-maps", fmt.Sprint(idx)))
}

func c03Case(c *core.Ctx, idx int) {
	if idx%19 == 4 {
		c03KeyedMaps(c, idx)
		return
	}
	rec := c.Rec
	var tc *tcase
	for try := 0; ; try++ {
		tc = genType(c, idx*7+try, func(tg *gen.TG) { tg.MaxFields = 8 })
		if tc.typ.Kind() == reflect.Struct && tc.typ.Name() == "" && tc.typ.NumField() > 0 {
			break
		}
	}
	r := c.RandFor(idx, "edit")
	ed := &editor{r: r, tg: &gen.TG{R: r, C: tc.cfg, Lib: true}, stats: map[string]int{}}
	s2 := ed.editStruct(tc.typ, 0)
	for k, n := range ed.stats {
		rec.Count("edit_"+k, n)
	}
	if why := tc.cfg.Validate(s2, ""); why != "" {
		rec.Count("edited_type_invalid", 1)
		return
	}
	for _, t := range []reflect.Type{tc.typ, s2} {
		if _, err := tc.p.CodecForType(t); err != nil {
			rec.Violation("valid-type-rejected", fmt.Sprintf("[%s] %v\n  type %s", tc.name, err, typeString(t)), nil)
			return
		}
	}
	unknownWireTypes(c, tc.cfg, tc.typ, s2)
	rv := c.RandFor(idx, "values")
	nv := 12
	if c.Thorough() {
		nv = 30
	}
	for j := 0; j < nv; j++ {
		v := (&gen.VG{R: rv, C: tc.cfg, Budget: 200}).Value(tc.typ, "")
		data, err, pn := marshal(tc.p, nil, ptrTo(v))
		if err != nil || pn != "" {
			rec.Violation("marshal-error", fmt.Sprintf("[%s] %v %s", tc.name, err, pn), caseExtra(tc, v, nil))
			return
		}
		prior := reflect.New(s2).Elem()
		if j%3 != 0 {
			prior = (&gen.VG{R: rv, C: tc.cfg, Budget: 100}).Value(s2, "")
		}
		desc := func() string {
			return fmt.Sprintf("[%s]\n  S  %s\n  S' %s\n  value %s\n  prior %s\n  bytes %s", tc.name, typeString(tc.typ), typeString(s2), model.Show(v), model.Show(prior), hexHead(data))
		}
		if j == nv/2 && idx%3 == 0 {
			// in between, somebody asks for the schemas
			describe(tc.p, s2)
			describe(tc.p, tc.typ)
			rec.Count("schema_queries_between_decodes", 1)
		}
		got := reflect.New(s2)
		got.Elem().Set(model.DeepCopy(prior))
		want := reflect.New(s2)
		want.Elem().Set(model.DeepCopy(prior))
		if j%2 == 1 {
			// the target is being recycled: its slices were cut short where they are, the elements beyond
			// the new length are still in their backing arrays
			seed := rv.Uint64()
			staleTails(got.Elem(), rand.New(rand.NewPCG(seed, 3)), 0)
			staleTails(want.Elem(), rand.New(rand.NewPCG(seed, 3)), 0)
			rec.Count("recycled_targets", 1)
		}
		if j%3 == 1 {
			// rejected messages arrive between good ones: the message damaged at every byte position in
			// turn, decoded into the new version of the type on the same instance
			sweepDamage(c, tc.p, s2, data)
		}
		rec.Eval(1)
		h, _ := model.ShapeHash(v)
		rec.NonTrivial(h ^ core.Hash64(tc.typ.String(), s2.String(), tc.name))
		err, pn = unmarshal(tc.p, data, got.Interface())
		if pn != "" {
			rec.Violation("unmarshal-panic", "decoding data of S into S' panicked "+desc()+"\n"+pn, map[string]any{"S": typeString(tc.typ), "S2": typeString(s2)})
			return
		}
		if err != nil {
			rec.Violation("evolved-decode-error", fmt.Sprintf("data of S does not decode into S': %v %s", err, desc()), map[string]any{"S": typeString(tc.typ), "S2": typeString(s2)})
			return
		}
		if err := tc.cfg.Decode(want.Elem(), data); err != nil {
			rec.Violation("model-error", fmt.Sprintf("%v %s", err, desc()), nil)
			return
		}
		if d := model.Diff(want.Elem(), got.Elem(), "$"); d != "" {
			rec.Violation("evolved-decode", fmt.Sprintf("decoding data of S into S' gives the wrong target: %s (shared indexes take the value from the data, other fields keep the prior value, unknown fields are skipped exactly) %s\n  got  %s\n  want %s", d, desc(), model.Show(got.Elem()), model.Show(want.Elem())), map[string]any{"S": typeString(tc.typ), "S2": typeString(s2)})
			return
		}
		// fields of a far later version: their indexes are those of S' plus a multiple of 2^29 or 2^32
		// (tags of five to nine bytes), each with the wire type S' has at the low index. They are unknown
		// to S' and are skipped; the result is what the message without them gives
		if j%4 == 2 {
			far := append([]byte(nil), data...)
			nfar := 0
			for _, f := range model.Fields(s2) {
				if nfar == 6 {
					break
				}
				shift := []uint{29, 29, 30, 31, 32, 35, 40, 56}[rv.IntN(8)]
				fidx := uint64(f.Index) + uint64(1+rv.IntN(7))<<shift
				if fidx >= 1<<60 {
					continue
				}
				wt := tc.cfg.WireType(f.Type, f.Opt)
				if tc.cfg.Repeated(f.Type, f.Opt) {
					wt = 2
				}
				far = binary.AppendUvarint(far, fidx<<3|uint64(wt))
				switch wt {
				case 0:
					far = append(far, 0xd5, 0x2a)
				case 1:
					far = append(far, 1, 2, 3, 4, 5, 6, 7, 0x40)
				case 5:
					far = append(far, 1, 2, 3, 0x40)
				case 2:
					far = append(far, 3, 0x08, 0x02, 0x61)
				case 3:
					far = append(far, 1, 2, 0x08, 0x02)
				default:
					continue
				}
				nfar++
			}
			g2 := reflect.New(s2)
			g2.Elem().Set(model.DeepCopy(prior))
			if j%2 == 1 {
				g2.Elem().Set(model.DeepCopy(want.Elem())) // (recycled targets differ from prior: decode over the result instead)
			}
			err, pn := unmarshal(tc.p, far, g2.Interface())
			rec.Eval(1)
			if err != nil || pn != "" {
				rec.Violation("evolved-decode-error", fmt.Sprintf("data of S followed by %d fields with indexes beyond 2^29 does not decode into S': %v %s %s\n  with the far fields %s", nfar, err, trunc1(pn), desc(), hexHead(far)), nil)
				return
			}
			if j%2 == 0 {
				if d := model.Diff(want.Elem(), g2.Elem(), "$"); d != "" {
					rec.Violation("evolved-decode", fmt.Sprintf("%d unknown fields whose indexes are those of S' plus a multiple of 2^29 were not skipped: %s %s\n  with the far fields %s\n  got  %s\n  want %s", nfar, d, desc(), hexHead(far), model.Show(g2.Elem()), model.Show(want.Elem())), nil)
					return
				}
			}
			rec.Count("far_index_fields_skipped", nfar)
		}
		// metamorphic: top-level fields shared with an identical type get exactly what decoding into S gives
		if j%3 == 0 {
			ref := reflect.New(tc.typ)
			if err, pn := unmarshal(tc.p, data, ref.Interface()); err != nil || pn != "" {
				rec.Violation("unmarshal-error", fmt.Sprintf("%v %s %s", err, pn, desc()), nil)
				return
			}
			f2 := map[int]model.FieldInfo{}
			for _, f := range model.Fields(s2) {
				f2[f.Index] = f
			}
			for _, f := range model.Fields(tc.typ) {
				g, ok := f2[f.Index]
				if !ok || g.Type != f.Type {
					continue
				}
				rec.Count("shared_fields_compared", 1)
				if d := model.Diff(ref.Elem().Field(f.GoIndex), got.Elem().Field(g.GoIndex), "$."+f.Name); d != "" {
					rec.Violation("shared-field", fmt.Sprintf("field with index %d differs between decoding into S and into S': %s %s", f.Index, d, desc()), nil)
					return
				}
			}
		}
		if rec.WantSample() && len(data) > 3 && len(data) < 50 && !strings.Contains(typeString(s2), "truncated") {
			rec.Sample(map[string]any{"config": tc.name, "S": typeString(tc.typ), "S_prime": typeString(s2), "value": model.Show(v), "bytes": fmt.Sprintf("%x", data), "decoded_into_S_prime": model.Show(got.Elem())})
		}
	}
}

func init() {
	core.Register(&core.Prop{
		ID:        "C03",
		Technique: "schema-evolution monitor: data of generated struct types decoded by the real Unmarshal into randomly edited types with non-zero priors, compared with a reference decoder and metamorphically with the decode into the original type",
		Rule: "every 19th case: maps (plain and proto-tagged) whose struct key gained fields in S', keys with zero fields among them, five messages each preceded by the byte-position sweep of damaged copies. before every third decode the message is decoded into S' damaged at every byte position in turn (0xff, +1, -1), whatever that returns. every fourth message is also decoded with up to six fields appended whose indexes are those of S' plus a multiple of 2^29..2^56 (five- to nine-byte tags): unknown, to be skipped. S from the type generator; every second prior is a recycled target (slices cut short where they are), schema queries come between decodes; S' by a random edit script at every nesting depth (field, pointer target, slice element, map value): remove (p=1/4), add under a fresh index with an arbitrary type, rename (Go name and/or json tag), reorder; " +
			"values of S boundary-biased, priors of S' zero in one third of the cases and random otherwise. Counters report which wire types occurred as unknown fields. distinct = (S, S', configuration, value-shape) hashes",
		Assume: []string{"model.Decode implements the merge rules of the statement (validated against the real decoder by C10)"},
		Plan: func(tier string) []core.Lane {
			if tier == "thorough" {
				return []core.Lane{{Lane: "plain", Cases: 500000, Shards: 16, TimeoutS: 7200}, {Lane: "race", Cases: 30000, Shards: 16, TimeoutS: 3600}}
			}
			return []core.Lane{{Lane: "plain", Cases: 12000, Shards: 16, TimeoutS: 1200}}
		},
		Case: c03Case,
	})
}
