// Package inst builds real plenc instances that correspond to a model.Cfg.
package inst

import (
	"reflect"

	"github.com/philpearl/plenc"
	pnull "github.com/philpearl/plenc/null"
	"github.com/philpearl/plenc/plenccodec"

	"verifharness/model"
)

// New creates a fresh Plenc instance configured like c
func New(c model.Cfg) *plenc.Plenc {
	p := &plenc.Plenc{ProtoCompatibleArrays: c.ProtoArrays, ProtoCompatibleTime: c.ProtoTime}
	p.RegisterDefaultCodecs()
	if c.Null {
		pnull.AddCodecs(p)
	}
	if c.JSONAny {
		p.RegisterCodec(model.JSONMapT, plenccodec.JSONMapCodec{})
		p.RegisterCodec(model.JSONArrayT, plenccodec.JSONArrayCodec{})
	}
	for k, s := range c.Tagged {
		if s == model.SpBQTime {
			p.RegisterCodecWithTag(k.Type, k.Tag, plenccodec.BQTimestampCodec{})
		}
	}
	for t, s := range c.Plain {
		if s == model.SpBQTime {
			p.RegisterCodec(t, plenccodec.BQTimestampCodec{})
		}
	}
	return p
}

// Cfgs are the four option combinations, with null and JSON-any codecs registered
func Cfgs() []model.Cfg {
	var out []model.Cfg
	for i := 0; i < 4; i++ {
		out = append(out, model.Cfg{ProtoArrays: i&1 != 0, ProtoTime: i&2 != 0, Null: true, JSONAny: true,
			Tagged: map[model.TypeTag]model.Special{{Type: model.TimeT, Tag: "flattime"}: model.SpBQTime}})
	}
	return out
}

// CfgName names a configuration
func CfgName(c model.Cfg) string {
	s := "default"
	switch {
	case c.ProtoArrays && c.ProtoTime:
		s = "protoArrays+protoTime"
	case c.ProtoArrays:
		s = "protoArrays"
	case c.ProtoTime:
		s = "protoTime"
	}
	if c.Plain[model.TimeT] == model.SpBQTime {
		s += "+bqTime"
	}
	return s
}

var _ = reflect.TypeOf
