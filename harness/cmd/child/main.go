package main

import (
	"flag"
	"fmt"
	"os"

	"verifharness/wit"
)

func main() {
	witness := flag.String("witness", "", "run one witness by id")
	flag.Parse()
	if *witness != "" {
		w := wit.ByID(*witness)
		if w == nil {
			fmt.Println("unknown witness")
			os.Exit(2)
		}
		if err := w.Run(); err != nil {
			fmt.Printf("WITNESS %s FAIL %v\n", w.ID, err)
			os.Exit(1)
		}
		fmt.Printf("WITNESS %s PASS\n", w.ID)
		return
	}
}
