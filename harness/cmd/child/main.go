// Command child is the process that actually calls plenc. One invocation runs
// one shard of one property's deterministic case list (or one witness).
package main

import (
	"encoding/json"
	"flag"
	"fmt"
	"os"

	"verifharness/core"
	"verifharness/wit"
	_ "verifharness/work"
)

func main() {
	var (
		witness = flag.String("witness", "", "run one witness by id")
		planF   = flag.Bool("plan", false, "print the plan of -prop for -tier")
		prop    = flag.String("prop", "", "property id")
		tier    = flag.String("tier", "quick", "quick|thorough")
		seed    = flag.Int64("seed", 1, "seed")
		lane    = flag.String("lane", "plain", "lane")
		shard   = flag.Int("shard", 0, "shard")
		nshards = flag.Int("nshards", 1, "number of shards")
		cases   = flag.Int("cases", 0, "number of cases of the lane (all shards)")
		from    = flag.Int("from", 0, "first case index to run")
		only    = flag.Int("only", -1, "run only this case")
		out     = flag.String("out", "", "result stream")
		cursor  = flag.String("cursor", "", "cursor file")
		verbose = flag.Bool("verbose", false, "print violations")
		arg     = flag.String("arg", "", "property-specific argument (C04: a go-fuzz corpus file to replay)")
	)
	flag.Parse()

	if *witness != "" {
		w := wit.ByID(*witness)
		if w == nil {
			fmt.Println("unknown witness")
			os.Exit(2)
		}
		if err := w.Run(); err != nil {
			fmt.Printf("WITNESS %s FAIL %v\n", w.ID, err)
			os.Exit(1)
		}
		fmt.Printf("WITNESS %s PASS\n", w.ID)
		return
	}

	p := core.Get(*prop)
	if p == nil {
		fmt.Fprintf(os.Stderr, "unknown property %q (have %v)\n", *prop, core.IDs())
		os.Exit(2)
	}
	if *planF {
		js, _ := json.Marshal(map[string]any{
			"property": p.ID, "lanes": p.Plan(*tier), "rule": p.Rule, "technique": p.Technique,
			"assumptions": p.Assume, "exhaustive": p.Exhaustive,
		})
		os.Stdout.Write(js)
		return
	}

	ctx := &core.Ctx{Prop: p, Tier: *tier, Lane: *lane, Seed: *seed, Shard: *shard, NShards: *nshards, Cases: *cases, Verbose: *verbose, Arg: *arg}
	if *out == "" {
		*out = "/dev/null"
	}
	rec, err := core.NewRecorder(*out, ctx)
	if err != nil {
		fmt.Fprintln(os.Stderr, err)
		os.Exit(2)
	}
	ctx.Rec = rec
	cur := core.OpenCursor(*cursor)
	if p.Setup != nil {
		p.Setup(ctx)
	}
	if *only >= 0 {
		cur.Set(*only)
		core.RunCase(ctx, *only)
	} else {
		if ctx.Cases == 0 {
			for _, l := range p.Plan(*tier) {
				if l.Lane == *lane {
					ctx.Cases = l.Cases
				}
			}
		}
		for idx := *from; idx < ctx.Cases; idx++ {
			if idx%ctx.NShards != ctx.Shard {
				continue
			}
			cur.Set(idx)
			core.RunCase(ctx, idx)
		}
		if p.Finish != nil {
			ctx.Idx = -1
			p.Finish(ctx)
		}
	}
	rec.Close(true)
}
