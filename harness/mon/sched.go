package mon

import (
	"bytes"
	"math/rand/v2"
	"runtime"
	"strconv"
	"strings"
	"sync"
	"time"
)

// Goid returns the id of the calling goroutine (parsed from runtime.Stack)
func Goid() uint64 {
	var buf [64]byte
	b := buf[:runtime.Stack(buf[:], false)]
	b = bytes.TrimPrefix(b, []byte("goroutine "))
	if i := bytes.IndexByte(b, ' '); i > 0 {
		b = b[:i]
	}
	id, _ := strconv.ParseUint(string(b), 10, 64)
	return id
}

// Sched is a serialising scheduler: registered workers run one at a time and
// hand over control only at yield points, so a trial is a deterministic
// function of its seed and the trace of (worker, point) pairs IS the
// interleaving. Priorities follow PCT: random initial priorities and a few
// priority change points.
type Sched struct {
	mu      sync.Mutex
	r       *rand.Rand
	workers map[uint64]*worker // by goroutine id
	list    []*worker
	steps   int
	change  map[int]bool // steps at which the running worker's priority drops
	Trace   []uint16     // worker<<8 | point
	active  bool
	running int // workers that hold the token: 1, or more after a blocked worker was bypassed
	// Blocked counts the times the running worker was found blocked on something only another
	// worker can release (the process was idle while workers were parked) and another parked
	// worker was let run: legitimate waiting, not a violation. From then on the trial is no longer
	// strictly serialised.
	Blocked int
	// Why says how Run ended when it returns false: "deadlock" (every unfinished worker blocked,
	// process idle for 3 s) or "watchdog" (wall-clock limit: inconclusive)
	Why string
	// Starved counts the times the process looked idle although a goroutine was runnable
	Starved int
}

type worker struct {
	id     int
	prio   int
	resume chan struct{}
	done   bool
	parked bool
}

// NewSched creates a scheduler for n workers
func NewSched(r *rand.Rand, n int, changePoints int, maxSteps int) *Sched {
	s := &Sched{r: r, workers: map[uint64]*worker{}, change: map[int]bool{}}
	for i := 0; i < n; i++ {
		s.list = append(s.list, &worker{id: i, prio: 1000 + r.IntN(1000), resume: make(chan struct{}, 1)})
	}
	for i := 0; i < changePoints; i++ {
		s.change[r.IntN(maxSteps)] = true
	}
	return s
}

// NewPlanSched creates a scheduler that follows a fixed plan: worker `first`
// runs first, the others follow in index order; at the global yield steps
// listed in switches the running worker is preempted and goes to the back of
// the queue. With two workers a plan with k switches is a schedule with k
// preemptions. Steps is the number of yield steps the execution took.
func NewPlanSched(n, first int, switches []int) *Sched {
	s := &Sched{workers: map[uint64]*worker{}, change: map[int]bool{}}
	for i := 0; i < n; i++ {
		p := 1000 - i
		if i == first {
			p = 2000
		}
		s.list = append(s.list, &worker{id: i, prio: p, resume: make(chan struct{}, 1)})
	}
	for _, st := range switches {
		s.change[st] = true
	}
	return s
}

// Steps returns the number of yield steps taken so far
func (s *Sched) Steps() int { return s.steps }

// Run starts fns as workers and returns when all have finished. It reports
// false if the workers stopped making progress (deadlock).
func (s *Sched) Run(fns []func()) bool {
	var wg sync.WaitGroup
	ready := make(chan struct{}, len(fns))
	for i, fn := range fns {
		wg.Add(1)
		w := s.list[i]
		go func(fn func()) {
			defer wg.Done()
			s.mu.Lock()
			s.workers[Goid()] = w
			w.parked = true
			s.mu.Unlock()
			ready <- struct{}{}
			<-w.resume // wait to be scheduled
			fn()
			s.mu.Lock()
			w.done = true
			w.parked = false
			s.running--
			var next *worker
			if s.running == 0 {
				next = s.pick()
			}
			s.mu.Unlock()
			if next != nil {
				next.resume <- struct{}{}
			}
		}(fn)
	}
	for range fns {
		<-ready
	}
	s.mu.Lock()
	s.active = true
	first := s.pick()
	s.mu.Unlock()
	if first != nil {
		first.resume <- struct{}{}
	}
	fin := make(chan struct{})
	go func() { wg.Wait(); close(fin) }()
	// The monitor: a worker that blocks on something another worker holds (a lock, a wait for a
	// build in flight) cannot yield, and the worker that could release it is parked. The sign is a
	// process that burns no CPU while workers are parked; then the best parked worker is let run as
	// well. If nobody is parked either, every unfinished worker is blocked: a deadlock.
	tick := time.NewTicker(4 * time.Millisecond)
	defer tick.Stop()
	deadline := time.After(60 * time.Second)
	lastCPU, idle := ProcessCPU(), 0
	for {
		select {
		case <-fin:
			s.active = false
			return true
		case <-deadline:
			// generous wall-clock watchdog: its firing is inconclusive, not a violation
			s.Why = "watchdog"
			return false
		case <-tick.C:
			cpu := ProcessCPU()
			if cpu-lastCPU > 300*time.Microsecond {
				idle = 0
			} else {
				idle++
			}
			lastCPU = cpu
			if idle < 5 {
				continue
			}
			s.mu.Lock()
			next := s.pick()
			if next != nil {
				s.Blocked++
				idle = 0
			}
			s.mu.Unlock()
			if next != nil {
				next.resume <- struct{}{}
			} else if idle > 750 {
				// no CPU burnt for 3 s and nobody parked. On an overloaded machine that can also be a
				// worker the operating system does not let run: only if every other goroutine is
				// waiting for something is it a deadlock; otherwise keep waiting (the wall-clock
				// watchdog then ends the trial as inconclusive)
				if othersRunnable() {
					s.Starved++
					idle = 0
					continue
				}
				s.Why = "deadlock"
				return false
			}
		}
	}
}

// othersRunnable reports whether any goroutine but the caller is running or runnable
func othersRunnable() bool {
	buf := make([]byte, 1<<20)
	n := runtime.Stack(buf, true)
	first := true
	for _, line := range strings.Split(string(buf[:n]), "\n") {
		if !strings.HasPrefix(line, "goroutine ") {
			continue
		}
		if first {
			first = false // the caller itself
			continue
		}
		i := strings.IndexByte(line, '[')
		if i < 0 {
			continue
		}
		st := line[i+1:]
		if strings.HasPrefix(st, "running") || strings.HasPrefix(st, "runnable") || strings.HasPrefix(st, "syscall") {
			return true
		}
	}
	return n == len(buf) // a dump that does not fit says nothing
}

// pick chooses the parked, unfinished worker with the highest priority (caller holds mu)
func (s *Sched) pick() *worker {
	var best *worker
	for _, w := range s.list {
		if w.done || !w.parked {
			continue
		}
		if best == nil || w.prio > best.prio {
			best = w
		}
	}
	if best != nil {
		best.parked = false
		s.running++
	}
	return best
}

// Yield is the hook: the calling worker parks and the scheduler decides who runs next
func (s *Sched) Yield(point int) {
	if !s.active {
		return
	}
	gid := Goid()
	s.mu.Lock()
	w := s.workers[gid]
	if w == nil {
		s.mu.Unlock()
		return
	}
	s.steps++
	if len(s.Trace) < 4096 {
		s.Trace = append(s.Trace, uint16(w.id)<<8|uint16(point))
	}
	if s.change[s.steps] {
		if s.r != nil {
			w.prio = s.r.IntN(1000) // drop below the initial priorities
		} else {
			w.prio = -s.steps // planned schedule: the running worker goes to the back of the queue
		}
	}
	w.parked = true
	s.running--
	var next *worker
	if s.running == 0 {
		// (otherwise a worker that was taken for blocked is running as well: just park)
		next = s.pick()
	}
	if next == w {
		s.mu.Unlock()
		return
	}
	s.mu.Unlock()
	if next != nil {
		next.resume <- struct{}{}
	}
	<-w.resume
}

// Jitter is the free-running hook: non-synchronising random delays (no mutex,
// no atomics: the race detector must not see happens-before edges we add)
func Jitter(point int) {
	switch rand.IntN(8) {
	case 0, 1:
		runtime.Gosched()
	case 2:
		for i := 0; i < 200+rand.IntN(2000); i++ {
			_ = i
		}
	case 3:
		time.Sleep(time.Duration(rand.IntN(50)) * time.Microsecond)
	}
}
