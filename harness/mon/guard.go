// Package mon holds monitors shared by the workloads: guard-page buffers,
// address-range collection, allocation and CPU meters, schedulers.
package mon

import (
	"fmt"
	"reflect"
	"runtime/debug"
	"syscall"
	"unsafe"
)

var pageSize = syscall.Getpagesize()

// Guard is a read-only copy of some bytes whose last byte abuts an
// inaccessible page: reading past the end or writing anywhere faults.
type Guard struct {
	mem  []byte
	Data []byte // exact length and capacity
}

// NewGuard maps a guarded copy of data
func NewGuard(data []byte) (*Guard, error) {
	n := len(data)
	pages := (n + pageSize - 1) / pageSize
	if pages == 0 {
		pages = 1
	}
	total := (pages + 1) * pageSize
	mem, err := syscall.Mmap(-1, 0, total, syscall.PROT_READ|syscall.PROT_WRITE, syscall.MAP_ANON|syscall.MAP_PRIVATE)
	if err != nil {
		return nil, err
	}
	start := pages*pageSize - n
	copy(mem[start:], data)
	if err := syscall.Mprotect(mem[:pages*pageSize], syscall.PROT_READ); err != nil {
		syscall.Munmap(mem)
		return nil, err
	}
	if err := syscall.Mprotect(mem[pages*pageSize:], syscall.PROT_NONE); err != nil {
		syscall.Munmap(mem)
		return nil, err
	}
	g := &Guard{mem: mem}
	g.Data = mem[start : start+n : start+n]
	return g, nil
}

// Range returns the address range of the whole mapping
func (g *Guard) Range() (lo, hi uintptr) {
	lo = uintptr(unsafe.Pointer(&g.mem[0]))
	return lo, lo + uintptr(len(g.mem))
}

// DataRange returns the address range of the data
func (g *Guard) DataRange() (lo, hi uintptr) {
	lo, _ = g.Range()
	lo += uintptr(cap(g.mem) - pageSize - len(g.Data))
	return lo, lo + uintptr(len(g.Data))
}

// Free unmaps everything: any retained reference faults when read
func (g *Guard) Free() {
	if g.mem != nil {
		syscall.Munmap(g.mem)
		g.mem, g.Data = nil, nil
	}
}

// Faulting runs f with faults turned into panics and reports a fault (or any
// panic) as a string
func Faulting(f func()) (fault string) {
	fault, _ = FaultAt(f)
	return fault
}

// FaultAt is Faulting that also returns the faulting address (0 for a panic that is no fault)
func FaultAt(f func()) (fault string, addr uintptr) {
	old := debug.SetPanicOnFault(true)
	defer debug.SetPanicOnFault(old)
	defer func() {
		if r := recover(); r != nil {
			if e, ok := r.(interface{ Addr() uintptr }); ok {
				fault = fmt.Sprintf("fault at address %#x: %v", e.Addr(), r)
				addr = e.Addr()
				return
			}
			fault = fmt.Sprintf("panic: %v", r)
		}
	}()
	f()
	return "", 0
}

// Ref is a reference from a value into memory
type Ref struct {
	Path   string
	Lo, Hi uintptr
}

// Refs collects the address ranges of the data of every string and byte slice
// reachable from v (map keys included)
func Refs(v reflect.Value, path string, out *[]Ref, depth int) {
	if depth > 12 || !v.IsValid() {
		return
	}
	switch v.Kind() {
	case reflect.String:
		if v.Len() > 0 {
			s := v.String()
			p := uintptr(unsafe.Pointer(unsafe.StringData(s)))
			*out = append(*out, Ref{path, p, p + uintptr(len(s))})
		}
	case reflect.Slice:
		if v.Len() > 0 || v.Cap() > 0 {
			if v.Type().Elem().Kind() == reflect.Uint8 {
				p := v.Pointer()
				*out = append(*out, Ref{path, p, p + uintptr(v.Cap())})
				return
			}
		}
		for i := 0; i < v.Len(); i++ {
			Refs(v.Index(i), fmt.Sprintf("%s[%d]", path, i), out, depth+1)
		}
	case reflect.Ptr, reflect.Interface:
		if !v.IsNil() {
			Refs(v.Elem(), path+"*", out, depth+1)
		}
	case reflect.Struct:
		for i := 0; i < v.NumField(); i++ {
			f := v.Field(i)
			if !v.Type().Field(i).IsExported() {
				continue
			}
			Refs(f, path+"."+v.Type().Field(i).Name, out, depth+1)
		}
	case reflect.Map:
		it := v.MapRange()
		for it.Next() {
			Refs(it.Key(), path+".key", out, depth+1)
			Refs(it.Value(), path+".value", out, depth+1)
		}
	}
}

// Scratch is a writable anonymous mapping used as a re-usable input buffer;
// after Free any string that still points into it faults when read.
type Scratch struct{ Mem []byte }

// NewScratch maps size bytes read-write
func NewScratch(size int) (*Scratch, error) {
	size = (size + pageSize - 1) / pageSize * pageSize
	mem, err := syscall.Mmap(-1, 0, size, syscall.PROT_READ|syscall.PROT_WRITE, syscall.MAP_ANON|syscall.MAP_PRIVATE)
	if err != nil {
		return nil, err
	}
	return &Scratch{Mem: mem}, nil
}

// Range is the address range of the mapping
func (s *Scratch) Range() (lo, hi uintptr) {
	lo = uintptr(unsafe.Pointer(&s.Mem[0]))
	return lo, lo + uintptr(len(s.Mem))
}

// Free unmaps it
func (s *Scratch) Free() {
	if s.Mem != nil {
		syscall.Munmap(s.Mem)
		s.Mem = nil
	}
}
