package mon

import (
	"runtime"
	"sync/atomic"
	"syscall"
	"time"
)

// AllocMeter reads the cumulative bytes allocated by the process. It uses
// runtime.ReadMemStats, which flushes the per-P allocation caches and is exact;
// runtime/metrics lags by up to a span per size class (hundreds of KiB).
type AllocMeter struct{ ms runtime.MemStats }

// NewAllocMeter creates one
func NewAllocMeter() *AllocMeter { return &AllocMeter{} }

// Bytes returns the cumulative allocation
func (a *AllocMeter) Bytes() uint64 {
	runtime.ReadMemStats(&a.ms)
	return a.ms.TotalAlloc
}

// ProcessCPU returns the CPU time (user+system) consumed by the process
func ProcessCPU() time.Duration {
	var ru syscall.Rusage
	if syscall.Getrusage(syscall.RUSAGE_SELF, &ru) != nil {
		return 0
	}
	return time.Duration(ru.Utime.Nano() + ru.Stime.Nano())
}

// ThreadCPU returns the CPU time of the calling thread
func ThreadCPU() time.Duration {
	var ru syscall.Rusage
	const rusageThread = 1
	if syscall.Getrusage(rusageThread, &ru) != nil {
		return 0
	}
	return time.Duration(ru.Utime.Nano() + ru.Stime.Nano())
}

// Watchdog decides "does not terminate promptly" on CPU time, not wall time:
// the monitored goroutine bumps Step before every call; if the process burns
// more than Limit of CPU while Step stays the same, OnHang is called (from the
// watchdog goroutine) - typically to record the violation and exit so that the
// driver resumes after the case.
type Watchdog struct {
	// Busy is set while a monitored call is in flight; CPU burnt outside calls (generators, a
	// fuzzing engine) does not count
	Busy   atomic.Bool
	Step   atomic.Uint64
	Limit  time.Duration
	OnHang func(step uint64, burnt time.Duration)
	stop   atomic.Bool
}

// Start launches the watchdog goroutine
func (w *Watchdog) Start() {
	go func() {
		last := w.Step.Load()
		base := ProcessCPU()
		for !w.stop.Load() {
			time.Sleep(100 * time.Millisecond)
			now := w.Step.Load()
			cpu := ProcessCPU()
			if now != last || !w.Busy.Load() {
				last, base = now, cpu
				continue
			}
			if cpu-base > w.Limit {
				w.OnHang(now, cpu-base)
				base = cpu
			}
		}
	}()
}

// Stop ends it
func (w *Watchdog) Stop() { w.stop.Store(true) }
