package mon

import (
	"math/rand/v2"
	"testing"
)

// a trial whose workers wait for each other for ever is reported as a deadlock, not as starvation
func TestDeadlockDetected(t *testing.T) {
	s := NewSched(rand.New(rand.NewPCG(1, 2)), 2, 3, 100)
	a, b := make(chan struct{}), make(chan struct{})
	ok := s.Run([]func(){func() { <-a; close(b) }, func() { <-b; close(a) }})
	if ok || s.Why != "deadlock" {
		t.Fatalf("Run = %v, Why = %q, Starved = %d; want false, deadlock", ok, s.Why, s.Starved)
	}
}
