// Package core is the child-side runtime of the harness: deterministic case
// scheduling, per-case PRNG, the recorder that streams violations and coverage
// to the driver, and the cursor that lets the driver find the in-flight case
// when the process dies.
package core

import (
	"encoding/json"
	"fmt"
	"hash/fnv"
	"math/rand/v2"
	"os"
	"runtime/debug"
	"sort"
	"strconv"
	"sync"
	"syscall"
)

// Lane is one (build flavour, number of cases) pair of a property's plan.
type Lane struct {
	Lane     string `json:"lane"` // plain | race | asan | checkptr
	Cases    int    `json:"cases"`
	Shards   int    `json:"shards"`
	MemMB    int    `json:"mem_mb"`
	TimeoutS int    `json:"timeout_s"`
	Plenctag bool   `json:"plenctag"`
}

// Prop is the workload + monitor for one property.
type Prop struct {
	ID         string
	Rule       string
	Technique  string
	Assume     []string
	Exhaustive []string
	Plan       func(tier string) []Lane
	Setup      func(c *Ctx)
	Case       func(c *Ctx, idx int)
	Finish     func(c *Ctx)
}

var props = map[string]*Prop{}

// Register adds a property workload
func Register(p *Prop) { props[p.ID] = p }

// Get finds one
func Get(id string) *Prop { return props[id] }

// IDs lists registered properties
func IDs() []string {
	var ids []string
	for k := range props {
		ids = append(ids, k)
	}
	sort.Strings(ids)
	return ids
}

// Ctx is what a case sees.
type Ctx struct {
	Prop    *Prop
	Tier    string
	Lane    string
	Seed    int64
	Shard   int
	NShards int
	Cases   int
	Verbose bool
	Arg     string // property-specific argument of a replay
	Rec     *Recorder
	Idx     int
	State   any // per-process state of the property
}

// Thorough reports the tier
func (c *Ctx) Thorough() bool { return c.Tier == "thorough" }

func hashStr(s string) uint64 {
	h := fnv.New64a()
	h.Write([]byte(s))
	return h.Sum64()
}

// Rand returns the PRNG of case idx: a function of (seed, property, idx) only,
// so any case can be regenerated on its own for replay.
func (c *Ctx) Rand(idx int) *rand.Rand {
	return rand.New(rand.NewPCG(uint64(c.Seed)^hashStr(c.Prop.ID), uint64(idx)*0x9e3779b97f4a7c15+1))
}

// RandFor returns a PRNG for a named sub-stream of case idx
func (c *Ctx) RandFor(idx int, stream string) *rand.Rand {
	return rand.New(rand.NewPCG(uint64(c.Seed)^hashStr(c.Prop.ID+"/"+stream), uint64(idx)*0x9e3779b97f4a7c15+1))
}

// Violation is one refuting observation
type Violation struct {
	Property string         `json:"property"`
	Lane     string         `json:"lane"`
	Tier     string         `json:"tier"`
	Seed     int64          `json:"seed"`
	Case     int            `json:"case"`
	Kind     string         `json:"kind"`
	Detail   string         `json:"detail"`
	Extra    map[string]any `json:"extra,omitempty"`
}

// Recorder collects coverage and streams violations
type Recorder struct {
	mu       sync.Mutex
	ctx      *Ctx
	out      *os.File
	counters map[string]int64
	distinct map[string]map[uint64]struct{}
	samples  []any
	max      map[string]float64
	nviol    int
	// Last is the most recent violation (kind: detail), for callers that run the monitors in-process
	Last string
}

// NewRecorder opens the output stream
func NewRecorder(path string, ctx *Ctx) (*Recorder, error) {
	f, err := os.OpenFile(path, os.O_CREATE|os.O_WRONLY|os.O_TRUNC, 0o644)
	if err != nil {
		return nil, err
	}
	return &Recorder{ctx: ctx, out: f, counters: map[string]int64{}, distinct: map[string]map[uint64]struct{}{}, max: map[string]float64{}}, nil
}

// Count adds n to a named counter
func (r *Recorder) Count(key string, n int) {
	r.mu.Lock()
	r.counters[key] += int64(n)
	r.mu.Unlock()
}

// Eval counts one evaluation (one execution of the real code checked by an oracle)
func (r *Recorder) Eval(n int) { r.Count("evaluations", n) }

// Distinct records a member of a named set of hashes
func (r *Recorder) Distinct(set string, h uint64) {
	r.mu.Lock()
	s := r.distinct[set]
	if s == nil {
		s = map[uint64]struct{}{}
		r.distinct[set] = s
	}
	// bound memory and the size of the result stream: at most 250k members per set per shard (the
	// merged count is then a lower bound of the true number of distinct cases)
	if len(s) < 250_000 {
		s[h] = struct{}{}
	}
	r.mu.Unlock()
}

// NonTrivial records a distinct non-trivial case (what distinct_nontrivial counts)
func (r *Recorder) NonTrivial(h uint64) { r.Distinct("nontrivial", h) }

// Sample keeps the first few samples
func (r *Recorder) Sample(v any) {
	r.mu.Lock()
	if len(r.samples) < 4 {
		r.samples = append(r.samples, v)
	}
	r.mu.Unlock()
}

// WantSample says whether another sample would be kept
func (r *Recorder) WantSample() bool {
	r.mu.Lock()
	defer r.mu.Unlock()
	return len(r.samples) < 4
}

// Max tracks the maximum of an observed quantity
func (r *Recorder) Max(key string, v float64) {
	r.mu.Lock()
	if v > r.max[key] {
		r.max[key] = v
	}
	r.mu.Unlock()
}

// Violations so far
func (r *Recorder) Violations() int {
	r.mu.Lock()
	defer r.mu.Unlock()
	return r.nviol
}

// Violation records and streams a violation for the current case
func (r *Recorder) Violation(kind, detail string, extra map[string]any) {
	r.ViolationAt(r.ctx.Idx, kind, detail, extra)
}

// ViolationAt records a violation for case idx
func (r *Recorder) ViolationAt(idx int, kind, detail string, extra map[string]any) {
	r.mu.Lock()
	defer r.mu.Unlock()
	r.nviol++
	r.Last = kind + ": " + detail
	if r.nviol > 200 {
		return // enough
	}
	if len(detail) > 4000 {
		detail = detail[:4000] + "..."
	}
	v := Violation{Property: r.ctx.Prop.ID, Lane: r.ctx.Lane, Tier: r.ctx.Tier, Seed: r.ctx.Seed, Case: idx, Kind: kind, Detail: detail, Extra: extra}
	js, err := json.Marshal(map[string]any{"t": "viol", "v": v})
	if err != nil {
		js, _ = json.Marshal(map[string]any{"t": "viol", "v": Violation{Property: v.Property, Lane: v.Lane, Tier: v.Tier, Seed: v.Seed, Case: idx, Kind: kind, Detail: detail}})
	}
	r.out.Write(append(js, '\n'))
	if r.ctx.Verbose {
		fmt.Printf("VIOLATION [%s] case %d: %s\n", kind, idx, detail)
	}
}

// Close writes the final result record
func (r *Recorder) Close(done bool) {
	r.mu.Lock()
	defer r.mu.Unlock()
	d := map[string][]uint64{}
	for k, s := range r.distinct {
		l := make([]uint64, 0, len(s))
		for h := range s {
			l = append(l, h)
		}
		d[k] = l
	}
	js, _ := json.Marshal(map[string]any{"t": "result", "r": map[string]any{
		"done": done, "counters": r.counters, "distinct": d, "samples": r.samples, "max": r.max}})
	r.out.Write(append(js, '\n'))
	r.out.Close()
}

// Cursor persists the index of the case about to run, and (Note) a description
// of the call in flight, in a MAP_SHARED file so that both survive the death
// of the process without a system call per update.
type Cursor struct {
	f    *os.File
	note []byte
}

// TheCursor is the cursor of this process
var TheCursor = &Cursor{}

const noteSize = 16384

// OpenCursor creates the cursor file
func OpenCursor(path string) *Cursor {
	if path == "" {
		return &Cursor{}
	}
	f, err := os.OpenFile(path, os.O_CREATE|os.O_WRONLY|os.O_TRUNC, 0o644)
	if err != nil {
		return &Cursor{}
	}
	c := &Cursor{f: f}
	if nf, err := os.OpenFile(path+".note", os.O_CREATE|os.O_RDWR|os.O_TRUNC, 0o644); err == nil {
		if nf.Truncate(noteSize) == nil {
			if m, err := syscall.Mmap(int(nf.Fd()), 0, noteSize, syscall.PROT_READ|syscall.PROT_WRITE, syscall.MAP_SHARED); err == nil {
				c.note = m
			}
		}
		nf.Close()
	}
	TheCursor = c
	return c
}

// Note records what is about to be executed (kept short)
func (c *Cursor) Note(parts ...string) {
	if c.note == nil {
		return
	}
	n := 0
	for _, p := range parts {
		n += copy(c.note[n:noteSize-1], p)
	}
	c.note[n] = 0
}

// Set records idx
func (c *Cursor) Set(idx int) {
	if c.f == nil {
		return
	}
	var buf [24]byte
	b := strconv.AppendInt(buf[:0], int64(idx), 10)
	for len(b) < 20 {
		b = append(b, ' ')
	}
	c.f.WriteAt(b, 0)
}

// RunCase runs one case with panic capture
func RunCase(c *Ctx, idx int) {
	c.Idx = idx
	defer func() {
		if r := recover(); r != nil {
			c.Rec.ViolationAt(idx, "panic", fmt.Sprintf("%v\n%s", r, trimStack(debug.Stack())), nil)
		}
	}()
	c.Prop.Case(c, idx)
}

func trimStack(b []byte) string {
	if len(b) > 2500 {
		b = b[:2500]
	}
	return string(b)
}

// Guard runs f and converts a panic into an error string ("" = no panic)
func Guard(f func()) (panicked string) {
	defer func() {
		if r := recover(); r != nil {
			panicked = fmt.Sprintf("%v\n%s", r, trimStack(debug.Stack()))
		}
	}()
	f()
	return ""
}

// Hash64 hashes bytes
func Hash64(parts ...string) uint64 {
	h := fnv.New64a()
	for _, p := range parts {
		h.Write([]byte(p))
		h.Write([]byte{0})
	}
	return h.Sum64()
}
