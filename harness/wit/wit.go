// Package wit holds the pinned witnesses of the genuine defects found in the
// pinned philpearl/plenc tree (DESIGN.md §5). Each witness runs the real code on
// one specific input and reports whether the property held. Witnesses of fixed
// defects are regression cases; witnesses of known findings are what the
// KNOWN-FINDING line refers to.
package wit

import (
	"bytes"
	"encoding/json"
	"fmt"
	"reflect"
	"runtime/debug"
	"strings"
	"time"

	"github.com/philpearl/plenc"
	"github.com/philpearl/plenc/plenccodec"
	"github.com/philpearl/plenc/plenccore"
)

// W is one witness.
type W struct {
	ID       string // D-number
	Property string // property it belongs to (primary)
	What     string
	// Fatal witnesses can kill or hang the process on a defective tree: the
	// driver runs them in their own child under a watchdog and memory limit.
	Fatal bool
	Run   func() error // nil = property held on this input
}

func newP(arrays, ptime bool) *plenc.Plenc {
	p := &plenc.Plenc{ProtoCompatibleArrays: arrays, ProtoCompatibleTime: ptime}
	p.RegisterDefaultCodecs()
	return p
}

func guard(f func() error) (err error) {
	defer func() {
		if r := recover(); r != nil {
			err = fmt.Errorf("panic: %v", r)
		}
	}()
	return f()
}

// roundTrip marshals in (a pointer) and unmarshals to out (a pointer)
func roundTrip(p *plenc.Plenc, in, out any) error {
	data, err := p.Marshal(nil, in)
	if err != nil {
		return fmt.Errorf("marshal: %w", err)
	}
	if err := p.Unmarshal(data, out); err != nil {
		return fmt.Errorf("unmarshal of %x: %w", data, err)
	}
	return nil
}

func expectEq(got, want any) error {
	if !reflect.DeepEqual(got, want) {
		return fmt.Errorf("got %+v want %+v", got, want)
	}
	return nil
}

func descJSON(p *plenc.Plenc, v any) (string, error) {
	data, err := p.Marshal(nil, v)
	if err != nil {
		return "", err
	}
	t := reflect.TypeOf(v)
	if t.Kind() == reflect.Ptr {
		t = t.Elem()
	}
	c, err := p.CodecForType(t)
	if err != nil {
		return "", err
	}
	d := c.Descriptor()
	var jo plenccodec.JSONOutput
	if err := d.Read(&jo, data); err != nil {
		return "", fmt.Errorf("descriptor read: %w", err)
	}
	return string(jo.Done()), nil
}

func jsonEq(got string, want string) error {
	var g, w any
	dg := json.NewDecoder(strings.NewReader(got))
	dg.UseNumber()
	if err := dg.Decode(&g); err != nil {
		return fmt.Errorf("invalid JSON %q: %v", got, err)
	}
	dw := json.NewDecoder(strings.NewReader(want))
	dw.UseNumber()
	if err := dw.Decode(&w); err != nil {
		return fmt.Errorf("bad expectation %q: %v", want, err)
	}
	if !reflect.DeepEqual(g, w) {
		return fmt.Errorf("JSON %s, want %s", compact(got), want)
	}
	return nil
}

func compact(s string) string {
	var b bytes.Buffer
	if json.Compact(&b, []byte(s)) != nil {
		return s
	}
	return b.String()
}

func mustErr(p *plenc.Plenc, t reflect.Type) error {
	c, err := p.CodecForType(t)
	if err == nil && c != nil {
		return fmt.Errorf("type %s accepted, must be rejected", t)
	}
	return nil
}

// decodeMustNotCrash: decoding returns (anything) without panic
func decodeBytes(p *plenc.Plenc, data []byte, target any) error {
	return guard(func() error {
		_ = p.Unmarshal(data, target)
		return nil
	})
}

type kD1 struct {
	A int `plenc:"1"`
	B int `plenc:"2"`
}

type tD3in struct {
	T time.Time `plenc:"1,flattime"`
	S string    `plenc:"2"`
}
type tD3 struct {
	L []tD3in `plenc:"1"`
}

type tD10 struct {
	P *int `plenc:"1"`
}
type tD10m struct {
	M map[string]int `plenc:"1"`
}

type tIdx0 struct {
	A int `plenc:"0"`
	B int `plenc:"1"`
}

type tRec struct {
	V    int    `plenc:"1"`
	Next *tRec  `plenc:"2"`
	Kids []tRec `plenc:"3"`
}

type tFlat8 struct {
	A int8 `plenc:"1,flat"`
}

type tD16 struct {
	B  []bool           `plenc:"1"`
	T  []time.Time      `plenc:"2"`
	S  []string         `plenc:"3"`
	M  map[string]int   `plenc:"4"`
	N  map[int]int      `plenc:"5"`
	PS []*tD16e         `plenc:"6"`
	MP map[string]*int  `plenc:"7"`
	ME map[string]tD16e `plenc:"8"`
}
type tD16e struct {
	A int `plenc:"1"`
}

// All lists every witness.
var All = []W{
	{ID: "D1", Property: "C01", What: "struct-keyed map: a key's omitted zero field inherits the previous key's value from the pooled key scratch", Run: func() error {
		p := newP(false, false)
		for i := 0; i < 20; i++ { // map order is random: try several times
			in := map[kD1]int{{3, 2}: 1, {3, 0}: 2, {0, 7}: 3, {0, 0}: 4}
			var out map[kD1]int
			if err := roundTrip(p, &in, &out); err != nil {
				return err
			}
			if err := expectEq(out, in); err != nil {
				return err
			}
		}
		return nil
	}},
	{ID: "D2", Property: "C09", What: "map entry with zero key and present-but-empty value (map[int]*string{0:&\"\"}) reads back as nil value", Run: func() error {
		p := newP(false, false)
		e := ""
		in := map[int]*string{0: &e}
		var out map[int]*string
		if err := roundTrip(p, &in, &out); err != nil {
			return err
		}
		if v, ok := out[0]; !ok || v == nil || *v != "" {
			return fmt.Errorf("got %v want pointer to empty string", out)
		}
		return nil
	}},
	{ID: "D3", Property: "C05", What: "BQTimestampCodec.Size is the inherited size of the first word of time.Time, not of the microsecond value it appends", Run: func() error {
		p := newP(false, false)
		p.RegisterCodecWithTag(reflect.TypeOf(time.Time{}), "flattime", plenccodec.BQTimestampCodec{})
		in := tD3{L: []tD3in{{T: time.Date(2024, 3, 4, 5, 6, 7, 8000, time.UTC), S: "x"}, {T: time.Unix(1, 0).UTC(), S: "y"}}}
		var out tD3
		if err := roundTrip(p, &in, &out); err != nil {
			return err
		}
		return expectEq(out, in)
	}},
	{ID: "D4", Property: "C09", What: "**T with non-nil outer and nil inner pointer reads back as nil outer pointer (one level of presence in the format)", Run: func() error {
		type T struct {
			P **int `plenc:"1"`
		}
		p := newP(false, false)
		var inner *int
		in := T{P: &inner}
		var out T
		if err := roundTrip(p, &in, &out); err != nil {
			return err
		}
		if out.P == nil {
			return fmt.Errorf("outer pointer lost: got nil, want non-nil pointer to nil")
		}
		return nil
	}},
	{ID: "D5", Property: "C08", What: "proto mode accepts [][]string and flattens it", Run: func() error {
		type T struct {
			A [][]string `plenc:"1"`
		}
		p := newP(true, false)
		if _, err := p.CodecForType(reflect.TypeOf(T{})); err != nil {
			return nil // rejected: fine
		}
		in := T{A: [][]string{{"a"}, {"b", "c"}}}
		var out T
		if err := roundTrip(p, &in, &out); err != nil {
			return err
		}
		return expectEq(out, in)
	}},
	{ID: "D6", Property: "C08", What: "proto mode map[K][]string: repeated value frames inside one entry desynchronise the reader", Run: func() error {
		type T struct {
			M map[string][]string `plenc:"1"`
		}
		p := newP(true, false)
		if _, err := p.CodecForType(reflect.TypeOf(T{})); err != nil {
			return nil
		}
		in := T{M: map[string][]string{"k": {"a", "b"}}}
		var out T
		if err := roundTrip(p, &in, &out); err != nil {
			return err
		}
		return expectEq(out, in)
	}},
	{ID: "D7", Property: "C01", What: "proto mode []*string drops nil elements instead of keeping them as zero values", Run: func() error {
		type T struct {
			A []*string `plenc:"1"`
		}
		p := newP(true, false)
		a, b := "a", "b"
		in := T{A: []*string{&a, nil, &b}}
		var out T
		if err := roundTrip(p, &in, &out); err != nil {
			return err
		}
		if len(out.A) != 3 || out.A[1] == nil || *out.A[1] != "" || *out.A[0] != "a" || *out.A[2] != "b" {
			return fmt.Errorf("got %d elements, want 3 with the nil as empty string", len(out.A))
		}
		return nil
	}},
	{ID: "D8", Property: "C12", What: "proto-tagged map entry with zero key and zero value is dropped on read", Run: func() error {
		type T struct {
			M map[int]int `plenc:"1,proto"`
		}
		p := newP(false, false)
		in := T{M: map[int]int{0: 0, 1: 1}}
		var out T
		if err := roundTrip(p, &in, &out); err != nil {
			return err
		}
		return expectEq(out, in)
	}},
	{ID: "D9", Property: "C08", Fatal: true, What: "map of map / pointer to map accepted, then crash (nil dereference or fatal fault in mapiterinit)", Run: func() error {
		type T struct {
			M map[string]map[string]int `plenc:"1"`
		}
		type U struct {
			M *map[string]int `plenc:"1"`
		}
		p := newP(false, false)
		if _, err := p.CodecForType(reflect.TypeOf(T{})); err == nil {
			in := T{M: map[string]map[string]int{"a": {"b": 1}}}
			var out T
			if err := roundTrip(p, &in, &out); err != nil {
				return err
			}
			if err := expectEq(out, in); err != nil {
				return err
			}
		}
		if _, err := p.CodecForType(reflect.TypeOf(U{})); err == nil {
			m := map[string]int{"b": 1}
			in := U{M: &m}
			var out U
			if err := roundTrip(p, &in, &out); err != nil {
				return err
			}
			if err := expectEq(out, in); err != nil {
				return err
			}
		}
		return nil
	}},
	{ID: "D10", Property: "C06", Fatal: true, What: "Marshal by value of a struct whose only field is a pointer or map (stored directly in the interface word) crashes or encodes garbage", Run: func() error {
		p := newP(false, false)
		x := 7
		v := tD10{P: &x}
		byPtr, err := p.Marshal(nil, &v)
		if err != nil {
			return err
		}
		byVal, err := p.Marshal(nil, v)
		if err != nil {
			return err
		}
		if !bytes.Equal(byPtr, byVal) {
			return fmt.Errorf("by value %x, by pointer %x", byVal, byPtr)
		}
		m := tD10m{M: map[string]int{"a": 1}}
		byPtr, err = p.Marshal(nil, &m)
		if err != nil {
			return err
		}
		byVal, err = p.Marshal(nil, m)
		if err != nil {
			return err
		}
		if !bytes.Equal(byPtr, byVal) {
			return fmt.Errorf("map struct by value %x, by pointer %x", byVal, byPtr)
		}
		return nil
	}},
	{ID: "D11", Property: "C06", What: "Marshal(prefix, zero value) returns nil instead of the prefix", Run: func() error {
		p := newP(false, false)
		prefix := []byte{1, 2, 3}
		out, err := p.Marshal(prefix, 0)
		if err != nil {
			return err
		}
		if !bytes.Equal(out, prefix) {
			return fmt.Errorf("got %v want %v", out, prefix)
		}
		var np *int
		type T struct {
			P *int `plenc:"1"`
		}
		_ = np
		out, err = p.Marshal(prefix, "")
		if err != nil {
			return err
		}
		if !bytes.Equal(out, prefix) {
			return fmt.Errorf("empty string: got %v want %v", out, prefix)
		}
		return nil
	}},
	{ID: "D12a", Property: "C04", Fatal: true, What: "[]int <- 0x80: WTVarIntSliceWrapper loops forever on a truncated varint (ReadVarUint returns n==0)", Run: func() error {
		var out []int
		return decodeBytes(newP(false, false), []byte{0x80}, &out)
	}},
	{ID: "D12b", Property: "C04", Fatal: true, What: "struct with a field of index 0 <- 0x80: StructCodec.Read loops forever on a truncated tag", Run: func() error {
		var out tIdx0
		return decodeBytes(newP(false, false), []byte{0x80}, &out)
	}},
	{ID: "D12c", Property: "C04", Fatal: true, What: "StructCodec.Read: declared field length 2^63 overflows the bounds check and panics slicing", Run: func() error {
		var out tRec
		// field 2 (WTLength), length = 2^63
		data := append([]byte{0x12}, plenccore.AppendVarUint(nil, 1<<63)...)
		return decodeBytes(newP(false, false), data, &out)
	}},
	{ID: "D12d", Property: "C04", Fatal: true, What: "WTLengthSliceWrapper.Read: input-controlled allocation / slice bounds from the declared count and element length", Run: func() error {
		var out []string
		if err := decodeBytes(newP(false, false), plenccore.AppendVarUint(nil, 1<<40), &out); err != nil {
			return err
		}
		var out2 []string
		return decodeBytes(newP(false, false), []byte{1, 200, 1}, &out2)
	}},
	{ID: "D12e", Property: "C04", Fatal: true, What: "MapCodec.Read: declared count / entry length beyond the input panics or allocates without bound", Run: func() error {
		var out map[string]int
		if err := decodeBytes(newP(false, false), []byte{1, 100}, &out); err != nil {
			return err
		}
		var out2 map[string]int
		return decodeBytes(newP(false, false), plenccore.AppendVarUint(nil, 1<<40), &out2)
	}},
	{ID: "D12f", Property: "C04", Fatal: true, What: "TimeCodec.Read / TimeCompatCodec.Read: an over-long varint tag makes the offset negative and the next slice expression panics", Run: func() error {
		var out time.Time
		over := bytes.Repeat([]byte{0xff}, 11)
		if err := decodeBytes(newP(false, false), over, &out); err != nil {
			return err
		}
		return decodeBytes(newP(false, true), over, &out)
	}},
	{ID: "D12g", Property: "C04", Fatal: true, What: "JSON codecs: declared lengths/counts beyond the input panic; a key field inside a JSON array entry is a nil dereference", Run: func() error {
		p := newP(false, false)
		p.RegisterCodec(reflect.TypeOf(map[string]any{}), plenccodec.JSONMapCodec{})
		p.RegisterCodec(reflect.TypeOf([]any{}), plenccodec.JSONArrayCodec{})
		var m map[string]any
		if err := decodeBytes(p, []byte{1, 100}, &m); err != nil {
			return err
		}
		var a []any
		if err := decodeBytes(p, []byte{1, 100}, &a); err != nil {
			return err
		}
		var a2 []any
		// one entry of length 3: field 1 (key) with 1 byte
		if err := decodeBytes(p, []byte{1, 3, 0x0a, 1, 'k'}, &a2); err != nil {
			return err
		}
		var a3 []any
		return decodeBytes(p, plenccore.AppendVarUint(nil, 1<<40), &a3)
	}},
	{ID: "D12h", Property: "C18", What: "Skip claims more bytes than exist (8 for a 2-byte WT64, 4 for WT32, declared lengths beyond the input)", Run: func() error {
		return guard(func() error {
			for _, c := range []struct {
				wt   plenccore.WireType
				data []byte
			}{
				{plenccore.WT64, []byte{1, 2}},
				{plenccore.WT32, []byte{1}},
				{plenccore.WTLength, []byte{5, 1}},
				{plenccore.WTSlice, []byte{1, 5, 1}},
				{plenccore.WTLength, []byte{}},
				{plenccore.WTSlice, []byte{}},
			} {
				n, err := plenccore.Skip(c.data, c.wt)
				if err == nil && n > len(c.data) {
					return fmt.Errorf("Skip(%x, wt %d) = %d > len %d without error", c.data, c.wt, n, len(c.data))
				}
				if err == nil && len(c.data) == 0 {
					return fmt.Errorf("Skip(empty, wt %d) = %d without error", c.wt, n)
				}
			}
			return nil
		})
	}},
	{ID: "D12i", Property: "C04", Fatal: true, What: "Descriptor.Read: truncated tags loop forever, declared lengths beyond the input panic", Run: func() error {
		p := newP(false, false)
		c, err := p.CodecForType(reflect.TypeOf(tD16{}))
		if err != nil {
			return err
		}
		d := c.Descriptor()
		for _, data := range [][]byte{{0x80}, {0x1b, 1, 100}, {0x22, 2, 1, 100}, append([]byte{0x1a}, plenccore.AppendVarUint(nil, 1<<63)...)} {
			if err := guard(func() error {
				var jo plenccodec.JSONOutput
				_ = d.Read(&jo, data)
				return nil
			}); err != nil {
				return fmt.Errorf("%x: %w", data, err)
			}
		}
		return nil
	}},
	{ID: "D13", Property: "C07", Fatal: true, What: "concurrent first use of a recursive type publishes wrappers around a half-built struct codec to the shared registry", Run: runD13},
	{ID: "D14", Property: "C08", What: "plenc:\"-1\" panics with index out of range instead of returning an error", Run: func() error {
		type T struct {
			A int `plenc:"-1"`
		}
		return guard(func() error { return mustErr(newP(false, false), reflect.TypeOf(T{})) })
	}},
	{ID: "D15", Property: "C08", What: "a field that Go treats as unexported but that does not start with a lower-case letter (_x) is treated as exported", Run: func() error {
		t := reflect.StructOf([]reflect.StructField{
			{Name: "A", Type: reflect.TypeOf(0), Tag: `plenc:"1"`},
			{Name: "_x", PkgPath: "verifharness/wit", Type: reflect.TypeOf(0)},
		})
		return guard(func() error {
			p := newP(false, false)
			if _, err := p.CodecForType(t); err != nil {
				return fmt.Errorf("unexported field _x made the type fail: %v", err)
			}
			return nil
		})
	}},
	{ID: "D16a", Property: "C13", What: "descriptor walker errors on slices of bool and of time", Run: func() error {
		p := newP(false, false)
		got, err := descJSON(p, &tD16{B: []bool{true, false}, T: []time.Time{time.Unix(1, 0).UTC()}})
		if err != nil {
			return err
		}
		return jsonEq(got, `{"B":[true,false],"T":["1970-01-01T00:00:01Z"]}`)
	}},
	{ID: "D33", Property: "C13", What: "descriptor walker errors on a slice whose elements are written as flat integers (time.Time registered with BQTimestampCodec on the instance, which map values and slice elements need as they carry no tag option)", Run: func() error {
		p := newP(false, false)
		p.RegisterCodec(reflect.TypeOf(time.Time{}), plenccodec.BQTimestampCodec{})
		got, err := descJSON(p, &tD16{T: []time.Time{time.Unix(1, 0).UTC(), time.Unix(2, 5000).UTC()}})
		if err != nil {
			return err
		}
		return jsonEq(got, `{"T":["1970-01-01T00:00:01Z","1970-01-01T00:00:02.000005Z"]}`)
	}},
	{ID: "D34", Property: "C01", What: "a zero time.Time marshalled at top level on an instance whose time.Time codec is BQTimestampCodec comes back as 1970-01-01: the codec omits the zero time but reads an empty payload as microsecond 0", Run: func() error {
		p := newP(false, false)
		p.RegisterCodec(reflect.TypeOf(time.Time{}), plenccodec.BQTimestampCodec{})
		var z time.Time
		data, err := p.Marshal(nil, &z)
		if err != nil {
			return err
		}
		out := time.Unix(99, 0)
		if err := p.Unmarshal(data, &out); err != nil {
			return err
		}
		if !out.IsZero() {
			return fmt.Errorf("the zero time (encoded in %d bytes) reads back as %v", len(data), out)
		}
		return nil
	}},
	{ID: "D35", Property: "C10", What: "a slice of pointers to integers decoded into a target whose slice has enough capacity is not cleared first: every element is decoded into what the old element still points to, so a pointer the caller kept from the previous decode changes its value", Run: func() error {
		type T struct {
			S []*int32 `plenc:"1"`
		}
		p := newP(false, false)
		a, b, c := int32(1), int32(2), int32(7)
		first, err := p.Marshal(nil, &T{S: []*int32{&a, &b}})
		if err != nil {
			return err
		}
		second, err := p.Marshal(nil, &T{S: []*int32{&c}})
		if err != nil {
			return err
		}
		for _, cut := range []bool{true, false} {
			var t T
			if err := p.Unmarshal(first, &t); err != nil {
				return err
			}
			kept := t.S[0]
			if cut {
				t.S = t.S[:0]
			}
			if err := p.Unmarshal(second, &t); err != nil {
				return err
			}
			if len(t.S) != 1 || *t.S[0] != 7 {
				return fmt.Errorf("second decode gives %d elements", len(t.S))
			}
			if *kept != 1 {
				return fmt.Errorf("a pointer kept from the first decode reads %d after the second one (slice cut to [:0] first: %v), it was 1", *kept, cut)
			}
		}
		return nil
	}},
	{ID: "D16b", Property: "C13", What: "descriptor walker drops zero-length elements (empty strings, empty structs, nil pointers) from arrays", Run: func() error {
		p := newP(false, false)
		got, err := descJSON(p, &tD16{S: []string{"a", "", "b"}, PS: []*tD16e{{A: 1}, nil, {}}})
		if err != nil {
			return err
		}
		return jsonEq(got, `{"S":["a","","b"],"PS":[{"A":1},{},{}]}`)
	}},
	{ID: "D16c", Property: "C13", What: "descriptor walker renders string-keyed maps with a zero value or an empty key as invalid JSON, and drops the all-zero entry of other maps", Run: func() error {
		p := newP(false, false)
		got, err := descJSON(p, &tD16{M: map[string]int{"a": 0}})
		if err != nil {
			return err
		}
		if err := jsonEq(got, `{"M":{"a":0}}`); err != nil {
			return err
		}
		got, err = descJSON(p, &tD16{M: map[string]int{"": 5}})
		if err != nil {
			return err
		}
		if err := jsonEq(got, `{"M":{"":5}}`); err != nil {
			return err
		}
		got, err = descJSON(p, &tD16{N: map[int]int{0: 0}})
		if err != nil {
			return err
		}
		// omitted zero fields may be absent from an object, so {} is the entry
		if err := jsonEq(got, `{"N":[{"key":0,"value":0}]}`); err != nil {
			if err2 := jsonEq(got, `{"N":[{}]}`); err2 != nil {
				return err
			}
		}
		got, err = descJSON(p, &tD16{MP: map[string]*int{"n": nil}, ME: map[string]tD16e{"z": {}}})
		if err != nil {
			return err
		}
		return jsonEq(got, `{"MP":{"n":null},"ME":{"z":{}}}`)
	}},
	{ID: "D16d", Property: "C13", What: "descriptor walker renders a JSON null value as nothing (invalid JSON)", Run: func() error {
		p := newP(false, false)
		p.RegisterCodec(reflect.TypeOf(map[string]any{}), plenccodec.JSONMapCodec{})
		p.RegisterCodec(reflect.TypeOf([]any{}), plenccodec.JSONArrayCodec{})
		got, err := descJSON(p, &map[string]any{"a": nil, "b": []any{nil, 1}})
		if err != nil {
			return err
		}
		return jsonEq(got, `{"a":null,"b":[null,1]}`)
	}},
	{ID: "D17", Property: "C16", What: "JSONArrayCodec.Read into a non-nil target ignores the encoded count", Run: func() error {
		p := newP(false, false)
		p.RegisterCodec(reflect.TypeOf([]any{}), plenccodec.JSONArrayCodec{})
		in := []any{1, "x", true}
		data, err := p.Marshal(nil, &in)
		if err != nil {
			return err
		}
		out := []any{"stale"}
		if err := p.Unmarshal(data, &out); err != nil {
			return err
		}
		if err := expectEq(out, in); err != nil {
			return err
		}
		out = []any{1, 2, 3, 4, 5}
		if err := guard(func() error { return p.Unmarshal(data, &out) }); err != nil {
			return err
		}
		return expectEq(out, in)
	}},
	{ID: "D20", Property: "C14", Fatal: true, What: "Descriptor() of a recursive type recurses until the stack overflows (fatal)", Run: func() error {
		debug.SetMaxStack(64 << 20)
		p := newP(false, false)
		c, err := p.CodecForType(reflect.TypeOf(tRec{}))
		if err != nil {
			return err
		}
		_ = c.Descriptor()
		return nil
	}},
	{ID: "D21", Property: "C13", What: "a negative value in a flat int8/16/32 field is rendered by the Descriptor as the unsigned image of that width", Run: func() error {
		p := newP(false, false)
		got, err := descJSON(p, &tFlat8{A: -1})
		if err != nil {
			return err
		}
		return jsonEq(got, `{"A":-1}`)
	}},
	{ID: "D22", Property: "C09", What: "proto mode: a non-nil pointer to an empty slice of length-delimited elements encodes to nothing and reads back nil", Run: func() error {
		type T struct {
			P *[]string `plenc:"1"`
		}
		p := newP(true, false)
		e := []string{}
		in := T{P: &e}
		var out T
		if err := roundTrip(p, &in, &out); err != nil {
			return err
		}
		if out.P == nil {
			return fmt.Errorf("present pointer to empty slice read back as nil")
		}
		return nil
	}},
}

// ByID finds a witness
func ByID(id string) *W {
	for i := range All {
		if All[i].ID == id {
			return &All[i]
		}
	}
	return nil
}
