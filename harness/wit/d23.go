package wit

import (
	"fmt"
	"reflect"
	"time"

	"github.com/philpearl/plenc"
	pnull "github.com/philpearl/plenc/null"
	"github.com/unravelin/null"
)

func newNullP() *plenc.Plenc {
	p := newP(false, false)
	pnull.AddCodecs(p)
	return p
}

func init() {
	All = append(All,
		W{ID: "D23", Property: "C08", What: "Marshal of a []null.Float panics: WTFixedSliceWrapper asks the element codec for its size with a nil pointer and nullFloatCodec.Size dereferences it", Run: func() error {
			type T struct {
				F []null.Float `plenc:"1"`
			}
			p := newNullP()
			in := T{F: []null.Float{null.FloatFrom(1.5), null.FloatFrom(0)}}
			var out T
			if err := guard(func() error { return roundTrip(p, &in, &out) }); err != nil {
				return err
			}
			return expectEq(out, in)
		}},
		W{ID: "D24", Property: "C09", What: "a null.* value that is a slice element or a pointer target (not a plain struct field or map value) is written even when invalid and reads back valid", Run: func() error {
			type T struct {
				S []null.Int `plenc:"1"`
				P *null.Int  `plenc:"2"`
			}
			p := newNullP()
			in := T{S: []null.Int{null.IntFrom(3), null.NewInt(0, false)}, P: &null.Int{}}
			var out T
			if err := guard(func() error { return roundTrip(p, &in, &out) }); err != nil {
				return err
			}
			if len(out.S) != 2 || out.S[1].Valid {
				return fmt.Errorf("invalid slice element read back as %+v", out.S)
			}
			if out.P == nil || out.P.Valid {
				return fmt.Errorf("pointer to invalid null.Int read back as %+v", out.P)
			}
			return nil
		}},
	)
}

func init() {
	All = append(All, W{ID: "D25", Property: "C01", What: "ProtoCompatibleArrays: a top-level slice of length-delimited elements (not inside a struct) is written without any framing and does not round-trip", Run: func() error {
		p := newP(true, false)
		in := []string{"a", "b"}
		var out []string
		if err := guard(func() error { return roundTrip(p, &in, &out) }); err != nil {
			return err
		}
		return expectEq(out, in)
	}})
}

func init() {
	All = append(All, W{ID: "D26", Property: "C08", What: "a time.Time field with a tag option that selects no codec (flat, proto, ...) is silently encoded as an empty struct: the time is lost", Run: func() error {
		type T struct {
			A time.Time  `plenc:"1,flat"`
			P *time.Time `plenc:"2,proto"`
		}
		p := newP(false, false)
		if _, err := p.CodecForType(reflect.TypeOf(T{})); err != nil {
			return nil // an error naming the problem is what C08 asks for
		}
		now := time.Unix(1700000000, 5).UTC()
		in := T{A: now, P: &now}
		var out T
		if err := guard(func() error { return roundTrip(p, &in, &out) }); err != nil {
			return err
		}
		if !out.A.Equal(now) || out.P == nil || !out.P.Equal(now) {
			return fmt.Errorf("accepted, but the times read back as %v / %v", out.A, out.P)
		}
		return nil
	}})
}
