package wit

import (
	"fmt"
	"reflect"
	"runtime"
	"time"

	"github.com/philpearl/plenc"
	pnull "github.com/philpearl/plenc/null"
	"github.com/unravelin/null"
)

func newNullP() *plenc.Plenc {
	p := newP(false, false)
	pnull.AddCodecs(p)
	return p
}

func init() {
	All = append(All,
		W{ID: "D23", Property: "C08", What: "Marshal of a []null.Float panics: WTFixedSliceWrapper asks the element codec for its size with a nil pointer and nullFloatCodec.Size dereferences it", Run: func() error {
			type T struct {
				F []null.Float `plenc:"1"`
			}
			p := newNullP()
			in := T{F: []null.Float{null.FloatFrom(1.5), null.FloatFrom(0)}}
			var out T
			if err := guard(func() error { return roundTrip(p, &in, &out) }); err != nil {
				return err
			}
			return expectEq(out, in)
		}},
		W{ID: "D24", Property: "C09", What: "a null.* value that is a slice element or a pointer target (not a plain struct field or map value) is written even when invalid and reads back valid", Run: func() error {
			type T struct {
				S []null.Int `plenc:"1"`
				P *null.Int  `plenc:"2"`
			}
			p := newNullP()
			in := T{S: []null.Int{null.IntFrom(3), null.NewInt(0, false)}, P: &null.Int{}}
			var out T
			if err := guard(func() error { return roundTrip(p, &in, &out) }); err != nil {
				return err
			}
			if len(out.S) != 2 || out.S[1].Valid {
				return fmt.Errorf("invalid slice element read back as %+v", out.S)
			}
			if out.P == nil || out.P.Valid {
				return fmt.Errorf("pointer to invalid null.Int read back as %+v", out.P)
			}
			return nil
		}},
	)
}

func init() {
	All = append(All, W{ID: "D25", Property: "C01", What: "ProtoCompatibleArrays: a top-level slice of length-delimited elements (not inside a struct) is written without any framing and does not round-trip", Run: func() error {
		p := newP(true, false)
		in := []string{"a", "b"}
		var out []string
		if err := guard(func() error { return roundTrip(p, &in, &out) }); err != nil {
			return err
		}
		return expectEq(out, in)
	}})
}

func init() {
	All = append(All, W{ID: "D26", Property: "C08", What: "a time.Time field with a tag option that selects no codec (flat, proto, ...) is silently encoded as an empty struct: the time is lost", Run: func() error {
		type T struct {
			A time.Time  `plenc:"1,flat"`
			P *time.Time `plenc:"2,proto"`
		}
		p := newP(false, false)
		if _, err := p.CodecForType(reflect.TypeOf(T{})); err != nil {
			return nil // an error naming the problem is what C08 asks for
		}
		now := time.Unix(1700000000, 5).UTC()
		in := T{A: now, P: &now}
		var out T
		if err := guard(func() error { return roundTrip(p, &in, &out) }); err != nil {
			return err
		}
		if !out.A.Equal(now) || out.P == nil || !out.P.Equal(now) {
			return fmt.Errorf("accepted, but the times read back as %v / %v", out.A, out.P)
		}
		return nil
	}})
}

func init() {
	All = append(All, W{ID: "D30", Property: "C04", What: "an intern-tagged field copies its whole table for every unseen value: the memory one Unmarshal allocates grows with the number of distinct values the instance has ever decoded (unbounded under hostile input), not with the input length", Run: func() error {
		type T struct {
			S string `plenc:"1,intern"`
		}
		p := newP(false, false)
		var ms runtime.MemStats
		decode := func(s string) uint64 {
			data := append([]byte{0x0a, byte(len(s))}, s...)
			var out T
			runtime.ReadMemStats(&ms)
			before := ms.TotalAlloc
			if err := p.Unmarshal(data, &out); err != nil {
				return 0
			}
			runtime.ReadMemStats(&ms)
			return ms.TotalAlloc - before
		}
		first := decode("aaa")
		for i := 0; i < 4000; i++ {
			decode(fmt.Sprintf("v%05d", i))
		}
		last := decode("zzz")
		if last > 32<<10 && last > 20*first {
			return fmt.Errorf("decoding a 5-byte input allocated %d bytes after 4000 distinct values (the first decode allocated %d)", last, first)
		}
		return nil
	}})
}

func init() {
	All = append(All, W{ID: "D29", Property: "C08", Fatal: true, What: "a struct codec allocates a lookup table of (largest index + 1) entries: plenc:\"4611686018427387904\" panics in makeslice, and an index of a few hundred million asks for gigabytes", Run: func() error {
		type T struct {
			A int `plenc:"1"`
			B int `plenc:"4611686018427387904"`
		}
		return guard(func() error {
			p := newP(false, false)
			c, err := p.CodecForType(reflect.TypeOf(T{}))
			if err != nil {
				return nil // an error naming the problem is fine
			}
			_ = c
			in := T{A: 1, B: 2}
			var out T
			if err := roundTrip(p, &in, &out); err != nil {
				return err
			}
			return expectEq(out, in)
		})
	}})
}
