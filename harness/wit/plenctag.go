package wit

import (
	"fmt"
	"go/ast"
	"go/parser"
	"go/token"
	"os"
	"os/exec"
	"path/filepath"
	"reflect"
	"strconv"
	"strings"
)

// runPlenctag runs the real plenctag binary (path in VERIF_PLENCTAG, built by
// the driver from /repo/cmd/plenctag) on src and returns the rewritten file.
func runPlenctag(src string, args ...string) (out string, stderr string, code int, err error) {
	bin := os.Getenv("VERIF_PLENCTAG")
	if bin == "" {
		return "", "", 0, fmt.Errorf("inconclusive: VERIF_PLENCTAG not set")
	}
	dir, err := os.MkdirTemp(os.Getenv("VERIF_SCRATCH"), "ptag")
	if err != nil {
		return "", "", 0, err
	}
	defer os.RemoveAll(dir)
	fn := filepath.Join(dir, "in.go")
	if err := os.WriteFile(fn, []byte(src), 0o644); err != nil {
		return "", "", 0, err
	}
	cmd := exec.Command(bin, append(args, fn)...)
	var eb strings.Builder
	cmd.Stderr = &eb
	runErr := cmd.Run()
	code = cmd.ProcessState.ExitCode()
	_ = runErr
	b, err := os.ReadFile(fn)
	if err != nil {
		return "", eb.String(), code, err
	}
	return string(b), eb.String(), code, nil
}

func init() {
	All = append(All,
		W{ID: "D18", Property: "C20", What: "plenctag panics (index out of range on f.Names[0]) on a struct with an embedded field", Run: func() error {
			src := "package x\n\ntype Inner struct {\n\tA int\n}\n\ntype T struct {\n\tInner\n\t*Other\n\tB int\n}\n\ntype Other struct{}\n"
			out, stderr, code, err := runPlenctag(src)
			if err != nil {
				return err
			}
			if code != 0 || strings.Contains(stderr, "panic") {
				return fmt.Errorf("exit %d: %s", code, firstLine(stderr))
			}
			if !strings.Contains(out, "B int `plenc:\"3\"`") && !strings.Contains(out, "B      int `plenc:\"3\"`") && !strings.Contains(out, "`plenc:\"3\"`") {
				return fmt.Errorf("unexpected output:\n%s", out)
			}
			return nil
		}},
		W{ID: "D19", Property: "C20", What: "plenctag gives a multi-name field (X, Y int) one index for two fields, which plenc rejects as a duplicate", Run: func() error {
			src := "package x\n\ntype T struct {\n\tX, Y int\n\tZ    string\n}\n"
			out, stderr, code, err := runPlenctag(src)
			if err != nil {
				return err
			}
			if code != 0 {
				return fmt.Errorf("exit %d: %s", code, firstLine(stderr))
			}
			// every declared name must end up with its own index
			if strings.Contains(out, "X, Y") && strings.Contains(out, "plenc:\"1\"") {
				return fmt.Errorf("X and Y share one tag:\n%s", out)
			}
			for _, want := range []string{"plenc:\"1\"", "plenc:\"2\"", "plenc:\"3\""} {
				if !strings.Contains(out, want) {
					return fmt.Errorf("missing %s in:\n%s", want, out)
				}
			}
			return nil
		}},
	)
}

func firstLine(s string) string {
	if i := strings.IndexByte(s, '\n'); i >= 0 {
		return s[:i]
	}
	return s
}

func init() {
	All = append(All, W{ID: "D27", Property: "C20", What: "plenctag skips a whole multi-name field when its first name is unexported: in 'a, B int `json:\"-\"`' with -json the exported B is left without any plenc tag, which plenc then rejects", Run: func() error {
		src := "package x\n\ntype T struct {\n\ta, B int `json:\"-\"`\n\tC    int\n}\n"
		out, stderr, code, err := runPlenctag(src, "-json=true")
		if err != nil {
			return err
		}
		if code != 0 {
			return fmt.Errorf("exit %d: %s", code, firstLine(stderr))
		}
		for _, line := range strings.Split(out, "\n") {
			f := strings.Fields(line)
			if len(f) >= 2 && f[0] == "B" && !strings.Contains(line, `plenc:"-"`) {
				return fmt.Errorf("exported field B has no plenc tag:\n%s", out)
			}
			if len(f) >= 2 && (f[0] == "a" || f[0] == "a,") && strings.Contains(line, "plenc:") {
				return fmt.Errorf("unexported field a was given a plenc tag:\n%s", out)
			}
			if len(f) >= 2 && f[0] == "a," && !strings.Contains(line, "plenc:") {
				return fmt.Errorf("a and B still share one untagged declaration:\n%s", out)
			}
		}
		return nil
	}})
}

func init() {
	All = append(All, W{ID: "D28", Property: "C20", What: "plenctag re-serialises the whole tag through structtag, which rewrites json:\"-,\" (a field NAMED \"-\") to json:\"-\" (a field that is skipped): another key's value changes", Run: func() error {
		src := "package x\n\ntype T struct {\n\tA int `json:\"-,\"`\n\tB int `json:\"b,\"   xml:\"b\"`\n}\n"
		out, stderr, code, err := runPlenctag(src)
		if err != nil {
			return err
		}
		if code != 0 {
			return fmt.Errorf("exit %d: %s", code, firstLine(stderr))
		}
		if !strings.Contains(out, "`json:\"-,\" plenc:\"1\"`") {
			return fmt.Errorf("the json tag of A was not kept as it was:\n%s", out)
		}
		if !strings.Contains(out, "json:\"b,\"") || !strings.Contains(out, "xml:\"b\"") {
			return fmt.Errorf("the tags of B were not kept as they were:\n%s", out)
		}
		return nil
	}})
}

func init() {
	All = append(All, W{ID: "D31", Property: "C20", What: "plenctag panics (nil *structtag.Tags) on a struct tag that holds nothing but spaces", Run: func() error {
		src := "package x\n\ntype T struct {\n\tA int ` `\n\tB string \"  \"\n\tC bool\n}\n"
		out, stderr, code, err := runPlenctag(src)
		if err != nil {
			return err
		}
		if code != 0 {
			return fmt.Errorf("exit %d: %s", code, firstLine(stderr))
		}
		for _, want := range []string{"plenc:\"1\"", "plenc:\"2\"", "plenc:\"3\""} {
			if !strings.Contains(out, want) {
				return fmt.Errorf("no %s in the output:\n%s", want, out)
			}
		}
		return nil
	}})
	All = append(All, W{ID: "D32", Property: "C20", What: "plenctag writes the extended tag between backquotes even when the tag (an interpreted string in the source) holds a backquote: the output does not parse", Run: func() error {
		src := "package x\n\ntype T struct {\n\tA int \"json:\\\"a`b\\\"\"\n\tB string\n}\n"
		out, stderr, code, err := runPlenctag(src)
		if err != nil {
			return err
		}
		if code != 0 {
			return fmt.Errorf("exit %d: %s", code, firstLine(stderr))
		}
		f, perr := parser.ParseFile(token.NewFileSet(), "out.go", out, 0)
		if perr != nil {
			return fmt.Errorf("the output does not parse: %v\n%s", perr, out)
		}
		var tag string
		ast.Inspect(f, func(n ast.Node) bool {
			if fl, ok := n.(*ast.Field); ok && len(fl.Names) == 1 && fl.Names[0].Name == "A" && fl.Tag != nil {
				tag, _ = strconv.Unquote(fl.Tag.Value)
			}
			return true
		})
		if st := reflect.StructTag(tag); st.Get("json") != "a`b" || st.Get("plenc") != "1" {
			return fmt.Errorf("field A's tag is %q: want json \"a`b\" kept and plenc \"1\" added", tag)
		}
		return nil
	}})
}
