package wit

import (
	"bytes"
	"fmt"

	"github.com/philpearl/plenc/plenccodec"
)

// runD13 forces one specific interleaving with the verif yield hooks: while
// goroutine A is still building the codec of the recursive type tRec (it has
// finished field Next *tRec and is about to start the next field), goroutine B
// marshals a **tRec through the same instance. On the defective tree B finds
// the PointerWrapper around A's half-built StructCodec in the shared registry.
func runD13() error {
	ref := newP(false, false)
	x := &tRec{V: 1, Next: &tRec{V: 2}, Kids: []tRec{{V: 3}}}
	want, err := ref.Marshal(nil, &x)
	if err != nil {
		return err
	}

	p := newP(false, false)
	var (
		fired  bool
		fields int
		bErr   error
	)
	plenccodec.SetVerifYield(func(point int) {
		if fired || point != plenccodec.VerifYieldStructField {
			return
		}
		fields++
		if fields != 3 {
			return
		}
		fired = true
		done := make(chan struct{})
		go func() {
			defer close(done)
			bErr = guard(func() error {
				got, err := p.Marshal(nil, &x)
				if err != nil {
					return err
				}
				if !bytes.Equal(got, want) {
					return fmt.Errorf("concurrent Marshal returned %x, alone it returns %x", got, want)
				}
				return nil
			})
		}()
		<-done
	})
	defer plenccodec.SetVerifYield(nil)
	aErr := guard(func() error {
		got, err := p.Marshal(nil, x)
		if err != nil {
			return err
		}
		w2, _ := ref.Marshal(nil, x)
		if !bytes.Equal(got, w2) {
			return fmt.Errorf("builder's Marshal returned %x want %x", got, w2)
		}
		return nil
	})
	if !fired {
		return fmt.Errorf("inconclusive: yield point never reached")
	}
	if bErr != nil {
		return fmt.Errorf("goroutine B during A's first use: %w", bErr)
	}
	return aErr
}
