// Package v2 declares struct types with the same bare names as package types but other fields:
// another version of the schema, or simply another package's type of that name. reflect's
// Type.Name() (and with it a Descriptor's TypeName) cannot tell them apart; everything keyed by the
// reflect.Type can.
package v2

import (
	"reflect"
	"time"
)

// Leaf has three fields where types.Leaf has two, under other indexes
type Leaf struct {
	X string `plenc:"3"`
	Y []int  `plenc:"1"`
	Z bool   `plenc:"2"`
}

// Key is comparable, like types.Key
type Key struct {
	A string `plenc:"2"`
	B int64  `plenc:"1"`
}

// Named has eleven fields (types.Named has twenty-four), none of them of the same kind under the
// same index
type Named struct {
	S  string            `plenc:"1"`
	F  float64           `plenc:"2"`
	T  time.Time         `plenc:"3"`
	L  []Leaf            `plenc:"4"`
	B  []byte            `plenc:"5"`
	M  map[string]string `plenc:"6"`
	P  *Leaf             `plenc:"7"`
	U  uint16            `plenc:"8"`
	SS []string          `plenc:"9"`
	I  int32             `plenc:"10,flat"`
	K  map[Key]int       `plenc:"24"`
}

// Diamond is small here
type Diamond struct {
	N Named `plenc:"2"`
	L Leaf  `plenc:"1"`
}

// All lists them
var All = []reflect.Type{reflect.TypeOf(Leaf{}), reflect.TypeOf(Key{}), reflect.TypeOf(Named{}), reflect.TypeOf(Diamond{})}
