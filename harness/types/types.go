// Package types is the committed library of named, recursive, mutually
// recursive and embedding Go types that cannot be built with reflect at run
// time. The generators use them as leaves and as top-level types.
package types

import (
	"reflect"
	"time"
)

type (
	MyBool  bool
	MyInt   int
	MyInt8  int8
	MyInt16 int16
	MyInt32 int32
	MyInt64 int64
	MyUint  uint
	MyUint8 uint8
	MyU16   uint16
	MyU32   uint32
	MyU64   uint64
	MyF32   float32
	MyF64   float64
	MyStr   string
	// MyBytes is NOT the registered []byte: it is a slice of uint8 and is written as packed varints
	MyBytes []byte
	MyInts  []int
	MyStrs  []string
	MyF64s  []float64
	MyMap   map[string]int
	MyKMap  map[MyStr]MyInt
)

// Leaf is a small named struct
type Leaf struct {
	A int    `plenc:"1"`
	B string `plenc:"2"`
}

// Key is a comparable named struct usable as a map key
type Key struct {
	A int32  `plenc:"1"`
	B string `plenc:"2"`
	C bool   `plenc:"3"`
}

// Named uses every named scalar
type Named struct {
	B   MyBool  `plenc:"1"`
	I   MyInt   `plenc:"2"`
	I8  MyInt8  `plenc:"3"`
	I16 MyInt16 `plenc:"4"`
	I32 MyInt32 `plenc:"5"`
	I64 MyInt64 `plenc:"6"`
	U   MyUint  `plenc:"7"`
	U8  MyUint8 `plenc:"8"`
	U16 MyU16   `plenc:"9"`
	U32 MyU32   `plenc:"10"`
	U64 MyU64   `plenc:"11"`
	F32 MyF32   `plenc:"12"`
	F64 MyF64   `plenc:"13"`
	S   MyStr   `plenc:"14"`
	BS  MyBytes `plenc:"15"`
	IS  MyInts  `plenc:"16"`
	SS  MyStrs  `plenc:"17"`
	FS  MyF64s  `plenc:"18"`
	M   MyMap   `plenc:"19"`
	KM  MyKMap  `plenc:"20"`
	FI  MyInt32 `plenc:"21,flat"`
	IN  MyStr   `plenc:"22,intern"`
	PI  *MyInt  `plenc:"23"`
	SI  []MyInt `plenc:"24"`
}

// Tree is self-recursive through a slice, a pointer and a map value
type Tree struct {
	V    int             `plenc:"1"`
	Kids []Tree          `plenc:"2"`
	Next *Tree           `plenc:"3"`
	M    map[string]Tree `plenc:"4"`
	Name string          `plenc:"5,intern"`
}

// Place and Visit: the intern option on fields that are no strings (a struct, a pointer to one, a
// slice of them) whose type has string fields of its own. Not part of All.
type Place struct {
	City string `plenc:"1"`
	Zip  string `plenc:"2,intern"`
	N    int    `plenc:"3"`
}

type Visit struct {
	ID    int     `plenc:"1"`
	Where Place   `plenc:"2,intern"`
	Also  *Place  `plenc:"3,intern"`
	Many  []Place `plenc:"4,intern"`
	Plain Place   `plenc:"5"`
}

// BigIn and BigOut: a nested struct whose encoding runs to tens of kilobytes. Not part of All.
type BigIn struct {
	S string  `plenc:"1"`
	B []byte  `plenc:"2"`
	N []int32 `plenc:"3"`
}

type BigOut struct {
	ID   int              `plenc:"1"`
	In   BigIn            `plenc:"2"`
	P    *BigIn           `plenc:"3"`
	L    []BigIn          `plenc:"4"`
	M    map[string]BigIn `plenc:"5"`
	Tail string           `plenc:"6"`
}

// PTree is recursive through a slice of pointers
type PTree struct {
	V    int64     `plenc:"1,flat"`
	Kids []*PTree  `plenc:"2"`
	T    time.Time `plenc:"3"`
}

// MutA and MutB are mutually recursive
type MutA struct {
	X  int32  `plenc:"1"`
	B  *MutB  `plenc:"2"`
	Bs []MutB `plenc:"3"`
}

type MutB struct {
	Y string          `plenc:"1"`
	A *MutA           `plenc:"2"`
	M map[int32]*MutA `plenc:"3"`
}

// Tri1..3 form a cycle of three
type Tri1 struct {
	N *Tri2   `plenc:"1"`
	V float64 `plenc:"2"`
}
type Tri2 struct {
	N []Tri3 `plenc:"1"`
	V []byte `plenc:"2"`
}
type Tri3 struct {
	N map[string]*Tri1 `plenc:"1"`
	V uint16           `plenc:"2"`
}

// Diamond: one leaf shared by several parents
type DiamondL struct {
	A Leaf  `plenc:"1"`
	K []Key `plenc:"2"`
}
type DiamondR struct {
	A *Leaf        `plenc:"1"`
	K map[Key]Leaf `plenc:"2"`
}
type Diamond struct {
	L  DiamondL   `plenc:"1"`
	R  DiamondR   `plenc:"2"`
	LL []DiamondL `plenc:"3"`
	RR *DiamondR  `plenc:"4"`
}

// Embeds embeds structs (plenc treats an embedded struct as an ordinary field)
type Embeds struct {
	Leaf  `plenc:"1"`
	*Key  `plenc:"2"`
	Extra int `plenc:"3"`
}

// Mixed has skipped and unexported fields next to encoded ones
type Mixed struct {
	A       int     `plenc:"1"`
	skipped string  //nolint
	B       string  `plenc:"-"`
	C       float32 `plenc:"7" json:"sea,omitempty"`
	D       []Leaf  `plenc:"3" json:"-"`
	private *Mixed  //nolint
	E       *Mixed  `plenc:"2000"`
}

// SetPrivate lets the harness plant sentinels in Mixed's unexported fields
func (m *Mixed) SetPrivate(s string, p *Mixed) { m.skipped, m.private = s, p }

// Private reads them back
func (m *Mixed) Private() (string, *Mixed) { return m.skipped, m.private }

// KeyedMaps has struct-keyed and scalar-keyed maps with zero keys and values
type KeyedMaps struct {
	A map[Key]int       `plenc:"1"`
	B map[int]*string   `plenc:"2"`
	C map[float64]Leaf  `plenc:"3"`
	D map[bool][]string `plenc:"4"`
	E map[string][]int  `plenc:"5"`
	F map[MyInt8]MyF32  `plenc:"6"`
	G map[uint64]*Leaf  `plenc:"7,proto"`
	H map[string]string `plenc:"8,proto"`
}

// Protoish uses the proto options explicitly
type Protoish struct {
	S  []string        `plenc:"1,proto"`
	L  []Leaf          `plenc:"2,proto"`
	P  []*Leaf         `plenc:"3,proto"`
	T  []time.Time     `plenc:"4,proto"`
	B  [][]byte        `plenc:"5,proto"`
	M  map[string]Leaf `plenc:"6,proto"`
	I  []int           `plenc:"7,proto"`
	N  [][]int32       `plenc:"8,proto"`
	TT time.Time       `plenc:"9"`
	PT *time.Time      `plenc:"10"`
}

// All lists the library types usable as top-level / leaf types
var All = []reflect.Type{
	reflect.TypeOf(Leaf{}), reflect.TypeOf(Key{}), reflect.TypeOf(Named{}), reflect.TypeOf(Tree{}), reflect.TypeOf(PTree{}),
	reflect.TypeOf(MutA{}), reflect.TypeOf(MutB{}), reflect.TypeOf(Tri1{}), reflect.TypeOf(Tri2{}), reflect.TypeOf(Tri3{}),
	reflect.TypeOf(Diamond{}), reflect.TypeOf(Embeds{}), reflect.TypeOf(Mixed{}), reflect.TypeOf(KeyedMaps{}), reflect.TypeOf(Protoish{}),
}

// NamedScalars are leaves
var NamedScalars = []reflect.Type{
	reflect.TypeOf(MyBool(false)), reflect.TypeOf(MyInt(0)), reflect.TypeOf(MyInt8(0)), reflect.TypeOf(MyInt16(0)), reflect.TypeOf(MyInt32(0)), reflect.TypeOf(MyInt64(0)),
	reflect.TypeOf(MyUint(0)), reflect.TypeOf(MyUint8(0)), reflect.TypeOf(MyU16(0)), reflect.TypeOf(MyU32(0)), reflect.TypeOf(MyU64(0)),
	reflect.TypeOf(MyF32(0)), reflect.TypeOf(MyF64(0)), reflect.TypeOf(MyStr("")),
}

// NamedContainers are named slices/maps
var NamedContainers = []reflect.Type{
	reflect.TypeOf(MyBytes(nil)), reflect.TypeOf(MyInts(nil)), reflect.TypeOf(MyStrs(nil)), reflect.TypeOf(MyF64s(nil)), reflect.TypeOf(MyMap(nil)), reflect.TypeOf(MyKMap(nil)),
}

// Recursive lists the recursive ones (no finite Descriptor: D20)
var Recursive = map[reflect.Type]bool{
	reflect.TypeOf(Tree{}): true, reflect.TypeOf(PTree{}): true, reflect.TypeOf(MutA{}): true, reflect.TypeOf(MutB{}): true,
	reflect.TypeOf(Tri1{}): true, reflect.TypeOf(Tri2{}): true, reflect.TypeOf(Tri3{}): true, reflect.TypeOf(Mixed{}): true,
}

// Invalid recursive definitions (for C08): the invalid field comes after a field that leads back to
// the type through a map key, a slice, a pointer or a map value. Building their codec must fail and
// must leave nothing usable behind in the instance.
type BadKey struct {
	Next *BadMid  `plenc:"1"`
	Bad  chan int `plenc:"2"`
}
type BadMid struct {
	ByKey map[BadKey]int `plenc:"1"`
	Keys  []BadKey       `plenc:"2"`
}
type BadDup struct {
	Kids []BadDup          `plenc:"1"`
	M    map[string]BadDup `plenc:"2"`
	A    int               `plenc:"3"`
	B    int               `plenc:"3"`
}
type BadNoTag struct {
	P *BadNoTagHolder `plenc:"1"`
	X int
}
type BadNoTagHolder struct {
	L []*BadNoTag         `plenc:"1"`
	M map[int32]*BadNoTag `plenc:"2"`
}
type BadOpt struct {
	Self *BadOpt            `plenc:"1"`
	Ms   map[string]*BadOpt `plenc:"2"`
	S    string             `plenc:"3,flat"`
}

// InvalidRecursive lists them
var InvalidRecursive = []reflect.Type{reflect.TypeOf(BadKey{}), reflect.TypeOf(BadMid{}), reflect.TypeOf(BadDup{}), reflect.TypeOf(BadNoTag{}), reflect.TypeOf(BadNoTagHolder{}), reflect.TypeOf(BadOpt{})}
