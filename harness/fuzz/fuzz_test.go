//go:build verif

// Package fuzz is the coverage-guided lane of C04: Go's native fuzzer drives the
// same monitors (panic/fault capture, guard-page inputs, CPU and allocation
// meters, spare-capacity differential) that the seeded workload uses.
package fuzz

import (
	"testing"

	"verifharness/work"
)

func FuzzDecode(f *testing.F) {
	for ti, seeds := range work.FuzzSeeds() {
		for i, s := range seeds {
			if i >= 6 {
				break
			}
			f.Add(byte(ti), s)
		}
		f.Add(byte(ti), []byte{})
		f.Add(byte(ti), []byte{0x80})
	}
	f.Fuzz(func(t *testing.T, target byte, data []byte) {
		if v := work.FuzzOne(target, data); v != "" {
			t.Fatalf("C04 violation: %s", v)
		}
	})
}
