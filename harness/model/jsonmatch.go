package model

import (
	"encoding/json"
	"fmt"
	"reflect"
	"strconv"
	"time"

	"github.com/unravelin/null"
)

func jstr(s string) string { return string([]rune(s)) }

// zeroish: the value is omitted from the encoding, at every level, so its JSON rendering may be absent
func (c Cfg) zeroish(v reflect.Value, opt string) bool {
	t := v.Type()
	if c.special(t, opt) != SpNone || t == TimeT {
		return c.Omit(v, opt)
	}
	switch v.Kind() {
	case reflect.Ptr:
		return v.IsNil()
	case reflect.Map:
		return v.IsNil()
	case reflect.Slice:
		return v.Len() == 0
	case reflect.Struct:
		return false
	}
	return c.Omit(v, opt)
}

// JSONMatch compares a value with the parse (encoding/json, UseNumber) of the
// JSON that the Descriptor walk produced for its encoding: structs are objects
// keyed by descriptor name with omitted fields absent, slices arrays element
// for element, string-keyed maps objects and other maps key/value lists,
// pointers their target, times RFC 3339 strings, numbers exact.
func (c Cfg) JSONMatch(v reflect.Value, opt string, got any, present bool, path string) string {
	if !present {
		if c.zeroish(v, opt) {
			return ""
		}
		return fmt.Sprintf("%s: absent from the JSON but the value %s is not omitted from the encoding", path, Show(v))
	}
	t := v.Type()
	num := func(want string) string {
		if n, ok := got.(json.Number); !ok || string(n) != want {
			return fmt.Sprintf("%s: number %s rendered as %v", path, want, got)
		}
		return ""
	}
	flt := func(want float64) string {
		n, ok := got.(json.Number)
		if !ok {
			return fmt.Sprintf("%s: float %v rendered as %T %v", path, want, got, got)
		}
		f, err := strconv.ParseFloat(string(n), 64)
		if err != nil || f != want {
			return fmt.Sprintf("%s: float %v rendered as %s", path, want, n)
		}
		return ""
	}
	str := func(want string) string {
		if s, ok := got.(string); !ok || s != jstr(want) {
			return fmt.Sprintf("%s: string %q rendered as %#v", path, want, got)
		}
		return ""
	}
	tim := func(want time.Time) string {
		s, ok := got.(string)
		if !ok {
			return fmt.Sprintf("%s: time rendered as %T %v", path, got, got)
		}
		tm, err := time.Parse(time.RFC3339Nano, s)
		if err != nil || !tm.Equal(want) {
			return fmt.Sprintf("%s: time %v rendered as %q (%v)", path, want, s, err)
		}
		return ""
	}
	switch c.special(t, opt) {
	case SpBQTime:
		tm := v.Interface().(time.Time)
		return tim(time.UnixMicro(tm.UnixMicro()))
	case SpNullInt:
		n := v.Interface().(null.Int)
		if !n.Valid {
			if got != nil {
				return fmt.Sprintf("%s: invalid null.Int rendered as %v", path, got)
			}
			return ""
		}
		return num(strconv.FormatInt(n.Int64, 10))
	case SpNullBool:
		n := v.Interface().(null.Bool)
		if !n.Valid {
			if got != nil {
				return fmt.Sprintf("%s: invalid null.Bool rendered as %v", path, got)
			}
			return ""
		}
		if b, ok := got.(bool); !ok || b != n.Bool {
			return fmt.Sprintf("%s: bool %v rendered as %v", path, n.Bool, got)
		}
		return ""
	case SpNullFloat:
		n := v.Interface().(null.Float)
		if !n.Valid {
			if got != nil {
				return fmt.Sprintf("%s: invalid null.Float rendered as %v", path, got)
			}
			return ""
		}
		return flt(n.Float64)
	case SpNullString:
		n := v.Interface().(null.String)
		if !n.Valid {
			if got != nil {
				return fmt.Sprintf("%s: invalid null.String rendered as %v", path, got)
			}
			return ""
		}
		return str(n.String)
	case SpNullTime:
		n := v.Interface().(null.Time)
		if !n.Valid {
			if got != nil {
				return fmt.Sprintf("%s: invalid null.Time rendered as %v", path, got)
			}
			return ""
		}
		return tim(n.Time)
	case SpJSONMap, SpJSONArray:
		return jsonAnyMatch(normJSONAny(v.Interface()), got, path)
	}
	if t == TimeT {
		return tim(v.Interface().(time.Time))
	}
	if t == BytesT {
		return str(string(v.Bytes()))
	}
	k := t.Kind()
	switch {
	case k == reflect.Bool:
		if b, ok := got.(bool); !ok || b != v.Bool() {
			return fmt.Sprintf("%s: bool %v rendered as %v", path, v.Bool(), got)
		}
	case isIntKind(k):
		return num(strconv.FormatInt(v.Int(), 10))
	case isUintKind(k):
		return num(strconv.FormatUint(v.Uint(), 10))
	case k == reflect.Float32, k == reflect.Float64:
		return flt(v.Float())
	case k == reflect.String:
		return str(v.String())
	case k == reflect.Ptr:
		if v.IsNil() {
			if got == nil {
				return ""
			}
			return fmt.Sprintf("%s: nil pointer rendered as %v", path, got)
		}
		return c.JSONMatch(v.Elem(), opt, got, true, path+"*")
	case k == reflect.Struct:
		obj, ok := got.(map[string]any)
		if !ok {
			return fmt.Sprintf("%s: struct rendered as %T %v", path, got, got)
		}
		seen := 0
		for _, f := range Fields(t) {
			g, ok := obj[f.Name]
			if ok {
				seen++
			}
			fv := v.Field(f.GoIndex)
			if !ok && c.zeroish(fv, f.Opt) {
				continue
			}
			if !ok && fv.Kind() == reflect.Struct && fv.Type() != TimeT && c.special(fv.Type(), f.Opt) == SpNone {
				return fmt.Sprintf("%s.%s: struct field absent from the JSON", path, f.Name)
			}
			if d := c.JSONMatch(fv, f.Opt, g, ok, path+"."+f.Name); d != "" {
				return d
			}
		}
		if seen != len(obj) {
			return fmt.Sprintf("%s: the object has keys that are not fields: %v", path, keysOf(obj))
		}
	case k == reflect.Slice:
		arr, ok := got.([]any)
		if !ok {
			return fmt.Sprintf("%s: slice rendered as %T %v", path, got, got)
		}
		et := t.Elem()
		var exp []reflect.Value
		var wasNil []bool
		for i := 0; i < v.Len(); i++ {
			e := v.Index(i)
			isNil := false
			if et.Kind() == reflect.Ptr && e.IsNil() {
				if c.WireType(et, "") != WTLength {
					continue // dropped
				}
				z := reflect.New(et.Elem())
				for p := z; p.Type().Elem().Kind() == reflect.Ptr; p = p.Elem().Elem().Addr() {
					p.Elem().Set(reflect.New(p.Type().Elem().Elem()))
				}
				e, isNil = z, true
			}
			exp = append(exp, e)
			wasNil = append(wasNil, isNil)
		}
		if len(arr) != len(exp) {
			return fmt.Sprintf("%s: slice of %d elements rendered with %d: %v", path, len(exp), len(arr), arr)
		}
		for i := range exp {
			if wasNil[i] {
				// the element that stands for a nil pointer is empty: a struct renders as {} without any field
				bt := et
				for bt.Kind() == reflect.Ptr {
					bt = bt.Elem()
				}
				if bt.Kind() == reflect.Struct && bt != TimeT && c.special(bt, "") == SpNone {
					if obj, ok := arr[i].(map[string]any); !ok || len(obj) != 0 {
						return fmt.Sprintf("%s[%d]: nil pointer element rendered as %v, want {}", path, i, arr[i])
					}
					continue
				}
			}
			if d := c.JSONMatch(exp[i], "", arr[i], true, fmt.Sprintf("%s[%d]", path, i)); d != "" {
				return d
			}
		}
	case k == reflect.Map:
		if t.Key().Kind() == reflect.String && c.special(t.Key(), "") == SpNone {
			obj, ok := got.(map[string]any)
			if !ok {
				return fmt.Sprintf("%s: string-keyed map rendered as %T %v", path, got, got)
			}
			if len(obj) != v.Len() {
				return fmt.Sprintf("%s: map of %d entries rendered with %d: %v", path, v.Len(), len(obj), keysOf(obj))
			}
			it := v.MapRange()
			for it.Next() {
				g, ok := obj[jstr(it.Key().String())]
				if !ok {
					return fmt.Sprintf("%s: key %q missing in %v", path, it.Key().String(), keysOf(obj))
				}
				if d := c.JSONMatch(it.Value(), "", g, true, path+"["+strconv.Quote(it.Key().String())+"]"); d != "" {
					return d
				}
			}
			return ""
		}
		arr, ok := got.([]any)
		if !ok || len(arr) != v.Len() {
			return fmt.Sprintf("%s: map of %d entries rendered as %v", path, v.Len(), got)
		}
		used := make([]bool, len(arr))
		it := v.MapRange()
	next:
		for it.Next() {
			for i, g := range arr {
				if used[i] {
					continue
				}
				obj, ok := g.(map[string]any)
				if !ok {
					return fmt.Sprintf("%s: map entry rendered as %T", path, g)
				}
				kg, kok := obj["key"]
				vg, vok := obj["value"]
				if c.JSONMatch(it.Key(), "", kg, kok, path+".key") == "" && c.JSONMatch(it.Value(), "", vg, vok, path+".value") == "" {
					used[i] = true
					continue next
				}
			}
			return fmt.Sprintf("%s: no rendered entry matches key %s value %s in %v", path, Show(it.Key()), Show(it.Value()), arr)
		}
	default:
		return fmt.Sprintf("%s: kind %s", path, k)
	}
	return ""
}

func keysOf(m map[string]any) []string {
	var ks []string
	for k := range m {
		ks = append(ks, k)
	}
	return ks
}

func normJSONAny(v any) any {
	switch x := v.(type) {
	case []any:
		o := make([]any, len(x))
		for i := range x {
			o[i] = normJSONAny(x[i])
		}
		return o
	case map[string]any:
		o := make(map[string]any, len(x))
		for k, e := range x {
			o[k] = normJSONAny(e)
		}
		return o
	}
	return v
}

func jsonAnyMatch(v any, got any, path string) string {
	switch x := v.(type) {
	case nil:
		if got != nil {
			return fmt.Sprintf("%s: nil rendered as %v", path, got)
		}
	case bool:
		if g, ok := got.(bool); !ok || g != x {
			return fmt.Sprintf("%s: %v rendered as %v", path, x, got)
		}
	case int:
		if g, ok := got.(json.Number); !ok || string(g) != strconv.Itoa(x) {
			return fmt.Sprintf("%s: int %d rendered as %v", path, x, got)
		}
	case float64:
		g, ok := got.(json.Number)
		if !ok {
			return fmt.Sprintf("%s: float rendered as %T", path, got)
		}
		if f, err := strconv.ParseFloat(string(g), 64); err != nil || f != x {
			return fmt.Sprintf("%s: float %v rendered as %s", path, x, g)
		}
	case string:
		if g, ok := got.(string); !ok || g != jstr(x) {
			return fmt.Sprintf("%s: string %q rendered as %#v", path, x, got)
		}
	case json.Number:
		if g, ok := got.(json.Number); !ok || g != x {
			return fmt.Sprintf("%s: json.Number %q rendered as %#v", path, x, got)
		}
	case []any:
		g, ok := got.([]any)
		if !ok || len(g) != len(x) {
			return fmt.Sprintf("%s: array of %d rendered as %v", path, len(x), got)
		}
		for i := range x {
			if d := jsonAnyMatch(x[i], g[i], fmt.Sprintf("%s[%d]", path, i)); d != "" {
				return d
			}
		}
	case map[string]any:
		g, ok := got.(map[string]any)
		if !ok || len(g) != len(x) {
			return fmt.Sprintf("%s: object of %d rendered as %v", path, len(x), got)
		}
		for k, e := range x {
			ge, ok := g[jstr(k)]
			if !ok {
				return fmt.Sprintf("%s: key %q missing", path, k)
			}
			if d := jsonAnyMatch(e, ge, path+"."+strconv.Quote(k)); d != "" {
				return d
			}
		}
	}
	return ""
}
