// Package model is an independent, reflect-only reference model of plenc's
// wire format and decoding rules, written from README.md, doc.go, the comments
// in plenccore/wire.go and plenccodec/codec.go, and the golden files. It shares
// no code with plenc (it does not import it) and uses no unsafe.
package model

import (
	"encoding/binary"
	"encoding/json"
	"fmt"
	"math"
	"reflect"
	"sort"
	"strconv"
	"strings"
	"time"

	"github.com/unravelin/null"
)

// Cfg is the configuration of the Plenc instance being modelled.
type Cfg struct {
	ProtoArrays bool
	ProtoTime   bool
	// JSONAny: map[string]any and []any are handled by the JSON codecs
	JSONAny bool
	// Null: the null.* codecs are registered
	Null bool
	// Tagged: codecs registered for (type, tag): value is a Special kind
	Tagged map[TypeTag]Special
	// Plain: codecs registered for (type, "")
	Plain map[reflect.Type]Special
}

// TypeTag is a registry key
type TypeTag struct {
	Type reflect.Type
	Tag  string
}

// Special identifies a codec that is not derived from the kind
type Special int

const (
	SpNone Special = iota
	SpBQTime
	SpNullInt
	SpNullBool
	SpNullFloat
	SpNullString
	SpNullTime
	SpJSONMap
	SpJSONArray
	SpMarker // harness marker codec: WTLength, body = the registered marker bytes; see MarkerBody
)

// MarkerBody returns the body a marker codec writes; set by workloads that use SpMarker
var MarkerBody func(t reflect.Type, tag string) []byte

var (
	TimeT       = reflect.TypeOf(time.Time{})
	BytesT      = reflect.TypeOf([]byte(nil))
	NullIntT    = reflect.TypeOf(null.Int{})
	NullBoolT   = reflect.TypeOf(null.Bool{})
	NullFloatT  = reflect.TypeOf(null.Float{})
	NullStringT = reflect.TypeOf(null.String{})
	NullTimeT   = reflect.TypeOf(null.Time{})
	JSONMapT    = reflect.TypeOf(map[string]any{})
	JSONArrayT  = reflect.TypeOf([]any{})
)

// Wire types
const (
	WTVarInt = 0
	WT64     = 1
	WTLength = 2
	WTSlice  = 3
	WT32     = 5
)

// special finds the registered special codec for exactly (t, opt)
func (c Cfg) special(t reflect.Type, opt string) Special {
	if opt != "" {
		if s, ok := c.Tagged[TypeTag{t, opt}]; ok {
			return s
		}
		return SpNone
	}
	if s, ok := c.Plain[t]; ok {
		return s
	}
	if c.Null {
		switch t {
		case NullIntT:
			return SpNullInt
		case NullBoolT:
			return SpNullBool
		case NullFloatT:
			return SpNullFloat
		case NullStringT:
			return SpNullString
		case NullTimeT:
			return SpNullTime
		}
	}
	if c.JSONAny {
		switch t {
		case JSONMapT:
			return SpJSONMap
		case JSONArrayT:
			return SpJSONArray
		}
	}
	return SpNone
}

// FieldInfo is the model's reading of one struct field
type FieldInfo struct {
	GoIndex int
	Index   int
	Opt     string // option with intern stripped
	Intern  bool
	Name    string // descriptor name: json name or Go name
	Type    reflect.Type
}

// Fields returns the encoded fields of struct type t in declaration order
func Fields(t reflect.Type) []FieldInfo {
	var out []FieldInfo
	for i := 0; i < t.NumField(); i++ {
		sf := t.Field(i)
		if !sf.IsExported() {
			continue
		}
		tg := sf.Tag.Get("plenc")
		if tg == "-" || tg == "" {
			continue
		}
		is, opt, _ := strings.Cut(tg, ",")
		idx, err := strconv.Atoi(is)
		if err != nil {
			continue
		}
		fi := FieldInfo{GoIndex: i, Index: idx, Opt: opt, Name: sf.Name, Type: sf.Type}
		if opt == "intern" {
			fi.Opt, fi.Intern = "", true
		}
		if jn, _, _ := strings.Cut(sf.Tag.Get("json"), ","); jn != "" {
			fi.Name = jn
		}
		out = append(out, fi)
	}
	return out
}

// F32Bits returns the bit pattern of a float32 value as it lies in memory. Going through
// reflect's Float() would widen it to float64 and back, which turns a signalling NaN into a quiet
// one: the bits are part of the wire format.
func F32Bits(v reflect.Value) uint32 {
	if !v.CanAddr() {
		nv := reflect.New(v.Type()).Elem()
		nv.Set(v)
		v = nv
	}
	return *(*uint32)(v.Addr().UnsafePointer())
}

// SetF32Bits stores a bit pattern into an addressable float32 value
func SetF32Bits(v reflect.Value, bits uint32) { *(*uint32)(v.Addr().UnsafePointer()) = bits }

func isIntKind(k reflect.Kind) bool  { return k >= reflect.Int && k <= reflect.Int64 }
func isUintKind(k reflect.Kind) bool { return k >= reflect.Uint && k <= reflect.Uint64 }

// WireType of a (type, option) pair in configuration c
func (c Cfg) WireType(t reflect.Type, opt string) int {
	switch c.special(t, opt) {
	case SpBQTime, SpNullInt, SpNullBool:
		return WTVarInt
	case SpNullFloat:
		return WT64
	case SpNullString, SpNullTime, SpMarker:
		return WTLength
	case SpJSONMap, SpJSONArray:
		return WTSlice
	}
	if t == TimeT || t == BytesT {
		return WTLength
	}
	k := t.Kind()
	switch {
	case k == reflect.Bool, isIntKind(k), isUintKind(k):
		return WTVarInt
	case k == reflect.Float32:
		return WT32
	case k == reflect.Float64:
		return WT64
	case k == reflect.String, k == reflect.Struct:
		return WTLength
	case k == reflect.Ptr:
		return c.WireType(t.Elem(), opt)
	case k == reflect.Slice:
		if c.WireType(t.Elem(), "") == WTLength && !(c.ProtoArrays || opt == "proto") {
			return WTSlice
		}
		return WTLength
	case k == reflect.Map:
		if opt == "proto" {
			return WTLength
		}
		return WTSlice
	}
	panic("model: no wire type for " + t.String())
}

// Repeated says whether (t,opt) is written in the protobuf repeated-field form
// (one tagged frame per element / entry)
func (c Cfg) Repeated(t reflect.Type, opt string) bool {
	if c.special(t, opt) != SpNone || t == BytesT || t == TimeT {
		return false
	}
	switch t.Kind() {
	case reflect.Ptr:
		return c.Repeated(t.Elem(), opt)
	case reflect.Slice:
		return c.WireType(t.Elem(), "") == WTLength && (c.ProtoArrays || opt == "proto")
	case reflect.Map:
		return opt == "proto"
	}
	return false
}

// Omit says whether v is left out when it is a plain struct field / map half / top-level value
func (c Cfg) Omit(v reflect.Value, opt string) bool {
	t := v.Type()
	switch c.special(t, opt) {
	case SpBQTime:
		return v.Interface().(time.Time).IsZero()
	case SpNullInt:
		return !v.Interface().(null.Int).Valid
	case SpNullBool:
		return !v.Interface().(null.Bool).Valid
	case SpNullFloat:
		return !v.Interface().(null.Float).Valid
	case SpNullString:
		return !v.Interface().(null.String).Valid
	case SpNullTime:
		return !v.Interface().(null.Time).Valid
	case SpJSONMap:
		return v.IsNil()
	case SpJSONArray:
		return v.Len() == 0
	case SpMarker:
		return false
	}
	if t == TimeT {
		return v.Interface().(time.Time).IsZero()
	}
	k := t.Kind()
	switch {
	case k == reflect.Bool:
		return !v.Bool()
	case isIntKind(k):
		return v.Int() == 0
	case isUintKind(k):
		return v.Uint() == 0
	case k == reflect.Float32, k == reflect.Float64:
		return v.Float() == 0
	case k == reflect.String, k == reflect.Slice:
		return v.Len() == 0
	case k == reflect.Map, k == reflect.Ptr:
		return v.IsNil()
	case k == reflect.Struct:
		return false
	}
	panic("model: omit " + t.String())
}

func uvar(b []byte, v uint64) []byte {
	for v >= 0x80 {
		b = append(b, byte(v)|0x80)
		v >>= 7
	}
	return append(b, byte(v))
}

func zz(v int64) uint64 { return uint64(v<<1) ^ uint64(v>>63) }

func unzz(u uint64) int64 { return int64(u>>1) ^ -int64(u&1) }

func appendTag(b []byte, idx, wt int) []byte { return uvar(b, uint64(idx)<<3|uint64(wt)) }

func timeBody(b []byte, tm time.Time, proto bool) []byte {
	if proto {
		b = uvar(appendTag(b, 1, 0), uint64(tm.Unix()))
		return uvar(appendTag(b, 2, 0), uint64(uint32(tm.Nanosecond())))
	}
	b = uvar(appendTag(b, 1, 0), zz(tm.Unix()))
	return uvar(appendTag(b, 2, 0), zz(int64(tm.Nanosecond())))
}

// MapOrder, when non-nil, supplies the order in which map entries are written
// (the model cannot know Go's iteration order); default: sorted by encoded entry.
func sortedEntries(es [][]byte) [][]byte {
	sort.Slice(es, func(i, j int) bool { return string(es[i]) < string(es[j]) })
	return es
}

// Body encodes the untagged form of v
func (c Cfg) Body(b []byte, v reflect.Value, opt string) []byte {
	t := v.Type()
	switch c.special(t, opt) {
	case SpBQTime:
		return uvar(b, uint64(v.Interface().(time.Time).UnixMicro()))
	case SpNullInt:
		return uvar(b, zz(v.Interface().(null.Int).Int64))
	case SpNullBool:
		if v.Interface().(null.Bool).Bool {
			return append(b, 1)
		}
		return append(b, 0)
	case SpNullFloat:
		return binary.LittleEndian.AppendUint64(b, math.Float64bits(v.Interface().(null.Float).Float64))
	case SpNullString:
		return append(b, v.Interface().(null.String).String...)
	case SpNullTime:
		return timeBody(b, v.Interface().(null.Time).Time, false)
	case SpJSONMap:
		return jsonMapBody(b, v.Interface().(map[string]any))
	case SpJSONArray:
		return jsonArrayBody(b, v.Interface().([]any))
	case SpMarker:
		return append(b, MarkerBody(t, opt)...)
	}
	if t == TimeT {
		return timeBody(b, v.Interface().(time.Time), c.ProtoTime)
	}
	if t == BytesT {
		return append(b, v.Bytes()...)
	}
	k := t.Kind()
	switch {
	case k == reflect.Bool:
		if v.Bool() {
			return append(b, 1)
		}
		return append(b, 0)
	case isIntKind(k):
		if opt == "flat" {
			u := uint64(v.Int())
			if bits := t.Bits(); bits < 64 {
				u &= 1<<uint(bits) - 1
			}
			return uvar(b, u)
		}
		return uvar(b, zz(v.Int()))
	case isUintKind(k):
		return uvar(b, v.Uint())
	case k == reflect.Float32:
		return binary.LittleEndian.AppendUint32(b, F32Bits(v))
	case k == reflect.Float64:
		return binary.LittleEndian.AppendUint64(b, math.Float64bits(v.Float()))
	case k == reflect.String:
		return append(b, v.String()...)
	case k == reflect.Ptr:
		return c.Body(b, v.Elem(), opt)
	case k == reflect.Struct:
		for _, f := range Fields(t) {
			b = c.Field(b, v.Field(f.GoIndex), f.Index, f.Opt)
		}
		return b
	case k == reflect.Slice:
		et := t.Elem()
		if c.WireType(et, "") != WTLength {
			for i := 0; i < v.Len(); i++ {
				e := v.Index(i)
				if et.Kind() == reflect.Ptr && e.IsNil() {
					continue
				}
				b = c.Body(b, e, "")
			}
			return b
		}
		b = uvar(b, uint64(v.Len()))
		for i := 0; i < v.Len(); i++ {
			eb := c.elemBody(v.Index(i))
			b = uvar(b, uint64(len(eb)))
			b = append(b, eb...)
		}
		return b
	case k == reflect.Map:
		es := c.entries(v)
		b = uvar(b, uint64(len(es)))
		for _, eb := range es {
			b = uvar(b, uint64(len(eb)))
			b = append(b, eb...)
		}
		return b
	}
	panic("model: body " + t.String())
}

func (c Cfg) elemBody(e reflect.Value) []byte {
	if e.Kind() == reflect.Ptr && e.IsNil() {
		return nil
	}
	return c.Body(nil, e, "")
}

func (c Cfg) entries(v reflect.Value) [][]byte {
	var es [][]byte
	it := v.MapRange()
	for it.Next() {
		var eb []byte
		eb = c.Field(eb, it.Key(), 1, "")
		eb = c.Field(eb, it.Value(), 2, "")
		es = append(es, eb)
	}
	return sortedEntries(es)
}

// Field encodes v as field idx (nothing when omitted)
func (c Cfg) Field(b []byte, v reflect.Value, idx int, opt string) []byte {
	if c.Omit(v, opt) {
		return b
	}
	t := v.Type()
	w := c.WireType(t, opt)
	if c.Repeated(t, opt) {
		for t.Kind() == reflect.Ptr {
			v = v.Elem()
			t = v.Type()
		}
		if t.Kind() == reflect.Slice {
			for i := 0; i < v.Len(); i++ {
				eb := c.elemBody(v.Index(i))
				b = appendTag(b, idx, WTLength)
				b = uvar(b, uint64(len(eb)))
				b = append(b, eb...)
			}
			return b
		}
		for _, eb := range c.entries(v) {
			b = appendTag(b, idx, WTLength)
			b = uvar(b, uint64(len(eb)))
			b = append(b, eb...)
		}
		return b
	}
	bd := c.Body(nil, v, opt)
	b = appendTag(b, idx, w)
	if w == WTLength {
		b = uvar(b, uint64(len(bd)))
	}
	return append(b, bd...)
}

// Encode is the model's Marshal(nil, &v): map entries in canonical (sorted) order
func (c Cfg) Encode(v reflect.Value) []byte {
	if c.Omit(v, "") {
		return nil
	}
	return c.Body(nil, v, "")
}

// ---- JSON-any encoding ----

const (
	jNil = iota
	jString
	jInt
	jFloat
	jBool
	jArray
	jObject
	jNumber
)

func jsonValue(b []byte, v any) []byte {
	b = appendTag(b, 2, WTVarInt)
	switch x := v.(type) {
	case nil:
		return uvar(b, jNil)
	case string:
		b = uvar(b, jString)
		b = appendTag(b, 3, WTLength)
		b = uvar(b, uint64(len(x)))
		return append(b, x...)
	case int:
		b = uvar(b, jInt)
		b = appendTag(b, 3, WTVarInt)
		return uvar(b, zz(int64(x)))
	case float64:
		b = uvar(b, jFloat)
		b = appendTag(b, 3, WT64)
		return binary.LittleEndian.AppendUint64(b, math.Float64bits(x))
	case bool:
		b = uvar(b, jBool)
		b = appendTag(b, 3, WTVarInt)
		if x {
			return append(b, 1)
		}
		return append(b, 0)
	case []any:
		b = uvar(b, jArray)
		b = appendTag(b, 3, WTSlice)
		return jsonArrayBody(b, x)
	case map[string]any:
		b = uvar(b, jObject)
		b = appendTag(b, 3, WTSlice)
		return jsonMapBody(b, x)
	case json.Number:
		b = uvar(b, jNumber)
		b = appendTag(b, 3, WTLength)
		b = uvar(b, uint64(len(x)))
		return append(b, x...)
	}
	panic(fmt.Sprintf("model: json value %T", v))
}

func jsonArrayBody(b []byte, a []any) []byte {
	b = uvar(b, uint64(len(a)))
	for _, e := range a {
		eb := jsonValue(nil, e)
		b = uvar(b, uint64(len(eb)))
		b = append(b, eb...)
	}
	return b
}

func jsonMapBody(b []byte, m map[string]any) []byte {
	var es [][]byte
	for k, v := range m {
		var eb []byte
		eb = appendTag(eb, 1, WTLength)
		eb = uvar(eb, uint64(len(k)))
		eb = append(eb, k...)
		eb = jsonValue(eb, v)
		es = append(es, eb)
	}
	es = sortedEntries(es)
	b = uvar(b, uint64(len(es)))
	for _, eb := range es {
		b = uvar(b, uint64(len(eb)))
		b = append(b, eb...)
	}
	return b
}

// Omits is Cfg.Omit as a function
func Omits(c Cfg, v reflect.Value, opt string) bool { return c.Omit(v, opt) }

// ElemBody is the untagged encoding of a slice element (empty for a nil pointer)
func (c Cfg) ElemBody(e reflect.Value) []byte { return c.elemBody(e) }

// CanonEntry walks one map entry
func (c Cfg) CanonEntry(mt reflect.Type, data []byte) ([]byte, error) { return c.canonEntry(mt, data) }
