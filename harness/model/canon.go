package model

import (
	"encoding/binary"
	"fmt"
	"reflect"
	"sort"
)

// readUvar reads a varint strictly: minimal-length not required, but it must
// terminate within the data and fit 64 bits.
func readUvar(b []byte) (uint64, int, error) {
	v, n := binary.Uvarint(b)
	if n <= 0 {
		return 0, 0, fmt.Errorf("bad varint at %x", head(b, 12))
	}
	return v, n, nil
}

func head(b []byte, n int) []byte {
	if len(b) > n {
		return b[:n]
	}
	return b
}

// Canon parses data strictly as the untagged encoding of a value of type
// (t, opt) and re-emits it with map entries (and runs of repeated map frames)
// sorted, so that two encodings of the same value compare equal whatever the
// map iteration order was. It fails if any length prefix, count or wire type is
// not exactly what the format prescribes or if the data cannot be walked to its
// precise end - this is the structural walk C05 asks for.
func (c Cfg) Canon(t reflect.Type, opt string, data []byte) ([]byte, error) {
	return c.canonBody(t, opt, data)
}

func (c Cfg) canonVarint(data []byte, what string) ([]byte, error) {
	_, n, err := readUvar(data)
	if err != nil {
		return nil, fmt.Errorf("%s: %w", what, err)
	}
	if n != len(data) {
		return nil, fmt.Errorf("%s: varint takes %d of %d bytes", what, n, len(data))
	}
	return data, nil
}

func (c Cfg) canonTime(data []byte) ([]byte, error) {
	off := 0
	seen := 0
	for off < len(data) {
		tg, n, err := readUvar(data[off:])
		if err != nil {
			return nil, fmt.Errorf("time tag: %w", err)
		}
		off += n
		if tg&7 != WTVarInt || (tg>>3 != 1 && tg>>3 != 2) {
			return nil, fmt.Errorf("time: unexpected tag %d", tg)
		}
		_, n, err = readUvar(data[off:])
		if err != nil {
			return nil, fmt.Errorf("time field: %w", err)
		}
		off += n
		seen++
	}
	if seen != 2 {
		return nil, fmt.Errorf("time: %d fields, want seconds and nanoseconds", seen)
	}
	return data, nil
}

func (c Cfg) canonBody(t reflect.Type, opt string, data []byte) ([]byte, error) {
	switch c.special(t, opt) {
	case SpBQTime, SpNullInt, SpNullBool:
		return c.canonVarint(data, t.String())
	case SpNullFloat:
		if len(data) != 8 {
			return nil, fmt.Errorf("null.Float: %d bytes", len(data))
		}
		return data, nil
	case SpNullString, SpMarker:
		return data, nil
	case SpNullTime:
		return c.canonTime(data)
	case SpJSONMap:
		out, n, err := canonJSONContainer(data, true)
		if err == nil && n != len(data) {
			err = fmt.Errorf("JSON object: %d trailing bytes", len(data)-n)
		}
		return out, err
	case SpJSONArray:
		out, n, err := canonJSONContainer(data, false)
		if err == nil && n != len(data) {
			err = fmt.Errorf("JSON array: %d trailing bytes", len(data)-n)
		}
		return out, err
	}
	if t == TimeT {
		return c.canonTime(data)
	}
	if t == BytesT {
		return data, nil
	}
	k := t.Kind()
	switch {
	case k == reflect.Bool, isIntKind(k), isUintKind(k):
		return c.canonVarint(data, t.String())
	case k == reflect.Float32:
		if len(data) != 4 {
			return nil, fmt.Errorf("float32: %d bytes", len(data))
		}
		return data, nil
	case k == reflect.Float64:
		if len(data) != 8 {
			return nil, fmt.Errorf("float64: %d bytes", len(data))
		}
		return data, nil
	case k == reflect.String:
		return data, nil
	case k == reflect.Ptr:
		return c.canonBody(t.Elem(), opt, data)
	case k == reflect.Struct:
		return c.canonStruct(t, data)
	case k == reflect.Slice:
		et := t.Elem()
		switch c.WireType(et, "") {
		case WTVarInt:
			off := 0
			for off < len(data) {
				_, n, err := readUvar(data[off:])
				if err != nil {
					return nil, fmt.Errorf("packed %s: %w", t, err)
				}
				off += n
			}
			return data, nil
		case WT32:
			if len(data)%4 != 0 {
				return nil, fmt.Errorf("packed %s: %d bytes", t, len(data))
			}
			return data, nil
		case WT64:
			if len(data)%8 != 0 {
				return nil, fmt.Errorf("packed %s: %d bytes", t, len(data))
			}
			return data, nil
		case WTLength:
			cnt, n, err := readUvar(data)
			if err != nil {
				return nil, fmt.Errorf("count of %s: %w", t, err)
			}
			out := uvar(nil, cnt)
			off := n
			for i := uint64(0); i < cnt; i++ {
				l, n, err := readUvar(data[off:])
				if err != nil {
					return nil, fmt.Errorf("length of element %d of %s: %w", i, t, err)
				}
				off += n
				if l > uint64(len(data)-off) {
					return nil, fmt.Errorf("element %d of %s: length %d exceeds the %d bytes left", i, t, l, len(data)-off)
				}
				eb := data[off : off+int(l)]
				off += int(l)
				if !(et.Kind() == reflect.Ptr && l == 0) {
					if eb, err = c.canonBody(et, "", eb); err != nil {
						return nil, fmt.Errorf("element %d of %s: %w", i, t, err)
					}
				}
				out = uvar(out, uint64(len(eb)))
				out = append(out, eb...)
			}
			if off != len(data) {
				return nil, fmt.Errorf("%s: %d bytes after the last of %d elements", t, len(data)-off, cnt)
			}
			return out, nil
		}
		return nil, fmt.Errorf("slice of %s has no encoding", et)
	case k == reflect.Map:
		cnt, n, err := readUvar(data)
		if err != nil {
			return nil, fmt.Errorf("count of %s: %w", t, err)
		}
		off := n
		var es [][]byte
		for i := uint64(0); i < cnt; i++ {
			l, n, err := readUvar(data[off:])
			if err != nil {
				return nil, fmt.Errorf("length of entry %d of %s: %w", i, t, err)
			}
			off += n
			if l > uint64(len(data)-off) {
				return nil, fmt.Errorf("entry %d of %s: length %d exceeds the %d bytes left", i, t, l, len(data)-off)
			}
			eb, err := c.canonEntry(t, data[off:off+int(l)])
			if err != nil {
				return nil, fmt.Errorf("entry %d of %s: %w", i, t, err)
			}
			off += int(l)
			es = append(es, eb)
		}
		if off != len(data) {
			return nil, fmt.Errorf("%s: %d bytes after the last of %d entries", t, len(data)-off, cnt)
		}
		es = sortedEntries(es)
		out := uvar(nil, cnt)
		for _, eb := range es {
			out = uvar(out, uint64(len(eb)))
			out = append(out, eb...)
		}
		return out, nil
	}
	return nil, fmt.Errorf("no encoding for %s", t)
}

type cfield struct {
	idx   int
	bytes []byte // tag + [len] + canonical body
	sortK bool   // part of a run of repeated map frames
}

// canonFieldList canonicalises a sequence of tagged fields. lookup gives the
// type and option of index idx.
func (c Cfg) canonFieldList(data []byte, what string, lookup func(idx int) (reflect.Type, string, bool)) ([]byte, error) {
	var fs []cfield
	off := 0
	for off < len(data) {
		tg, n, err := readUvar(data[off:])
		if err != nil {
			return nil, fmt.Errorf("%s: tag: %w", what, err)
		}
		off += n
		idx, w := int(tg>>3), int(tg&7)
		ft, fopt, ok := lookup(idx)
		if !ok {
			return nil, fmt.Errorf("%s: field index %d is not a field of the type", what, idx)
		}
		want := c.WireType(ft, fopt)
		if w != want {
			return nil, fmt.Errorf("%s: field %d has wire type %d, the format prescribes %d for %s", what, idx, w, want, ft)
		}
		var body []byte
		var payload []byte
		switch w {
		case WTLength:
			l, n, err := readUvar(data[off:])
			if err != nil {
				return nil, fmt.Errorf("%s: length of field %d: %w", what, idx, err)
			}
			off += n
			if l > uint64(len(data)-off) {
				return nil, fmt.Errorf("%s: field %d: length %d exceeds the %d bytes left", what, idx, l, len(data)-off)
			}
			payload = data[off : off+int(l)]
			off += int(l)
		case WTVarInt:
			_, n, err := readUvar(data[off:])
			if err != nil {
				return nil, fmt.Errorf("%s: field %d: %w", what, idx, err)
			}
			payload = data[off : off+n]
			off += n
		case WT64, WT32:
			sz := 8
			if w == WT32 {
				sz = 4
			}
			if len(data)-off < sz {
				return nil, fmt.Errorf("%s: field %d: %d bytes left for a fixed%d", what, idx, len(data)-off, sz*8)
			}
			payload = data[off : off+sz]
			off += sz
		case WTSlice:
			// the extent of a counted field is only known by walking it
			n, err := extentCounted(data[off:])
			if err != nil {
				return nil, fmt.Errorf("%s: field %d: %w", what, idx, err)
			}
			payload = data[off : off+n]
			off += n
		default:
			return nil, fmt.Errorf("%s: wire type %d", what, w)
		}
		isMapFrame := false
		if c.Repeated(ft, fopt) {
			bt := ft
			for bt.Kind() == reflect.Ptr {
				bt = bt.Elem()
			}
			if bt.Kind() == reflect.Slice {
				et := bt.Elem()
				if et.Kind() == reflect.Ptr && len(payload) == 0 {
					body = payload
				} else if body, err = c.canonBody(et, "", payload); err != nil {
					return nil, fmt.Errorf("%s: repeated field %d: %w", what, idx, err)
				}
			} else {
				isMapFrame = true
				if body, err = c.canonEntry(bt, payload); err != nil {
					return nil, fmt.Errorf("%s: repeated map field %d: %w", what, idx, err)
				}
			}
		} else if body, err = c.canonBody(ft, fopt, payload); err != nil {
			return nil, fmt.Errorf("%s: field %d: %w", what, idx, err)
		}
		fb := appendTag(nil, idx, w)
		if w == WTLength {
			fb = uvar(fb, uint64(len(body)))
		}
		fb = append(fb, body...)
		fs = append(fs, cfield{idx: idx, bytes: fb, sortK: isMapFrame})
	}
	// sort runs of repeated map frames of the same field
	for i := 0; i < len(fs); {
		j := i + 1
		if fs[i].sortK {
			for j < len(fs) && fs[j].sortK && fs[j].idx == fs[i].idx {
				j++
			}
			run := fs[i:j]
			sort.Slice(run, func(a, b int) bool { return string(run[a].bytes) < string(run[b].bytes) })
		}
		i = j
	}
	var out []byte
	for _, f := range fs {
		out = append(out, f.bytes...)
	}
	return out, nil
}

// extentCounted walks count, then count x (length, bytes)
func extentCounted(b []byte) (int, error) {
	cnt, n, err := readUvar(b)
	if err != nil {
		return 0, fmt.Errorf("count: %w", err)
	}
	off := n
	for i := uint64(0); i < cnt; i++ {
		l, n, err := readUvar(b[off:])
		if err != nil {
			return 0, fmt.Errorf("length of element %d: %w", i, err)
		}
		off += n
		if l > uint64(len(b)-off) {
			return 0, fmt.Errorf("element %d: length %d exceeds the %d bytes left", i, l, len(b)-off)
		}
		off += int(l)
	}
	return off, nil
}

func (c Cfg) canonStruct(t reflect.Type, data []byte) ([]byte, error) {
	fields := Fields(t)
	return c.canonFieldList(data, t.String(), func(idx int) (reflect.Type, string, bool) {
		for _, f := range fields {
			if f.Index == idx {
				return f.Type, f.Opt, true
			}
		}
		return nil, "", false
	})
}

func (c Cfg) canonEntry(mt reflect.Type, data []byte) ([]byte, error) {
	return c.canonFieldList(data, "entry of "+mt.String(), func(idx int) (reflect.Type, string, bool) {
		switch idx {
		case 1:
			return mt.Key(), "", true
		case 2:
			return mt.Elem(), "", true
		}
		return nil, "", false
	})
}

// canonJSONContainer canonicalises a JSON object/array body and returns the bytes consumed
func canonJSONContainer(data []byte, object bool) ([]byte, int, error) {
	cnt, n, err := readUvar(data)
	if err != nil {
		return nil, 0, fmt.Errorf("JSON count: %w", err)
	}
	off := n
	var es [][]byte
	for i := uint64(0); i < cnt; i++ {
		l, n, err := readUvar(data[off:])
		if err != nil {
			return nil, 0, fmt.Errorf("JSON entry %d length: %w", i, err)
		}
		off += n
		if l > uint64(len(data)-off) {
			return nil, 0, fmt.Errorf("JSON entry %d: length %d exceeds the %d bytes left", i, l, len(data)-off)
		}
		eb, err := canonJSONEntry(data[off:off+int(l)], object)
		if err != nil {
			return nil, 0, fmt.Errorf("JSON entry %d: %w", i, err)
		}
		off += int(l)
		es = append(es, eb)
	}
	if object {
		es = sortedEntries(es)
	}
	out := uvar(nil, cnt)
	for _, eb := range es {
		out = uvar(out, uint64(len(eb)))
		out = append(out, eb...)
	}
	return out, off, nil
}

func canonJSONEntry(data []byte, object bool) ([]byte, error) {
	var out []byte
	off := 0
	typ := uint64(0)
	state := 0 // 0: expect key (object) or type; 1: expect type; 2: expect value or end
	if !object {
		state = 1
	}
	for off < len(data) {
		tg, n, err := readUvar(data[off:])
		if err != nil {
			return nil, err
		}
		off += n
		idx, w := int(tg>>3), int(tg&7)
		switch {
		case idx == 1 && state == 0 && w == WTLength:
			l, n, err := readUvar(data[off:])
			if err != nil || l > uint64(len(data)-off-n) {
				return nil, fmt.Errorf("bad key length")
			}
			out = append(out, data[off-1:off+n+int(l)]...)
			off += n + int(l)
			state = 1
		case idx == 2 && state == 1 && w == WTVarInt:
			typ, n, err = readUvar(data[off:])
			if err != nil || typ > jNumber {
				return nil, fmt.Errorf("bad JSON type")
			}
			out = append(out, data[off-1:off+n]...)
			off += n
			state = 2
		case idx == 3 && state == 2:
			out = appendTag(out, 3, w)
			switch typ {
			case jString, jNumber:
				if w != WTLength {
					return nil, fmt.Errorf("string value with wire type %d", w)
				}
				l, n, err := readUvar(data[off:])
				if err != nil || l > uint64(len(data)-off-n) {
					return nil, fmt.Errorf("bad string length")
				}
				out = append(out, data[off:off+n+int(l)]...)
				off += n + int(l)
			case jInt, jBool:
				if w != WTVarInt {
					return nil, fmt.Errorf("int/bool value with wire type %d", w)
				}
				_, n, err := readUvar(data[off:])
				if err != nil {
					return nil, err
				}
				out = append(out, data[off:off+n]...)
				off += n
			case jFloat:
				if w != WT64 || len(data)-off < 8 {
					return nil, fmt.Errorf("bad float value")
				}
				out = append(out, data[off:off+8]...)
				off += 8
			case jArray, jObject:
				if w != WTSlice {
					return nil, fmt.Errorf("container value with wire type %d", w)
				}
				cb, n, err := canonJSONContainer(data[off:], typ == jObject)
				if err != nil {
					return nil, err
				}
				out = append(out, cb...)
				off += n
			default:
				return nil, fmt.Errorf("value field for JSON nil")
			}
			state = 3
		default:
			return nil, fmt.Errorf("unexpected field %d (wire type %d) in JSON entry, state %d", idx, w, state)
		}
	}
	if state < 2 || (state == 2 && typ != jNil) {
		return nil, fmt.Errorf("incomplete JSON entry (state %d, type %d)", state, typ)
	}
	return out, nil
}
