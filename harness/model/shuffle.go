package model

import (
	"math/rand/v2"
	"reflect"
)

type rawField struct {
	idx, wt int
	payload []byte // without tag and length prefix
}

// splitFields splits well-formed struct-like data into fields
func splitFields(data []byte) []rawField {
	var out []rawField
	off := 0
	for off < len(data) {
		tg, n := mustUvar(data[off:])
		off += n
		idx, w := int(tg>>3), int(tg&7)
		var payload []byte
		if w == WTLength {
			l, n := mustUvar(data[off:])
			off += n
			payload = data[off : off+int(l)]
			off += int(l)
		} else {
			n := skipLen(data[off:], w)
			payload = data[off : off+n]
			off += n
		}
		out = append(out, rawField{idx, w, payload})
	}
	return out
}

func joinFields(fs []rawField) []byte {
	var out []byte
	for _, f := range fs {
		out = appendTag(out, f.idx, f.wt)
		if f.wt == WTLength {
			out = uvar(out, uint64(len(f.payload)))
		}
		out = append(out, f.payload...)
	}
	return out
}

// Shuffle returns a valid encoding of the same value of struct type t with the
// fields re-ordered at every struct nesting level (fields with the same index -
// repeated elements - keep their relative order; the key/value order inside map
// entries is kept). data must be well formed.
func (c Cfg) Shuffle(t reflect.Type, data []byte, r *rand.Rand) (out []byte, changed bool) {
	defer func() {
		if recover() != nil {
			out, changed = data, false
		}
	}()
	out = c.shuffleBody(t, "", data, r, &changed)
	return out, changed
}

func (c Cfg) shuffleBody(t reflect.Type, opt string, data []byte, r *rand.Rand, changed *bool) []byte {
	if c.special(t, opt) != SpNone || t == BytesT {
		return data
	}
	if t == TimeT {
		fs := splitFields(data)
		if len(fs) == 2 && r.IntN(2) == 0 {
			fs[0], fs[1] = fs[1], fs[0]
			*changed = true
		}
		return joinFields(fs)
	}
	switch t.Kind() {
	case reflect.Ptr:
		return c.shuffleBody(t.Elem(), opt, data, r, changed)
	case reflect.Struct:
		fields := Fields(t)
		fs := splitFields(data)
		for i := range fs {
			for _, fi := range fields {
				if fi.Index != fs[i].idx {
					continue
				}
				ft := fi.Type
				if c.Repeated(ft, fi.Opt) {
					for ft.Kind() == reflect.Ptr {
						ft = ft.Elem()
					}
					if ft.Kind() == reflect.Slice {
						if !(ft.Elem().Kind() == reflect.Ptr && len(fs[i].payload) == 0) {
							fs[i].payload = c.shuffleBody(ft.Elem(), "", fs[i].payload, r, changed)
						}
					} else {
						fs[i].payload = c.shuffleEntry(ft, fs[i].payload, r, changed)
					}
				} else {
					fs[i].payload = c.shuffleBody(ft, fi.Opt, fs[i].payload, r, changed)
				}
			}
		}
		if len(fs) > 1 {
			perm := r.Perm(len(fs))
			shuffled := make([]rawField, len(fs))
			for i, p := range perm {
				shuffled[i] = fs[p]
			}
			// restore the relative order of fields sharing an index
			byIdx := map[int][]rawField{}
			for _, f := range fs {
				byIdx[f.idx] = append(byIdx[f.idx], f)
			}
			for i, f := range shuffled {
				q := byIdx[f.idx]
				shuffled[i] = q[0]
				byIdx[f.idx] = q[1:]
			}
			for i := range fs {
				if fs[i].idx != shuffled[i].idx {
					*changed = true
				}
			}
			fs = shuffled
		}
		return joinFields(fs)
	case reflect.Slice:
		et := t.Elem()
		if c.WireType(et, "") != WTLength {
			return data
		}
		cnt, n := mustUvar0(data)
		out := uvar(nil, cnt)
		off := n
		for i := uint64(0); i < cnt; i++ {
			l, n := mustUvar(data[off:])
			off += n
			eb := data[off : off+int(l)]
			off += int(l)
			if !(et.Kind() == reflect.Ptr && l == 0) {
				eb = c.shuffleBody(et, "", eb, r, changed)
			}
			out = uvar(out, uint64(len(eb)))
			out = append(out, eb...)
		}
		return out
	case reflect.Map:
		cnt, n := mustUvar0(data)
		out := uvar(nil, cnt)
		off := n
		for i := uint64(0); i < cnt; i++ {
			l, n := mustUvar(data[off:])
			off += n
			eb := c.shuffleEntry(t, data[off:off+int(l)], r, changed)
			off += int(l)
			out = uvar(out, uint64(len(eb)))
			out = append(out, eb...)
		}
		return out
	}
	return data
}

func (c Cfg) shuffleEntry(mt reflect.Type, data []byte, r *rand.Rand, changed *bool) []byte {
	fs := splitFields(data)
	for i := range fs {
		switch fs[i].idx {
		case 1:
			fs[i].payload = c.shuffleBody(mt.Key(), "", fs[i].payload, r, changed)
		case 2:
			fs[i].payload = c.shuffleBody(mt.Elem(), "", fs[i].payload, r, changed)
		}
	}
	return joinFields(fs)
}

// RawField is one top-level field of an encoding
type RawField struct {
	Index, WireType int
	Payload         []byte
}

// SplitFields splits well-formed struct data into its fields (nil on malformed data)
func SplitFields(data []byte) (out []RawField) {
	defer func() {
		if recover() != nil {
			out = nil
		}
	}()
	for _, f := range splitFields(data) {
		out = append(out, RawField{f.idx, f.wt, f.payload})
	}
	return out
}
