package model

import (
	"fmt"
	"reflect"
	"strconv"
	"strings"
)

// Validate says whether plenc must accept type t with option opt in
// configuration c ("" = valid) or must reject it (the reason). It is written
// from the documentation and the C08 statement:
//   - every exported field needs a plenc tag that is "-" or a non-negative
//     integer index, optionally followed by ",option"; indexes are unique;
//   - options: intern anywhere (only strings are affected); flat on integers;
//     proto on slices and maps; any other option on a basic kind has no codec;
//   - unsupported kinds: complex, array, chan, func, interface, uintptr, unsafe
//     pointers;
//   - slices of pointers to floats; slices whose elements are themselves
//     counted or repeated (slices of slices of length-delimited elements,
//     slices of maps); maps whose values are maps or repeated slices; pointers
//     to maps.
func (c Cfg) Validate(t reflect.Type, opt string) string {
	return c.validate(t, opt, map[reflect.Type]bool{})
}

func (c Cfg) validate(t reflect.Type, opt string, busy map[reflect.Type]bool) string {
	if c.special(t, opt) != SpNone {
		return ""
	}
	if t == TimeT && opt == "" || t == BytesT && opt == "" {
		return ""
	}
	if opt != "" && t.Kind() == reflect.Struct && (t == TimeT || c.special(t, "") != SpNone) {
		// the type is encoded by its registered codec, and there is none for this option
		return fmt.Sprintf("option %q has no codec for %s", opt, t)
	}
	k := t.Kind()
	switch {
	case k == reflect.Bool, isUintKind(k) && k != reflect.Uintptr, k == reflect.Float32, k == reflect.Float64, k == reflect.String:
		if opt != "" {
			return fmt.Sprintf("option %q has no codec for %s", opt, t)
		}
		return ""
	case isIntKind(k):
		if opt != "" && opt != "flat" {
			return fmt.Sprintf("option %q has no codec for %s", opt, t)
		}
		return ""
	case k == reflect.Ptr:
		if t.Elem().Kind() == reflect.Map {
			return "pointer to map"
		}
		return c.validate(t.Elem(), opt, busy)
	case k == reflect.Struct:
		if busy[t] {
			return ""
		}
		busy[t] = true
		defer delete(busy, t)
		seen := map[int]bool{}
		for i := 0; i < t.NumField(); i++ {
			sf := t.Field(i)
			if !sf.IsExported() {
				continue
			}
			tg, ok := sf.Tag.Lookup("plenc")
			if !ok || tg == "" {
				return fmt.Sprintf("no plenc tag on field %s", sf.Name)
			}
			if tg == "-" {
				continue
			}
			is, fopt, _ := strings.Cut(tg, ",")
			idx, err := strconv.Atoi(is)
			if err != nil {
				return fmt.Sprintf("unparsable index %q on field %s", is, sf.Name)
			}
			if idx < 0 {
				return fmt.Sprintf("negative index on field %s", sf.Name)
			}
			if seen[idx] {
				return fmt.Sprintf("duplicate index %d", idx)
			}
			seen[idx] = true
			if fopt == "intern" {
				fopt = ""
			}
			if r := c.validate(sf.Type, fopt, busy); r != "" {
				return "field " + sf.Name + ": " + r
			}
		}
		return ""
	case k == reflect.Slice:
		et := t.Elem()
		if r := c.validate(et, "", busy); r != "" {
			return "element: " + r
		}
		if w := c.WireType(et, ""); et.Kind() == reflect.Ptr && (w == WT32 || w == WT64) {
			return "slice of pointers to floats"
		}
		if c.WireType(et, "") == WTSlice {
			return "slice of counted slices or maps"
		}
		if c.Repeated(et, "") {
			return "slice of repeated slices"
		}
		return ""
	case k == reflect.Map:
		if r := c.validate(t.Key(), "", busy); r != "" {
			return "key: " + r
		}
		if r := c.validate(t.Elem(), "", busy); r != "" {
			return "value: " + r
		}
		if t.Elem().Kind() == reflect.Map {
			return "map of maps"
		}
		if c.Repeated(t.Elem(), "") {
			return "map of repeated slices"
		}
		return ""
	}
	return fmt.Sprintf("unsupported kind %s", k)
}
