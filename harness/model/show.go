package model

import (
	"fmt"
	"reflect"
	"sort"
	"strings"
	"time"
)

// Show renders a value in a Go-like syntax, following pointers
func Show(v reflect.Value) string {
	var b strings.Builder
	show(&b, v, 0)
	s := b.String()
	if len(s) > 1500 {
		s = s[:1500] + "...(truncated)"
	}
	return s
}

func show(b *strings.Builder, v reflect.Value, depth int) {
	if depth > 8 || b.Len() > 2000 {
		b.WriteString("…")
		return
	}
	if !v.IsValid() {
		b.WriteString("<invalid>")
		return
	}
	if v.Type() == TimeT {
		tm := v.Interface().(time.Time)
		fmt.Fprintf(b, "time(%d,%d,%s)", tm.Unix(), tm.Nanosecond(), tm.Location())
		return
	}
	switch v.Kind() {
	case reflect.Ptr:
		if v.IsNil() {
			b.WriteString("nil")
			return
		}
		b.WriteString("&")
		show(b, v.Elem(), depth+1)
	case reflect.Struct:
		b.WriteString("{")
		for i := 0; i < v.NumField(); i++ {
			if !v.Type().Field(i).IsExported() {
				continue
			}
			fmt.Fprintf(b, "%s:", v.Type().Field(i).Name)
			show(b, v.Field(i), depth+1)
			b.WriteString(" ")
		}
		b.WriteString("}")
	case reflect.Slice:
		if v.IsNil() {
			b.WriteString("nil[]")
			return
		}
		if v.Type().Elem().Kind() == reflect.Uint8 {
			fmt.Fprintf(b, "bytes(%x)", head(v.Bytes(), 40))
			if v.Len() > 40 {
				fmt.Fprintf(b, "..len %d", v.Len())
			}
			return
		}
		fmt.Fprintf(b, "[len %d: ", v.Len())
		for i := 0; i < v.Len() && i < 6; i++ {
			show(b, v.Index(i), depth+1)
			b.WriteString(" ")
		}
		b.WriteString("]")
	case reflect.Map:
		if v.IsNil() {
			b.WriteString("nil-map")
			return
		}
		var es []string
		it := v.MapRange()
		for it.Next() {
			var e strings.Builder
			show(&e, it.Key(), depth+1)
			e.WriteString(":")
			show(&e, it.Value(), depth+1)
			es = append(es, e.String())
			if len(es) > 8 {
				break
			}
		}
		sort.Strings(es)
		fmt.Fprintf(b, "map[len %d: %s]", v.Len(), strings.Join(es, ", "))
	case reflect.String:
		s := v.String()
		if len(s) > 40 {
			fmt.Fprintf(b, "%q..len %d", s[:40], len(s))
		} else {
			fmt.Fprintf(b, "%q", s)
		}
	case reflect.Interface:
		if v.IsNil() {
			b.WriteString("nil-any")
			return
		}
		fmt.Fprintf(b, "any(%T)", v.Interface())
		show(b, v.Elem(), depth+1)
	case reflect.Float32, reflect.Float64:
		fmt.Fprintf(b, "%v", v.Float())
	default:
		fmt.Fprintf(b, "%v", v.Interface())
	}
}

// HasMultiMap reports whether v contains a map with more than one entry (whose
// encoding order is not determined by the value)
func HasMultiMap(v reflect.Value) bool {
	switch v.Kind() {
	case reflect.Ptr, reflect.Interface:
		if v.IsNil() {
			return false
		}
		return HasMultiMap(v.Elem())
	case reflect.Struct:
		if v.Type() == TimeT {
			return false
		}
		for i := 0; i < v.NumField(); i++ {
			if v.Type().Field(i).IsExported() && HasMultiMap(v.Field(i)) {
				return true
			}
		}
	case reflect.Slice:
		if v.Type().Elem().Kind() == reflect.Uint8 {
			return false
		}
		for i := 0; i < v.Len(); i++ {
			if HasMultiMap(v.Index(i)) {
				return true
			}
		}
	case reflect.Map:
		if v.Len() > 1 {
			return true
		}
		it := v.MapRange()
		for it.Next() {
			if HasMultiMap(it.Key()) || HasMultiMap(it.Value()) {
				return true
			}
		}
	}
	return false
}

// ShapeHash is a hash of the type's shape and of the value's class (which
// containers are nil/empty/non-empty, which scalars are zero), used to count
// distinct cases
func ShapeHash(v reflect.Value) (hash uint64, nontrivial bool) {
	h := uint64(14695981039346656037)
	mix := func(x uint64) { h = (h ^ x) * 1099511628211 }
	var walk func(v reflect.Value, d int)
	walk = func(v reflect.Value, d int) {
		mix(uint64(v.Kind()))
		if d > 10 {
			return
		}
		if v.Type() == TimeT {
			if !v.Interface().(time.Time).IsZero() {
				mix(1)
			}
			return
		}
		switch v.Kind() {
		case reflect.Ptr, reflect.Interface:
			if v.IsNil() {
				mix(2)
				return
			}
			nontrivial = true
			walk(v.Elem(), d+1)
		case reflect.Struct:
			for i := 0; i < v.NumField(); i++ {
				if v.Type().Field(i).IsExported() {
					mix(uint64(i))
					walk(v.Field(i), d+1)
				}
			}
		case reflect.Slice:
			mix(uint64(min(v.Len(), 130)))
			if v.Len() > 0 {
				nontrivial = true
			}
			for i := 0; i < v.Len() && i < 3; i++ {
				walk(v.Index(i), d+1)
			}
		case reflect.Map:
			if v.IsNil() {
				mix(3)
				return
			}
			nontrivial = true
			mix(uint64(min(v.Len(), 8)))
		case reflect.String:
			mix(uint64(min(v.Len(), 130)))
			if v.Len() > 0 {
				nontrivial = true
			}
		case reflect.Bool:
			if v.Bool() {
				mix(1)
				nontrivial = true
			}
		case reflect.Int, reflect.Int8, reflect.Int16, reflect.Int32, reflect.Int64:
			x := v.Int()
			mix(uint64(bitsLen(uint64(x<<1 ^ x>>63))))
			if x != 0 {
				nontrivial = true
			}
		case reflect.Uint, reflect.Uint8, reflect.Uint16, reflect.Uint32, reflect.Uint64:
			mix(uint64(bitsLen(v.Uint())))
			if v.Uint() != 0 {
				nontrivial = true
			}
		case reflect.Float32, reflect.Float64:
			f := v.Float()
			switch {
			case f != f:
				mix(4)
			case f == 0:
				mix(5)
			default:
				mix(6)
				nontrivial = true
			}
		}
	}
	walk(v, 0)
	return h, nontrivial
}

func bitsLen(x uint64) int {
	n := 0
	for x != 0 {
		n++
		x >>= 1
	}
	return n
}
