package model

import (
	"encoding/binary"
	"encoding/json"
	"fmt"
	"math"
	"reflect"
	"time"

	"github.com/unravelin/null"
)

// Decode is the reference Unmarshal(data, &v): v is addressable and may already
// hold data; the merge rules of C10 are implemented literally, by value:
//   - a scalar, string, []byte or time that is present overwrites;
//   - a struct merges field by field, absent fields keep their prior value;
//   - a nil pointer is allocated, a non-nil pointer is decoded into;
//   - a packed or counted slice is replaced by exactly the decoded elements, each
//     decoded into a zero element; in the repeated-field form each frame appends
//     one element decoded into a zero element;
//   - a map is created if nil and merged by key; for a key already present a
//     present value is decoded into the existing value, an absent value resets it;
//   - at top level empty data leaves structs and maps untouched and zeroes scalars.
//
// It panics (with an error value) on data it cannot read: callers use it on
// well-formed data only.
func (c Cfg) Decode(v reflect.Value, data []byte) (err error) {
	defer func() {
		if r := recover(); r != nil {
			err = fmt.Errorf("model decode: %v", r)
		}
	}()
	c.dec(v, data, "")
	return nil
}

func mustUvar(b []byte) (uint64, int) {
	v, n := binary.Uvarint(b)
	if n <= 0 {
		panic(fmt.Sprintf("bad varint %x", head(b, 12)))
	}
	return v, n
}

func skipLen(b []byte, w int) int {
	switch w {
	case WTVarInt:
		_, n := mustUvar(b)
		return n
	case WT64:
		return 8
	case WT32:
		return 4
	case WTLength:
		l, n := mustUvar(b)
		return n + int(l)
	case WTSlice:
		n, err := extentCounted(b)
		if err != nil {
			panic(err)
		}
		return n
	}
	panic(fmt.Sprintf("wire type %d", w))
}

func decTime(b []byte, proto bool) time.Time {
	if len(b) == 0 {
		return time.Time{}
	}
	var sec, ns int64
	off := 0
	for off < len(b) {
		tg, n := mustUvar(b[off:])
		off += n
		if tg&7 != 0 || (tg>>3 != 1 && tg>>3 != 2) {
			off += skipLen(b[off:], int(tg&7))
			continue
		}
		u, n := mustUvar(b[off:])
		off += n
		val := unzz(u)
		if proto {
			val = int64(u)
			if tg>>3 == 2 {
				val = int64(int32(uint32(u)))
			}
		} else if tg>>3 == 2 {
			val = int64(int32(val))
		}
		if tg>>3 == 1 {
			sec = val
		} else {
			ns = val
		}
	}
	return time.Unix(sec, ns).UTC()
}

// dec decodes body b into v and returns the bytes consumed (b is exactly the
// body for length-delimited values, the rest of the enclosing data otherwise)
func (c Cfg) dec(v reflect.Value, b []byte, opt string) int {
	t := v.Type()
	switch c.special(t, opt) {
	case SpBQTime:
		u, n := mustUvar0(b)
		v.Set(reflect.ValueOf(time.UnixMicro(int64(u)).UTC()))
		return n
	case SpNullInt:
		u, n := mustUvar0(b)
		v.Set(reflect.ValueOf(null.IntFrom(unzz(u))))
		return n
	case SpNullBool:
		u, n := mustUvar0(b)
		v.Set(reflect.ValueOf(null.BoolFrom(u != 0)))
		return n
	case SpNullFloat:
		if len(b) == 0 {
			v.Set(reflect.ValueOf(null.FloatFrom(0)))
			return 0
		}
		v.Set(reflect.ValueOf(null.FloatFrom(math.Float64frombits(binary.LittleEndian.Uint64(b)))))
		return 8
	case SpNullString:
		v.Set(reflect.ValueOf(null.StringFrom(string(b))))
		return len(b)
	case SpNullTime:
		v.Set(reflect.ValueOf(null.TimeFrom(decTime(b, false))))
		return len(b)
	case SpJSONMap:
		if len(b) == 0 {
			return 0
		}
		m := v.Interface().(map[string]any)
		if m == nil {
			m = map[string]any{}
			v.Set(reflect.ValueOf(m))
		}
		return decJSONMapInto(m, b)
	case SpJSONArray:
		a, n := decJSONArray(b)
		v.Set(reflect.ValueOf(a))
		return n
	case SpMarker:
		return len(b)
	}
	if t == TimeT {
		v.Set(reflect.ValueOf(decTime(b, c.ProtoTime)))
		return len(b)
	}
	if t == BytesT {
		if len(b) == 0 {
			v.SetBytes(nil)
		} else {
			v.SetBytes(append([]byte(nil), b...))
		}
		return len(b)
	}
	k := t.Kind()
	switch {
	case k == reflect.Bool:
		if len(b) == 0 {
			v.SetBool(false)
			return 0
		}
		u, n := mustUvar(b)
		v.SetBool(u != 0)
		return n
	case isIntKind(k):
		if len(b) == 0 {
			v.SetInt(0)
			return 0
		}
		u, n := mustUvar(b)
		x := unzz(u)
		if opt == "flat" {
			x = int64(u)
		}
		switch t.Bits() {
		case 8:
			x = int64(int8(x))
		case 16:
			x = int64(int16(x))
		case 32:
			x = int64(int32(x))
		}
		v.SetInt(x)
		return n
	case isUintKind(k):
		if len(b) == 0 {
			v.SetUint(0)
			return 0
		}
		u, n := mustUvar(b)
		if t.Bits() < 64 {
			u &= 1<<uint(t.Bits()) - 1
		}
		v.SetUint(u)
		return n
	case k == reflect.Float32:
		if len(b) == 0 {
			v.SetFloat(0)
			return 0
		}
		SetF32Bits(v, binary.LittleEndian.Uint32(b))
		return 4
	case k == reflect.Float64:
		if len(b) == 0 {
			v.SetFloat(0)
			return 0
		}
		v.SetFloat(math.Float64frombits(binary.LittleEndian.Uint64(b)))
		return 8
	case k == reflect.String:
		v.SetString(string(b))
		return len(b)
	case k == reflect.Ptr:
		if v.IsNil() {
			v.Set(reflect.New(t.Elem()))
		}
		return c.dec(v.Elem(), b, opt)
	case k == reflect.Struct:
		fields := Fields(t)
		off := 0
		for off < len(b) {
			tg, n := mustUvar(b[off:])
			off += n
			idx, w := int(tg>>3), int(tg&7)
			var fi *FieldInfo
			for i := range fields {
				if fields[i].Index == idx {
					fi = &fields[i]
					break
				}
			}
			if fi == nil {
				off += skipLen(b[off:], w)
				continue
			}
			fv := v.Field(fi.GoIndex)
			if w == WTLength {
				l, n := mustUvar(b[off:])
				off += n
				c.decField(fv, b[off:off+int(l)], w, fi.Opt)
				off += int(l)
			} else {
				off += c.decField(fv, b[off:], w, fi.Opt)
			}
		}
		return off
	case k == reflect.Slice:
		et := t.Elem()
		if c.WireType(et, "") != WTLength {
			out := reflect.MakeSlice(t, 0, 0)
			off := 0
			for off < len(b) {
				e := reflect.New(et).Elem()
				off += c.dec(e, b[off:], "")
				out = reflect.Append(out, e)
			}
			setSlice(v, out)
			return off
		}
		cnt, n := mustUvar0(b)
		off := n
		out := reflect.MakeSlice(t, int(cnt), int(cnt))
		for i := 0; i < int(cnt); i++ {
			l, n := mustUvar(b[off:])
			off += n
			c.dec(out.Index(i), b[off:off+int(l)], "")
			off += int(l)
		}
		setSlice(v, out)
		return off
	case k == reflect.Map:
		if len(b) == 0 {
			return 0
		}
		cnt, n := mustUvar(b)
		off := n
		if v.IsNil() {
			v.Set(reflect.MakeMap(t))
		}
		for i := 0; i < int(cnt); i++ {
			l, n := mustUvar(b[off:])
			off += n
			c.decEntry(v, b[off:off+int(l)])
			off += int(l)
		}
		return off
	}
	panic("model: dec " + t.String())
}

func mustUvar0(b []byte) (uint64, int) {
	if len(b) == 0 {
		return 0, 0
	}
	return mustUvar(b)
}

// setSlice stores the decoded elements. An empty result keeps a nil slice nil;
// value-wise an empty and a nil slice are the same.
func setSlice(v, out reflect.Value) {
	if out.Len() == 0 {
		if !v.IsNil() {
			v.Set(v.Slice(0, 0))
		}
		return
	}
	v.Set(out)
}

func (c Cfg) decEntry(m reflect.Value, b []byte) {
	t := m.Type()
	k := reflect.New(t.Key()).Elem()
	var vb []byte
	var vw int
	haveV := false
	off := 0
	for off < len(b) {
		tg, n := mustUvar(b[off:])
		off += n
		idx, w := int(tg>>3), int(tg&7)
		var payload []byte
		if w == WTLength {
			l, n := mustUvar(b[off:])
			off += n
			payload = b[off : off+int(l)]
			off += int(l)
		} else {
			n := skipLen(b[off:], w)
			payload = b[off : off+n]
			off += n
		}
		switch idx {
		case 1:
			c.decField(k, payload, w, "")
		case 2:
			vb, vw, haveV = payload, w, true
		}
	}
	val := reflect.New(t.Elem()).Elem()
	if old := m.MapIndex(k); old.IsValid() && haveV {
		val.Set(old) // a present value is decoded into the existing value
	}
	if haveV {
		c.decField(val, vb, vw, "")
	}
	m.SetMapIndex(k, val)
}

// decField decodes one field payload of wire type w into fv, handling the
// repeated-field forms (which a default-mode reader accepts for counted slices too)
func (c Cfg) decField(fv reflect.Value, payload []byte, w int, opt string) int {
	t := fv.Type()
	bt := t
	for bt.Kind() == reflect.Ptr {
		bt = bt.Elem()
	}
	if c.special(bt, opt) == SpNone && bt != BytesT && bt != TimeT {
		if w == WTLength && bt.Kind() == reflect.Slice && c.WireType(bt.Elem(), "") == WTLength {
			tv := fv
			for tv.Kind() == reflect.Ptr {
				if tv.IsNil() {
					tv.Set(reflect.New(tv.Type().Elem()))
				}
				tv = tv.Elem()
			}
			e := reflect.New(bt.Elem()).Elem()
			c.dec(e, payload, "")
			tv.Set(reflect.Append(tv, e))
			return len(payload)
		}
		if w == WTLength && bt.Kind() == reflect.Map && opt == "proto" {
			tv := fv
			if tv.IsNil() {
				tv.Set(reflect.MakeMap(bt))
			}
			c.decEntry(tv, payload)
			return len(payload)
		}
	}
	return c.dec(fv, payload, opt)
}

// ---- JSON any ----

func decJSONMapInto(m map[string]any, b []byte) int {
	cnt, n := mustUvar(b)
	off := n
	for i := 0; i < int(cnt); i++ {
		l, n := mustUvar(b[off:])
		off += n
		k, v := decJSONEntry(b[off : off+int(l)])
		off += int(l)
		m[k] = v
	}
	return off
}

func decJSONArray(b []byte) ([]any, int) {
	cnt, n := mustUvar0(b)
	off := n
	a := make([]any, cnt)
	for i := range a {
		l, n := mustUvar(b[off:])
		off += n
		_, a[i] = decJSONEntry(b[off : off+int(l)])
		off += int(l)
	}
	return a, off
}

func decJSONEntry(b []byte) (key string, val any) {
	off := 0
	typ := uint64(0)
	for off < len(b) {
		tg, n := mustUvar(b[off:])
		off += n
		switch tg >> 3 {
		case 1:
			l, n := mustUvar(b[off:])
			off += n
			key = string(b[off : off+int(l)])
			off += int(l)
		case 2:
			typ, n = mustUvar(b[off:])
			off += n
		case 3:
			switch typ {
			case jString, jNumber:
				l, n := mustUvar(b[off:])
				off += n
				s := string(b[off : off+int(l)])
				off += int(l)
				if typ == jNumber {
					val = json.Number(s)
				} else {
					val = s
				}
			case jInt:
				u, n := mustUvar(b[off:])
				off += n
				val = int(unzz(u))
			case jBool:
				u, n := mustUvar(b[off:])
				off += n
				val = u != 0
			case jFloat:
				val = math.Float64frombits(binary.LittleEndian.Uint64(b[off:]))
				off += 8
			case jArray:
				a, n := decJSONArray(b[off:])
				off += n
				val = a
			case jObject:
				m := map[string]any{}
				off += decJSONMapInto(m, b[off:])
				val = m
			default:
				panic("json type")
			}
		default:
			panic("json field")
		}
	}
	return key, val
}
