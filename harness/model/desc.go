package model

import (
	"fmt"
	"reflect"
)

// Field types and logical types of a Descriptor, as documented in plenccodec/descriptor.go
const (
	FTInt = iota
	FTUint
	FTFloat32
	FTFloat64
	FTString
	FTSlice
	FTStruct
	FTBool
	FTTime
	FTJSONObject
	FTJSONArray
	FTFlatInt
)

const (
	LTNone = iota
	LTTimestamp
	LTDate
	LTTime
	LTMap
	LTMapEntry
)

// Desc is the model's descriptor of a type
type Desc struct {
	Index            int
	Name             string
	Type             int
	TypeName         string
	Elements         []Desc
	ExplicitPresence bool
	Logical          int
}

// Describe derives the descriptor of (t, opt) from the type definition alone.
// It does not terminate on recursive types (neither does a finite tree exist).
func (c Cfg) Describe(t reflect.Type, opt string) Desc {
	switch c.special(t, opt) {
	case SpBQTime:
		return Desc{Type: FTFlatInt, Logical: LTTimestamp}
	case SpNullInt:
		return Desc{Type: FTInt, ExplicitPresence: true}
	case SpNullBool:
		return Desc{Type: FTBool, ExplicitPresence: true}
	case SpNullFloat:
		return Desc{Type: FTFloat64, ExplicitPresence: true}
	case SpNullString:
		return Desc{Type: FTString, ExplicitPresence: true}
	case SpNullTime:
		return Desc{Type: FTTime, Logical: LTTimestamp, ExplicitPresence: true}
	case SpJSONMap:
		return Desc{Type: FTJSONObject}
	case SpJSONArray:
		return Desc{Type: FTJSONArray}
	case SpMarker:
		return Desc{Type: FTString}
	}
	if t == TimeT {
		return Desc{Type: FTTime, Logical: LTTimestamp}
	}
	if t == BytesT {
		return Desc{Type: FTString}
	}
	k := t.Kind()
	switch {
	case k == reflect.Bool:
		return Desc{Type: FTBool}
	case isIntKind(k):
		if opt == "flat" {
			return Desc{Type: FTFlatInt}
		}
		return Desc{Type: FTInt}
	case isUintKind(k):
		return Desc{Type: FTUint}
	case k == reflect.Float32:
		return Desc{Type: FTFloat32}
	case k == reflect.Float64:
		return Desc{Type: FTFloat64}
	case k == reflect.String:
		return Desc{Type: FTString}
	case k == reflect.Ptr:
		d := c.Describe(t.Elem(), opt)
		d.ExplicitPresence = true
		return d
	case k == reflect.Struct:
		d := Desc{Type: FTStruct, TypeName: t.Name()}
		for _, f := range Fields(t) {
			e := c.Describe(f.Type, f.Opt)
			e.Index, e.Name = f.Index, f.Name
			d.Elements = append(d.Elements, e)
		}
		return d
	case k == reflect.Slice:
		return Desc{Type: FTSlice, Elements: []Desc{c.Describe(t.Elem(), "")}}
	case k == reflect.Map:
		kd := c.Describe(t.Key(), "")
		vd := c.Describe(t.Elem(), "")
		kd.Index, kd.Name = 1, "key"
		vd.Index, vd.Name = 2, "value"
		return Desc{Type: FTSlice, Logical: LTMap, Elements: []Desc{{Type: FTStruct, Logical: LTMapEntry, Elements: []Desc{kd, vd}}}}
	}
	panic("model: describe " + t.String())
}

// DescDiff compares the model's descriptor with the real one, given as a
// generic accessor so that the model does not import plenc. Only the
// attributes the C14 statement names are compared; TypeName is compared for
// struct descriptors that are not map entries.
type RealDesc interface {
	Attr() (index int, name string, typ int, typeName string, presence bool, logical int)
	NumElements() int
	Element(i int) RealDesc
}

// DescDiff returns the first difference ("" = equal)
func DescDiff(want Desc, got RealDesc, path string, top bool) string {
	idx, name, typ, tn, ep, lt := got.Attr()
	if !top && (idx != want.Index || name != want.Name) {
		return fmt.Sprintf("%s: index/name (%d,%q), the type definition says (%d,%q)", path, idx, name, want.Index, want.Name)
	}
	if typ != want.Type {
		return fmt.Sprintf("%s: field type %d, want %d", path, typ, want.Type)
	}
	if ep != want.ExplicitPresence {
		return fmt.Sprintf("%s: ExplicitPresence %v, want %v", path, ep, want.ExplicitPresence)
	}
	if lt != want.Logical {
		return fmt.Sprintf("%s: logical type %d, want %d", path, lt, want.Logical)
	}
	if want.Type == FTStruct && want.Logical != LTMapEntry && tn != want.TypeName {
		return fmt.Sprintf("%s: struct type name %q, want %q", path, tn, want.TypeName)
	}
	if got.NumElements() != len(want.Elements) {
		return fmt.Sprintf("%s: %d elements, the type definition has %d encoded fields", path, got.NumElements(), len(want.Elements))
	}
	for i := range want.Elements {
		if d := DescDiff(want.Elements[i], got.Element(i), fmt.Sprintf("%s/%d(%s)", path, i, want.Elements[i].Name), false); d != "" {
			return d
		}
	}
	return ""
}
