package model

import (
	"encoding/json"
	"fmt"
	"math"
	"reflect"
	"strings"
	"time"
)

// Equal is deep equality by value: floats by bit pattern, times by instant and
// (when strictLoc) UTC location, nil and empty slices the same, maps strict on
// nil-ness, pointers by pointee.
func Equal(a, b reflect.Value) bool { return Diff(a, b, "") == "" }

// Diff describes the first difference ("" = equal)
func Diff(a, b reflect.Value, path string) string {
	if a.Type() != b.Type() {
		return fmt.Sprintf("%s: type %s vs %s", path, a.Type(), b.Type())
	}
	t := a.Type()
	if t == TimeT {
		ta, tb := a.Interface().(time.Time), b.Interface().(time.Time)
		if !ta.Equal(tb) {
			return fmt.Sprintf("%s: time %v vs %v", path, ta, tb)
		}
		return ""
	}
	switch a.Kind() {
	case reflect.Float32:
		if x, y := F32Bits(a), F32Bits(b); x != y {
			return fmt.Sprintf("%s: float32 %v (bits %08x) vs %v (bits %08x)", path, a.Float(), x, b.Float(), y)
		}
	case reflect.Float64:
		if math.Float64bits(a.Float()) != math.Float64bits(b.Float()) {
			return fmt.Sprintf("%s: float %v (%x) vs %v (%x)", path, a.Float(), math.Float64bits(a.Float()), b.Float(), math.Float64bits(b.Float()))
		}
	case reflect.Slice:
		if a.Len() != b.Len() {
			return fmt.Sprintf("%s: slice len %d vs %d", path, a.Len(), b.Len())
		}
		for i := 0; i < a.Len(); i++ {
			if d := Diff(a.Index(i), b.Index(i), fmt.Sprintf("%s[%d]", path, i)); d != "" {
				return d
			}
		}
	case reflect.Map:
		if a.IsNil() != b.IsNil() {
			return fmt.Sprintf("%s: map nil %v vs %v", path, a.IsNil(), b.IsNil())
		}
		if a.Len() != b.Len() {
			return fmt.Sprintf("%s: map len %d vs %d", path, a.Len(), b.Len())
		}
		it := a.MapRange()
		for it.Next() {
			bv := b.MapIndex(it.Key())
			if !bv.IsValid() {
				return fmt.Sprintf("%s: key %v missing", path, it.Key().Interface())
			}
			if d := Diff(it.Value(), bv, fmt.Sprintf("%s[%v]", path, it.Key().Interface())); d != "" {
				return d
			}
		}
	case reflect.Ptr:
		if a.IsNil() || b.IsNil() {
			if a.IsNil() != b.IsNil() {
				return fmt.Sprintf("%s: pointer nil %v vs %v", path, a.IsNil(), b.IsNil())
			}
			return ""
		}
		return Diff(a.Elem(), b.Elem(), path+"*")
	case reflect.Struct:
		for i := 0; i < a.NumField(); i++ {
			if !t.Field(i).IsExported() {
				continue
			}
			if d := Diff(a.Field(i), b.Field(i), path+"."+t.Field(i).Name); d != "" {
				return d
			}
		}
	case reflect.Interface:
		if !JSONEqual(a.Interface(), b.Interface()) {
			return fmt.Sprintf("%s: %#v vs %#v", path, a.Interface(), b.Interface())
		}
	default:
		if a.Interface() != b.Interface() {
			return fmt.Sprintf("%s: %#v vs %#v", path, a.Interface(), b.Interface())
		}
	}
	return ""
}

// JSONEqual compares JSON-model values, nil and empty containers being the same
func JSONEqual(a, b any) bool {
	switch x := a.(type) {
	case nil:
		switch y := b.(type) {
		case nil:
			return true
		case []any:
			return len(y) == 0
		case map[string]any:
			return len(y) == 0
		}
		return false
	case []any:
		if b == nil {
			return len(x) == 0
		}
		y, ok := b.([]any)
		if !ok || len(x) != len(y) {
			return false
		}
		for i := range x {
			if !JSONEqual(x[i], y[i]) {
				return false
			}
		}
		return true
	case map[string]any:
		if b == nil {
			return len(x) == 0
		}
		y, ok := b.(map[string]any)
		if !ok || len(x) != len(y) {
			return false
		}
		for k, v := range x {
			w, ok := y[k]
			if !ok || !JSONEqual(v, w) {
				return false
			}
		}
		return true
	case float64:
		y, ok := b.(float64)
		return ok && math.Float64bits(x) == math.Float64bits(y)
	case json.Number:
		y, ok := b.(json.Number)
		return ok && x == y
	default:
		return a == b
	}
}

// DeepCopy copies a value so that it shares no memory with the original
// (slices keep their capacity, string data is cloned)
func DeepCopy(v reflect.Value) reflect.Value {
	out := reflect.New(v.Type()).Elem()
	switch v.Kind() {
	case reflect.String:
		out.SetString(strings.Clone(v.String()))
	case reflect.Slice:
		if v.IsNil() {
			return out
		}
		out.Set(reflect.MakeSlice(v.Type(), v.Len(), v.Cap()))
		for i := 0; i < v.Len(); i++ {
			out.Index(i).Set(DeepCopy(v.Index(i)))
		}
	case reflect.Map:
		if v.IsNil() {
			return out
		}
		out.Set(reflect.MakeMap(v.Type()))
		it := v.MapRange()
		for it.Next() {
			out.SetMapIndex(DeepCopy(it.Key()), DeepCopy(it.Value()))
		}
	case reflect.Ptr:
		if v.IsNil() {
			return out
		}
		p := reflect.New(v.Type().Elem())
		p.Elem().Set(DeepCopy(v.Elem()))
		out.Set(p)
	case reflect.Struct:
		if v.Type() == TimeT {
			out.Set(v)
			return out
		}
		for i := 0; i < v.NumField(); i++ {
			if !v.Type().Field(i).IsExported() {
				continue
			}
			out.Field(i).Set(DeepCopy(v.Field(i)))
		}
	case reflect.Interface:
		if v.IsNil() {
			return out
		}
		out.Set(reflect.ValueOf(copyJSON(v.Interface())))
	default:
		out.Set(v)
	}
	return out
}

func copyJSON(v any) any {
	switch x := v.(type) {
	case string:
		return strings.Clone(x)
	case json.Number:
		return json.Number(strings.Clone(string(x)))
	case []any:
		if x == nil {
			return x
		}
		o := make([]any, len(x))
		for i := range x {
			o[i] = copyJSON(x[i])
		}
		return o
	case map[string]any:
		if x == nil {
			return x
		}
		o := make(map[string]any, len(x))
		for k, e := range x {
			o[strings.Clone(k)] = copyJSON(e)
		}
		return o
	}
	return v
}

// Normalise returns the value a round trip of v into a fresh variable is
// allowed to return. Exactly the documented normalisations:
//   - empty slices read back as nil (Equal treats nil and empty alike, so
//     nothing to do);
//   - times read back as the same instant in UTC (Equal compares instants; the
//     location is checked separately by CheckUTC);
//   - nil entries of pointer slices are dropped (varint elements) or become
//     zero values (length-delimited elements);
//   - a plain (non-pointer) field or element holding negative zero that is
//     omitted reads back as +0;
//   - in the repeated-field form an empty slice or map reads back as nil;
//   - fields that are not encoded (unexported, "-") read back as zero.
//
// plain says whether v sits where its zero value is omitted (struct field, map
// key/value, top level), as opposed to a slice element.
func (c Cfg) Normalise(v reflect.Value, opt string, plain bool) reflect.Value {
	t := v.Type()
	out := reflect.New(t).Elem()
	if c.special(t, opt) != SpNone {
		switch c.special(t, opt) {
		case SpJSONMap, SpJSONArray:
			out.Set(DeepCopy(v))
		case SpNullInt, SpNullBool, SpNullFloat, SpNullString, SpNullTime:
			// an invalid value is absent: whatever it carried is not written
			if v.FieldByName("Valid").Bool() {
				out.Set(v)
			}
		case SpBQTime:
			// microsecond resolution
			tm := v.Interface().(time.Time)
			if !tm.IsZero() {
				tm = time.UnixMicro(tm.UnixMicro()).UTC()
			}
			out.Set(reflect.ValueOf(tm))
		default:
			out.Set(v)
		}
		return out
	}
	if t == TimeT {
		out.Set(v)
		return out
	}
	switch t.Kind() {
	case reflect.Float32, reflect.Float64:
		if plain && v.Float() == 0 {
			return out // -0 is omitted and reads back as +0
		}
		out.Set(v)
	case reflect.Ptr:
		if v.IsNil() {
			return out
		}
		p := reflect.New(t.Elem())
		// a present pointer writes its target even when zero: -0 survives
		p.Elem().Set(c.Normalise(v.Elem(), opt, false))
		out.Set(p)
	case reflect.Struct:
		for _, f := range Fields(t) {
			out.Field(f.GoIndex).Set(c.Normalise(v.Field(f.GoIndex), f.Opt, true))
		}
	case reflect.Slice:
		if t == BytesT {
			if v.Len() > 0 {
				out.SetBytes(append([]byte(nil), v.Bytes()...))
			}
			return out
		}
		if v.Len() == 0 {
			return out
		}
		et := t.Elem()
		res := reflect.MakeSlice(t, 0, v.Len())
		for i := 0; i < v.Len(); i++ {
			e := v.Index(i)
			if et.Kind() == reflect.Ptr && e.IsNil() {
				if c.WireType(et, "") != WTLength {
					continue // dropped
				}
				// becomes a zero value: every pointer level present, pointing at the zero target
				z := reflect.New(et.Elem())
				for p := z; p.Type().Elem().Kind() == reflect.Ptr; p = p.Elem().Elem().Addr() {
					p.Elem().Set(reflect.New(p.Type().Elem().Elem()))
				}
				res = reflect.Append(res, z)
				continue
			}
			res = reflect.Append(res, c.Normalise(e, "", false))
		}
		if res.Len() > 0 {
			out.Set(res)
		}
	case reflect.Map:
		if v.IsNil() {
			return out
		}
		if opt == "proto" && v.Len() == 0 {
			return out
		}
		m := reflect.MakeMap(t)
		it := v.MapRange()
		for it.Next() {
			m.SetMapIndex(c.Normalise(it.Key(), "", true), c.Normalise(it.Value(), "", true))
		}
		out.Set(m)
	default:
		out.Set(v)
	}
	return out
}

// CheckUTC verifies that every non-zero time in v is in UTC ("" = ok)
func CheckUTC(v reflect.Value, path string) string {
	if v.Type() == TimeT {
		tm := v.Interface().(time.Time)
		if !tm.IsZero() && tm.Location() != time.UTC {
			return fmt.Sprintf("%s: time %v is not in UTC", path, tm)
		}
		return ""
	}
	switch v.Kind() {
	case reflect.Ptr:
		if !v.IsNil() {
			return CheckUTC(v.Elem(), path)
		}
	case reflect.Slice:
		for i := 0; i < v.Len(); i++ {
			if d := CheckUTC(v.Index(i), fmt.Sprintf("%s[%d]", path, i)); d != "" {
				return d
			}
		}
	case reflect.Map:
		it := v.MapRange()
		for it.Next() {
			if d := CheckUTC(it.Key(), path+".key"); d != "" {
				return d
			}
			if d := CheckUTC(it.Value(), path+".value"); d != "" {
				return d
			}
		}
	case reflect.Struct:
		for i := 0; i < v.NumField(); i++ {
			if v.Type().Field(i).IsExported() {
				if d := CheckUTC(v.Field(i), path+"."+v.Type().Field(i).Name); d != "" {
					return d
				}
			}
		}
	}
	return ""
}
