package gen

import (
	"encoding/json"
	"math"
	"math/rand/v2"
	"reflect"
	"strconv"
	"strings"
	"time"

	"github.com/unravelin/null"

	"verifharness/model"
)

// VG generates boundary-biased values.
type VG struct {
	R *rand.Rand
	C model.Cfg
	// Finite: no NaN/Inf, times within years 1..9999 (JSON-renderable)
	Finite bool
	// NoNegFlat: narrow flat ints stay non-negative (D21 exclusion of C13)
	NoNegFlat bool
	// ValidUTF8Keys: string map keys are valid UTF-8 and distinct after JSON escaping (C13)
	ValidUTF8 bool
	// EmptyNumber: json.Number values may be the empty string (C05's codec laws only: no JSON text holds it)
	EmptyNumber bool
	// Budget bounds the total number of containers/elements generated for one value
	Budget int
	// NoSNaN: float32 NaNs stay quiet (protobuf-go carries a float32 as a float64, which quiets them)
	NoSNaN bool
	// Unique, when set, makes two strings in three never-seen-before values ("u<counter>")
	Unique *int
}

// boundaries of the varint groups, zig-zag edges, width limits
var intBounds = func() []int64 {
	var out []int64
	for k := 0; k <= 63; k++ {
		p := int64(1) << uint(k)
		out = append(out, p-1, p, p+1, -p+1, -p, -p-1)
	}
	out = append(out, 0, math.MaxInt64, math.MinInt64, math.MaxInt32, math.MinInt32, math.MaxInt16, math.MinInt16, math.MaxInt8, math.MinInt8)
	return out
}()

var floatVals = []float64{0, math.Copysign(0, -1), 1, -1, 0.5, -1.5, 3.14, 1e21, 1e20, 1e-7, 1e-6, 123456789.125, math.MaxFloat64, -math.MaxFloat64,
	math.SmallestNonzeroFloat64, -math.SmallestNonzeroFloat64, math.MaxFloat32, math.SmallestNonzeroFloat32, 1 << 53, 1<<53 + 2, math.Inf(1), math.Inf(-1), math.NaN(),
	math.Float64frombits(0x7ff8000000000001), math.Float64frombits(0xfff0000000000001),
	// the edges of the integer types, as floats: whole numbers a formatter may want to print as integers
	1 << 63, -(1 << 63), 1 << 64, 1 << 62, 9223372036854774784, -9223372036854774784, 1 << 31, -(1 << 31), 1 << 32, 1<<31 - 1, 1 << 24, 1<<24 + 1, 1e15, 1e16, 999999999999999.9}

var stringVals = []string{"", "", "a", "ab", "\x00", "\x00\x00", " ", "héllo", "日本語", "  ", "\"quoted\"", "back\\slash", "tab\tnl\ncr\r", "\x01\x1f\x7f",
	"\xff", "\xff\xfe\xfd", "a\xc3", "\xed\xa0\x80", "\u2028\u2029", "₩ ✨ ∩ ∨", "\u2027\u202a", "\xe2\x80", "\xe2\x80\xa7", strings.Repeat("x", 127), strings.Repeat("y", 128), strings.Repeat("z", 129), strings.Repeat("w", 300)}

var longStrings = []string{strings.Repeat("L", 16383), strings.Repeat("M", 16384), strings.Repeat("N", 16385)}

var timeVals = []time.Time{
	{}, time.Unix(0, 0).UTC(), time.Unix(0, 1).UTC(), time.Unix(-1, 999999999).UTC(), time.Unix(1, 0).UTC(), time.Unix(63, 0).UTC(), time.Unix(64, 0).UTC(),
	time.Unix(1<<31-1, 999999999).UTC(), time.Unix(1<<31, 0).UTC(), time.Unix(1<<33, 5).UTC(), time.Unix(-1<<31, 0).UTC(),
	time.Date(1, 1, 1, 0, 0, 0, 1, time.UTC), time.Date(1, 1, 1, 0, 0, 1, 0, time.UTC), time.Date(9999, 12, 31, 23, 59, 59, 999999999, time.UTC),
	time.Date(1969, 12, 31, 23, 59, 59, 500000000, time.UTC), time.Date(2020, 2, 29, 12, 0, 0, 0, time.FixedZone("x", 3600)),
	time.Date(2024, 6, 1, 1, 2, 3, 4000, time.FixedZone("", -7*3600)), time.Date(1600, 1, 1, 0, 0, 0, 0, time.UTC), time.Date(2262, 4, 11, 23, 47, 16, 854775807, time.UTC),
	time.Date(2500, 1, 1, 0, 0, 0, 0, time.UTC), time.Date(-100, 1, 1, 0, 0, 0, 0, time.UTC), time.Date(12000, 1, 1, 0, 0, 0, 0, time.UTC),
	// the zero instant carrying a location: IsZero() is true, == time.Time{} is false
	time.Time{}.In(time.FixedZone("z", 5*3600)), time.Time{}.Local(), time.Unix(-62135596800, 0), time.Unix(-62135596800, 1).In(time.FixedZone("", -3600)),
}

func (g *VG) spend(n int) bool {
	g.Budget -= n
	return g.Budget >= 0
}

func (g *VG) int64() int64 {
	switch g.R.IntN(10) {
	case 0:
		return 0
	case 1, 2, 3, 4, 5:
		return intBounds[g.R.IntN(len(intBounds))]
	case 6:
		return int64(g.R.IntN(200)) - 100
	}
	return int64(g.R.Uint64() >> uint(g.R.IntN(64)))
}

func (g *VG) float() float64 {
	for {
		var f float64
		if g.R.IntN(4) == 0 {
			f = math.Float64frombits(g.R.Uint64())
		} else {
			f = floatVals[g.R.IntN(len(floatVals))]
		}
		if g.Finite && (math.IsNaN(f) || math.IsInf(f, 0)) {
			continue
		}
		return f
	}
}

func (g *VG) str() string {
	if g.Unique != nil && g.R.IntN(3) != 0 {
		*g.Unique++
		return "u" + strconv.Itoa(*g.Unique)
	}
	for {
		var s string
		switch n := g.R.IntN(40); {
		case n == 0 && g.spend(200):
			s = longStrings[g.R.IntN(len(longStrings))]
		case n < 30:
			s = stringVals[g.R.IntN(len(stringVals))]
		default:
			l := g.R.IntN(12)
			b := make([]byte, l)
			for i := range b {
				b[i] = byte(g.R.IntN(256))
			}
			s = string(b)
		}
		if g.ValidUTF8 && s != strings.ToValidUTF8(s, "�") {
			continue
		}
		return s
	}
}

func (g *VG) time() time.Time {
	for {
		var t time.Time
		switch g.R.IntN(5) {
		case 0:
			t = time.Unix(g.int64()>>uint(2+g.R.IntN(30)), int64(g.R.IntN(1_000_000_000))).UTC()
		case 1:
			// a monotonic reading and the local zone, but a deterministic instant
			now := time.Now()
			t = now.Add(timeVals[3+g.R.IntN(8)].Sub(now))
		default:
			t = timeVals[g.R.IntN(len(timeVals))]
		}
		if g.Finite && !t.IsZero() && (t.UTC().Year() < 1 || t.UTC().Year() > 9999) {
			continue
		}
		// plenc keeps seconds and nanoseconds as int64/int32: everything time.Time holds survives
		return t
	}
}

// Value generates a value of type t. opt is the field option in force.
func (g *VG) Value(t reflect.Type, opt string) reflect.Value {
	v := reflect.New(t).Elem()
	g.fill(v, opt, false, 0)
	return v
}

func (g *VG) fill(v reflect.Value, opt string, key bool, depth int) {
	t := v.Type()
	switch t {
	case model.TimeT:
		tm := g.time()
		if key {
			tm = tm.UTC().Round(0)
		}
		v.Set(reflect.ValueOf(tm))
		return
	case model.NullIntT:
		v.Set(reflect.ValueOf(null.NewInt(g.int64(), g.R.IntN(3) != 0)))
		return
	case model.NullBoolT:
		v.Set(reflect.ValueOf(null.NewBool(g.R.IntN(2) == 0, g.R.IntN(3) != 0)))
		return
	case model.NullFloatT:
		v.Set(reflect.ValueOf(null.NewFloat(g.float(), g.R.IntN(3) != 0)))
		return
	case model.NullStringT:
		v.Set(reflect.ValueOf(null.NewString(g.str(), g.R.IntN(3) != 0)))
		return
	case model.NullTimeT:
		v.Set(reflect.ValueOf(null.NewTime(g.time(), g.R.IntN(3) != 0)))
		return
	case model.JSONMapT:
		if g.C.JSONAny {
			if m, ok := g.JSON(3, 6).(map[string]any); ok || g.R.IntN(2) == 0 {
				v.Set(reflect.ValueOf(m))
			} else {
				v.Set(reflect.ValueOf(map[string]any{"k": g.JSON(2, 0)}))
			}
			return
		}
	case model.JSONArrayT:
		if g.C.JSONAny {
			if a, ok := g.JSON(3, 5).([]any); ok || g.R.IntN(2) == 0 {
				v.Set(reflect.ValueOf(a))
			} else {
				v.Set(reflect.ValueOf([]any{g.JSON(2, 0), nil}))
			}
			return
		}
	}
	switch t.Kind() {
	case reflect.Bool:
		v.SetBool(g.R.IntN(2) == 0)
	case reflect.Int, reflect.Int8, reflect.Int16, reflect.Int32, reflect.Int64:
		x := g.int64()
		// fit the width, keeping boundary-ness: truncate
		switch t.Bits() {
		case 8:
			x = int64(int8(x))
		case 16:
			x = int64(int16(x))
		case 32:
			x = int64(int32(x))
		}
		if g.R.IntN(12) == 0 {
			// the limits of the width itself
			lim := int64(1)<<uint(t.Bits()-1) - 1
			x = []int64{lim, -lim - 1, lim - 1, -lim}[g.R.IntN(4)]
		}
		if g.NoNegFlat && opt == "flat" && t.Bits() < 64 && x < 0 {
			x = -(x + 1)
		}
		v.SetInt(x)
	case reflect.Uint, reflect.Uint8, reflect.Uint16, reflect.Uint32, reflect.Uint64:
		x := uint64(g.int64())
		if t.Bits() < 64 {
			x &= 1<<uint(t.Bits()) - 1
		}
		if g.R.IntN(12) == 0 {
			x = ^uint64(0) >> uint(64-t.Bits())
		}
		v.SetUint(x)
	case reflect.Float32:
		f := g.float()
		if g.R.IntN(3) == 0 {
			f = float64(math.Float32frombits(g.R.Uint32()))
		}
		f32 := float32(f)
		if g.Finite && (math.IsInf(float64(f32), 0) || math.IsNaN(float64(f32))) {
			f32 = 1.5
		}
		if key && f32 != f32 {
			f32 = 2
		}
		v.SetFloat(float64(f32))
		if f32 != f32 && !g.NoSNaN && g.R.IntN(2) == 0 {
			// NaNs of every payload, signalling ones included: the bit pattern is what is encoded
			model.SetF32Bits(v, []uint32{0x7f800001, 0xff800001, 0x7fbfffff, 0x7fc00001, 0xffc12345, 0x7f812345}[g.R.IntN(6)])
		}
	case reflect.Float64:
		f := g.float()
		if key && f != f {
			f = 2
		}
		v.SetFloat(f)
	case reflect.String:
		v.SetString(g.str())
	case reflect.Ptr:
		n := g.R.IntN(10)
		if n < 3 || depth > 12 || !g.spend(1) {
			return // nil
		}
		p := reflect.New(t.Elem())
		if n < 5 {
			// pointer to the zero value (present zero)
			if t.Elem().Kind() == reflect.Ptr {
				// D4: a pointer to a nil pointer is not representable; keep both levels present
				g.fill(p.Elem(), opt, false, depth+1)
				if p.Elem().IsNil() {
					return
				}
			}
			if g.repeatedEmpty(p, opt) {
				return
			}
			v.Set(p)
			return
		}
		g.fill(p.Elem(), opt, false, depth+1)
		if t.Elem().Kind() == reflect.Ptr && p.Elem().IsNil() {
			return // D4
		}
		if g.repeatedEmpty(p, opt) {
			return
		}
		v.Set(p)
	case reflect.Struct:
		for _, f := range model.Fields(t) {
			g.fill(v.Field(f.GoIndex), f.Opt, key, depth+1)
		}
		// fields that are not encoded keep their zero value: what is not written cannot come back
	case reflect.Slice:
		if t == model.BytesT || t.Elem().Kind() == reflect.Uint8 {
			switch g.R.IntN(6) {
			case 0:
				return
			case 1:
				v.Set(reflect.MakeSlice(t, 0, 3))
				return
			}
			s := g.str()
			if g.R.IntN(4) == 0 {
				s = stringVals[g.R.IntN(len(stringVals))]
			}
			b := reflect.MakeSlice(t, len(s), len(s)+g.R.IntN(3))
			for i := 0; i < len(s); i++ {
				b.Index(i).SetUint(uint64(s[i]))
			}
			v.Set(b)
			return
		}
		n := []int{-1, 0, 1, 1, 2, 3, 5, 127, 128, 129}[g.R.IntN(10)]
		if n > 5 && (t.Elem().Kind() == reflect.Struct || t.Elem().Kind() == reflect.Map || t.Elem().Kind() == reflect.Slice || t.Elem().Kind() == reflect.Ptr) && !isSmall(t.Elem()) {
			n = 2
		}
		if n < 0 || depth > 12 {
			return
		}
		if !g.spend(n + 1) {
			n = 0
		}
		s := reflect.MakeSlice(t, n, n+g.R.IntN(3))
		for i := 0; i < n; i++ {
			g.fill(s.Index(i), "", false, depth+1) // nil pointer elements allowed
		}
		v.Set(s)
	case reflect.Map:
		n := []int{-1, 0, 1, 1, 2, 2, 3, 6}[g.R.IntN(8)]
		if n < 0 || depth > 12 {
			return
		}
		if !g.spend(2*n + 1) {
			n = 0
		}
		m := reflect.MakeMap(t)
		for i := 0; i < n; i++ {
			k := reflect.New(t.Key()).Elem()
			if g.R.IntN(4) != 0 { // zero keys often
				g.fill(k, "", true, depth+1)
			}
			e := reflect.New(t.Elem()).Elem()
			if g.R.IntN(4) != 0 { // zero values often
				g.fill(e, "", false, depth+1)
			}
			m.SetMapIndex(k, e)
		}
		v.Set(m)
	case reflect.Interface:
		if j := g.JSON(2, 0); j != nil {
			v.Set(reflect.ValueOf(j))
		}
	}
}

func isSmall(t reflect.Type) bool {
	switch t.Kind() {
	case reflect.Ptr:
		return isSmall(t.Elem())
	case reflect.Struct:
		return t == model.TimeT || t.NumField() <= 2
	case reflect.Slice, reflect.Map:
		return false
	}
	return true
}

// repeatedEmpty implements the D22 exclusion: a non-nil pointer to an empty
// repeated slice/map is not representable in the repeated-field form. p is a
// pointer value; the caller uses nil instead when this reports true.
func (g *VG) repeatedEmpty(p reflect.Value, opt string) bool {
	if !g.C.Repeated(p.Type(), opt) {
		return false
	}
	e := p
	for e.Kind() == reflect.Ptr {
		if e.IsNil() {
			return false
		}
		e = e.Elem()
	}
	return e.Len() == 0
}

// JSON generates a JSON-model value. top: 0 any, 5 array, 6 object
func (g *VG) JSON(depth int, top int) any {
	n := g.R.IntN(12)
	if top == 5 {
		n = 8
	} else if top == 6 {
		n = 9
	}
	if depth <= 0 && n >= 8 && n <= 9 {
		n = g.R.IntN(8)
	}
	switch n {
	case 0:
		return nil
	case 1:
		return g.R.IntN(2) == 0
	case 2:
		return int(g.int64())
	case 3:
		f := g.float()
		for math.IsNaN(f) || math.IsInf(f, 0) {
			f = g.float()
		}
		return f
	case 4, 5:
		return g.str()
	case 6:
		// valid JSON number literals, including ones no float64 or int64 can hold
		if g.EmptyNumber && g.R.IntN(6) == 0 {
			return json.Number("") // the zero value of the type: no literal at all
		}
		return json.Number([]string{"0", "-0", "1", "12345678901234567890123", "1.5e300", "-3.25", "1E-9", "1e400", "-2.5E+309", "1e-400", "9007199254740993",
			"1" + strings.Repeat("0", 320), "-" + strings.Repeat("9", 40) + "." + strings.Repeat("9", 40), "0.1e+1", "18446744073709551616"}[g.R.IntN(15)])
	case 7:
		return []any{nil, 0, "", 0.0, false, []any{}, map[string]any{}, []any(nil), map[string]any(nil)}[g.R.IntN(9)]
	case 8, 10:
		l := []int{-1, 0, 1, 2, 3, 5}[g.R.IntN(6)]
		if l < 0 {
			return []any(nil)
		}
		if !g.spend(l + 1) {
			l = 0
		}
		a := make([]any, l)
		for i := range a {
			a[i] = g.JSON(depth-1, 0)
		}
		return a
	default:
		l := []int{-1, 0, 1, 2, 3}[g.R.IntN(5)]
		if l < 0 {
			return map[string]any(nil)
		}
		if !g.spend(l + 1) {
			l = 0
		}
		m := make(map[string]any, l)
		for i := 0; i < l; i++ {
			k := g.str()
			if g.R.IntN(5) == 0 {
				k = ""
			}
			m[k] = g.JSON(depth-1, 0)
		}
		return m
	}
}
