// Package gen generates types, values, byte strings and histories from a seeded PRNG.
package gen

import (
	"fmt"
	"math/rand/v2"
	"reflect"
	"sort"
	"strings"

	"verifharness/model"
	"verifharness/types"
	v2 "verifharness/types/v2"
)

var scalars = []reflect.Type{
	reflect.TypeOf(false), reflect.TypeOf(int(0)), reflect.TypeOf(int8(0)), reflect.TypeOf(int16(0)), reflect.TypeOf(int32(0)), reflect.TypeOf(int64(0)),
	reflect.TypeOf(uint(0)), reflect.TypeOf(uint8(0)), reflect.TypeOf(uint16(0)), reflect.TypeOf(uint32(0)), reflect.TypeOf(uint64(0)),
	reflect.TypeOf(float32(0)), reflect.TypeOf(float64(0)), reflect.TypeOf(""), model.BytesT, model.TimeT,
}

// TG generates types that plenc must accept in configuration C.
type TG struct {
	R *rand.Rand
	C model.Cfg
	// Lib: use named/recursive library types as leaves
	Lib bool
	// NoRecursive: only types with a finite Descriptor
	NoRecursive bool
	// NoProtoOpt: never use the proto option (C13: the default-mode walker does not read repeated maps)
	NoProtoOpt bool
	// Skipped: add unexported and "-" fields
	Skipped bool
	// JSONTags: add json tags
	JSONTags bool
	// MaxFields per struct
	MaxFields int
	// AllMapsProto: every map field carries the proto option (C12's "map fields tagged proto")
	AllMapsProto bool
	// NoIndexZero: indexes are legal protobuf field numbers
	NoIndexZero bool
}

// hasPlainMap reports whether t contains a map field without the proto option
func hasPlainMap(t reflect.Type, seen map[reflect.Type]bool) bool {
	switch t.Kind() {
	case reflect.Ptr, reflect.Slice:
		return hasPlainMap(t.Elem(), seen)
	case reflect.Map:
		return true
	case reflect.Struct:
		if seen[t] {
			return false
		}
		seen[t] = true
		for i := 0; i < t.NumField(); i++ {
			sf := t.Field(i)
			ft := sf.Type
			for ft.Kind() == reflect.Ptr {
				ft = ft.Elem()
			}
			if ft.Kind() == reflect.Map {
				if !strings.Contains(sf.Tag.Get("plenc"), ",proto") || hasPlainMap(ft.Key(), seen) || hasPlainMap(ft.Elem(), seen) {
					return true
				}
				continue
			}
			if hasPlainMap(sf.Type, seen) {
				return true
			}
		}
	}
	return false
}

var fieldIndexes = []int{0, 1, 2, 3, 15, 16, 17, 2047, 2048, 3000}

// positions of a type within another
const (
	PosField = iota
	PosElem
	PosKey
	PosMapVal
	PosPtr
)

func (g *TG) leaf(pos int) reflect.Type {
	key := pos == PosKey
	// null.* carry their own presence: as slice elements or pointer targets an
	// invalid value cannot be represented (known finding D24), so they are
	// generated as struct fields and map values only
	nullOK := pos == PosField || pos == PosMapVal
	for {
		n := g.R.IntN(100)
		var t reflect.Type
		switch {
		case g.Lib && n < 12:
			t = types.NamedScalars[g.R.IntN(len(types.NamedScalars))]
		case g.C.Null && n < 22 && nullOK:
			t = []reflect.Type{model.NullIntT, model.NullBoolT, model.NullFloatT, model.NullStringT, model.NullTimeT}[g.R.IntN(5)]
		case g.C.JSONAny && n < 28 && !key:
			t = []reflect.Type{model.JSONMapT, model.JSONArrayT}[g.R.IntN(2)]
		default:
			t = scalars[g.R.IntN(len(scalars))]
		}
		if key && (t.Kind() == reflect.Slice || t == model.TimeT) {
			continue
		}
		return t
	}
}

// Type generates a type for a position (PosKey: must be a valid map key).
func (g *TG) Type(depth int, pos int) reflect.Type {
	key := pos == PosKey
	n := g.R.IntN(20)
	if depth <= 0 || n < 7 {
		return g.leaf(pos)
	}
	switch {
	case n < 10:
		for i := 0; i < 20; i++ {
			s := g.Struct(depth - 1)
			if key && (!s.Comparable() || hasRef(s)) {
				continue
			}
			return s
		}
		return g.leaf(pos)
	case n < 11 && g.Lib:
		for i := 0; i < 20; i++ {
			var t reflect.Type
			if g.R.IntN(3) == 0 {
				t = types.NamedContainers[g.R.IntN(len(types.NamedContainers))]
			} else {
				t = types.All[g.R.IntN(len(types.All))]
			}
			if g.NoRecursive && types.Recursive[t] {
				continue
			}
			if key && (!t.Comparable() || hasRef(t)) {
				continue
			}
			if g.C.Validate(t, "") != "" {
				continue
			}
			if g.NoProtoOpt && usesProtoOpt(t, map[reflect.Type]bool{}) {
				continue
			}
			if g.AllMapsProto && (t.Kind() == reflect.Map || hasPlainMap(t, map[reflect.Type]bool{})) {
				continue
			}
			return t
		}
		return g.leaf(pos)
	case n < 14 && !key:
		for i := 0; i < 20; i++ {
			e := g.Type(depth-1, PosElem)
			t := reflect.SliceOf(e)
			if g.C.Validate(t, "") == "" {
				return t
			}
		}
	case n < 17 && !key:
		for i := 0; i < 20; i++ {
			k := g.Type(depth-1, PosKey)
			v := g.Type(depth-1, PosMapVal)
			if !k.Comparable() {
				continue
			}
			t := reflect.MapOf(k, v)
			if g.C.Validate(t, "") == "" {
				return t
			}
		}
	case n < 20 && !key:
		e := g.Type(depth-1, PosPtr)
		if e.Kind() == reflect.Map || e.Kind() == reflect.Interface {
			return e
		}
		if e.Kind() == reflect.Ptr && g.R.IntN(4) != 0 {
			return e
		}
		return reflect.PointerTo(e)
	}
	return g.leaf(pos)
}

// hasRef: contains pointers, maps, slices or times (unusable / awkward as map keys)
// HasRef reports whether t contains pointers, maps, slices, times or null.* (awkward or unusable in map keys)
func HasRef(t reflect.Type) bool { return hasRef(t) }

func hasRef(t reflect.Type) bool {
	switch t.Kind() {
	case reflect.Ptr, reflect.Map, reflect.Slice, reflect.Interface:
		return true
	case reflect.Struct:
		if t == model.TimeT || t.PkgPath() == model.NullIntT.PkgPath() {
			// null.* keys: an invalid value's payload is not written, so the key changes identity
			return true
		}
		for i := 0; i < t.NumField(); i++ {
			if hasRef(t.Field(i).Type) {
				return true
			}
		}
	}
	return false
}

func usesProtoOpt(t reflect.Type, seen map[reflect.Type]bool) bool {
	switch t.Kind() {
	case reflect.Ptr, reflect.Slice:
		return usesProtoOpt(t.Elem(), seen)
	case reflect.Map:
		return usesProtoOpt(t.Key(), seen) || usesProtoOpt(t.Elem(), seen)
	case reflect.Struct:
		if seen[t] {
			return false
		}
		seen[t] = true
		for i := 0; i < t.NumField(); i++ {
			if strings.Contains(t.Field(i).Tag.Get("plenc"), ",proto") || usesProtoOpt(t.Field(i).Type, seen) {
				return true
			}
		}
	}
	return false
}

func init() {
	// same bare names, other fields: see package v2
	types.All = append(types.All, v2.All...)
}

var jsonNames = []string{"a", "b_c", "sea", "Ünï", "x y", "q\"uote", "-", "n,omitempty", ",omitempty", "z,string"}

// Struct generates an anonymous struct type
func (g *TG) Struct(depth int) reflect.Type {
	maxf := g.MaxFields
	if maxf == 0 {
		maxf = 6
	}
	nf := g.R.IntN(maxf + 1)
	// now and then a wide struct: more fields than a machine word has bits, scalar fields, dense
	// indexes from a random base in random order
	wide := g.MaxFields == 0 && g.R.IntN(40) == 0
	var wideIdx []int
	if wide {
		nf = 65 + g.R.IntN(80)
		wideIdx = g.R.Perm(nf + 8)
	}
	wideBase := []int{1, 1, 10, 120, 2040}[g.R.IntN(5)]
	var fs []reflect.StructField
	used := map[int]bool{}
	usedNames := map[string]bool{}
	for i := 0; i < nf; i++ {
		idx := fieldIndexes[g.R.IntN(len(fieldIndexes))]
		if g.R.IntN(6) == 0 {
			idx = g.R.IntN(5000)
		}
		if g.R.IntN(40) == 0 {
			// large indexes (bounded by 100000: known finding D29), around 2^16 and at the bound
			idx = []int{65535, 65536, 65537, 70000, 99999, 100000, 32767, 32768, 16383, 16384}[g.R.IntN(10)]
		}
		if wide {
			idx = wideBase + wideIdx[i]
		} else if len(used) > 0 && g.R.IntN(8) == 0 {
			// an index whose tag shares its leading bytes with the tag of an earlier field of the struct
			// (16 apart: same first byte bar the low bits; 2048 and 262144 apart: same first one / two bytes)
			var earlier []int
			for u := range used {
				earlier = append(earlier, u)
			}
			sort.Ints(earlier)
			idx = earlier[g.R.IntN(len(earlier))] + []int{16, 128, 2048, 4096, 2 * 2048, 262144 / 4}[g.R.IntN(6)]
		}
		if g.NoIndexZero && (idx == 0 || (idx >= 19000 && idx <= 19999)) {
			idx = 4
		}
		if used[idx] {
			continue
		}
		if g.Skipped && g.R.IntN(8) == 0 {
			// a field that is not encoded
			t := g.leaf(PosField)
			if g.R.IntN(2) == 0 {
				fs = append(fs, reflect.StructField{Name: fmt.Sprintf("S%d", i), Type: t, Tag: `plenc:"-"`})
			} else {
				// unexported fields are skipped whatever their tag says
				utag := []string{"", "", `plenc:"1"`, fmt.Sprintf(`plenc:"%d"`, idx), `plenc:"x"`, `plenc:"2,flat"`}[g.R.IntN(6)]
				// (unexported means "does not start with an upper-case letter": lower case, an underscore, or a
				// letter that has no case at all)
				uname := []string{"u", "u", "_", "_x", "秘", "ש", "ǅ", "é"}[g.R.IntN(8)]
				fs = append(fs, reflect.StructField{Name: fmt.Sprintf("%s%d", uname, i), PkgPath: "verifharness/gen", Type: t, Tag: reflect.StructTag(utag)})
			}
			continue
		}
		used[idx] = true
		var t reflect.Type
		if wide {
			t = g.leaf(PosField)
		} else {
			t = g.Type(depth, PosField)
		}
		opt := g.option(t)
		// the index is a decimal number however it is spelled: zero-padded, with a plus sign
		spell := "%d"
		if g.R.IntN(16) == 0 {
			spell = []string{"0%d", "00%d", "+%d", "%02d", "%03d"}[g.R.IntN(5)]
		}
		tg := fmt.Sprintf(`plenc:"`+spell+`%s"`, idx, opt)
		if g.JSONTags && g.R.IntN(4) == 0 {
			// descriptor names stay unique within a struct (duplicate keys have no meaning in JSON)
			jn := jsonNames[g.R.IntN(len(jsonNames))]
			if base, _, _ := strings.Cut(jn, ","); base == "" || !usedNames[base] {
				usedNames[base] = true
				tg += fmt.Sprintf(` json:%q`, jn)
			}
		}
		// exported names are not always ASCII: capitals of two, three and four UTF-8 bytes
		prefix := "F"
		if g.R.IntN(12) == 0 {
			prefix = []string{"Ä", "Ω", "Ж", "Ḃ", "Ｚ", "Ấ", "𝐀"}[g.R.IntN(7)]
		}
		fs = append(fs, reflect.StructField{Name: fmt.Sprintf("%s%d", prefix, i), Type: t, Tag: reflect.StructTag(tg)})
	}
	return reflect.StructOf(fs)
}

// option picks a valid tag option for a field of type t
func (g *TG) option(t reflect.Type) string {
	bt := t
	for bt.Kind() == reflect.Ptr {
		bt = bt.Elem()
	}
	if g.C.Validate(bt, "") != "" {
		return ""
	}
	k := bt.Kind()
	if bt == model.TimeT {
		if _, ok := g.C.Tagged[model.TypeTag{Type: model.TimeT, Tag: "flattime"}]; ok && g.R.IntN(4) == 0 {
			return ",flattime"
		}
		return ""
	}
	switch {
	case k >= reflect.Int && k <= reflect.Int64 && g.R.IntN(3) == 0:
		return ",flat"
	case (k == reflect.String || bt == model.NullStringT) && g.R.IntN(3) == 0:
		return ",intern"
	case ((k == reflect.Map && !g.AllMapsProto) || k == reflect.Slice) && bt != model.BytesT && g.R.IntN(10) == 0:
		// intern is accepted on containers too and changes nothing about their encoding: a slice of strings
		// is still counted, or repeated where the instance says so (round 11: q12)
		return ",intern"
	case k == reflect.Map && bt != model.JSONMapT && !g.NoProtoOpt && (g.AllMapsProto || g.R.IntN(3) == 0):
		if g.C.Validate(t, "proto") == "" {
			return ",proto"
		}
	case k == reflect.Slice && bt != model.BytesT && bt != model.JSONArrayT && !g.NoProtoOpt && g.R.IntN(4) == 0:
		if g.C.Validate(t, "proto") == "" {
			return ",proto"
		}
	case g.R.IntN(40) == 0 && bt != model.TimeT && bt != model.BytesT && g.C.Validate(t, "") == "" && k != reflect.Interface && bt.Kind() != reflect.Map && bt.Kind() != reflect.Slice:
		// intern is accepted (and ignored) on any type
		if k == reflect.Struct && (bt == model.NullIntT || bt == model.NullBoolT || bt == model.NullFloatT || bt == model.NullTimeT) {
			return ""
		}
		return ",intern"
	}
	return ""
}

// Top generates a top-level type: usually a struct, sometimes a library type,
// and in configurations without ProtoArrays sometimes a bare container or scalar
// Chain builds levels structs nested by value, each with a field before and after the nested one:
// deeper than any fixed-size per-level state a walker may keep
func (g *TG) Chain(levels int) reflect.Type {
	t := reflect.StructOf([]reflect.StructField{{Name: "V", Type: reflect.TypeOf(int32(0)), Tag: `plenc:"1"`}})
	for i := 0; i < levels; i++ {
		mid := t // (by value: the value generator stops at pointers and slices beyond depth 12)
		t = reflect.StructOf([]reflect.StructField{
			{Name: "A", Type: reflect.TypeOf(int8(0)), Tag: `plenc:"1"`},
			{Name: "N", Type: mid, Tag: `plenc:"2"`},
			{Name: "Z", Type: reflect.TypeOf(""), Tag: `plenc:"3"`},
		})
	}
	return t
}

func (g *TG) Top(depth int) reflect.Type {
	n := g.R.IntN(20)
	if g.MaxFields == 0 && g.R.IntN(40) == 0 {
		if t := g.Chain([]int{31, 32, 33, 34, 40, 63, 64, 65, 70}[g.R.IntN(9)]); g.C.Validate(t, "") == "" {
			return t
		}
	}
	switch {
	case n < 3 && g.Lib:
		for i := 0; i < 20; i++ {
			t := types.All[g.R.IntN(len(types.All))]
			if g.NoRecursive && types.Recursive[t] {
				continue
			}
			if g.NoProtoOpt && usesProtoOpt(t, map[reflect.Type]bool{}) {
				continue
			}
			if g.C.Validate(t, "") == "" {
				return t
			}
		}
	case n < 5 && !g.C.ProtoArrays:
		for i := 0; i < 20; i++ {
			t := stripPtr(g.Type(depth, PosElem))
			if t.Kind() == reflect.Interface || g.C.Validate(t, "") != "" {
				continue
			}
			return t
		}
	}
	return g.Struct(depth)
}

// stripPtr: a top-level value has no presence, so a top-level pointer type adds nothing
func stripPtr(t reflect.Type) reflect.Type {
	for t.Kind() == reflect.Ptr {
		t = t.Elem()
	}
	return t
}
