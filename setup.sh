#!/bin/bash
# MANIFEST.setup_cmd: build the driver and warm the Go build cache for the child lanes
set -e
export GOFLAGS=-mod=mod GOPROXY=off GOSUMDB=off GOTOOLCHAIN=local
cd /verif/driver && go build -o /verif/bin/verif .
cd /verif/harness
go build -tags verif -o /dev/null ./cmd/child
go build -tags verif -race -o /dev/null ./cmd/child
go build -tags verif -asan -o /dev/null ./cmd/child || echo "asan lane unavailable"
echo setup ok
