#!/bin/bash
# usage: tools/mutant.sh <patch.diff> [--suite] <PROP>...
# Applies the patch to a scratch copy of /repo (never to /repo), optionally runs the
# repo's own suite on it, runs the named checks against it via VERIF_REPO, removes the copy.
set -u
patch=$(realpath "$1"); shift
suite=0; if [ "${1:-}" = "--suite" ]; then suite=1; shift; fi
export GOFLAGS=-mod=mod GOPROXY=off GOSUMDB=off GOTOOLCHAIN=local
d=$(mktemp -d /tmp/mut.XXXXXX)
trap 'rm -rf "$d"' EXIT
git -C /repo archive HEAD | tar x -C "$d"
if ! (cd "$d" && patch -p1 -s < "$patch"); then echo "PATCH-FAILED $patch"; exit 3; fi
if ! (cd "$d" && go build ./... 2>&1 | tail -3); then echo "BUILD-FAILED"; exit 3; fi
if [ $suite = 1 ]; then
  if (cd "$d" && go test -vet=off -count=1 ./... 2>&1 | grep -q '^FAIL\|^--- FAIL'); then echo "SUITE-FAILS (not a valid mutant)"; else echo "suite passes"; fi
fi
rc=0
for p in "$@"; do
  out=$(VERIF_REPO="$d" /verif/bin/verif check "$p" 2>&1); code=$?
  echo "$p exit=$code $(echo "$out" | grep -c '^VIOLATION') violation lines; $(echo "$out" | grep -m1 '^  \[' | cut -c1-220)"
  [ $code = 1 ] || rc=1
done
exit $rc
