#!/bin/bash
# usage: tools/seeded.sh <src-dir-with patch.diff demo_test.go meta.json> <name> [PROP...]
# Confirms a seeded breaking change in scratch copies of /repo (never /repo itself):
#   1. the demonstration passes on the unchanged tree,
#   2. with the patch: the repository's own suite still passes and the demonstration fails,
#   3. runs the named checks (default: all) against the patched copy and records which fire.
# On success the change is kept as /verif/seeded/<name>/ with meta.json extended by what was run.
set -u
src=$(realpath "$1"); name=$2; shift 2
props="$*"; [ -z "$props" ] && props="C01 C02 C03 C04 C05 C06 C07 C08 C09 C10 C11 C12 C13 C14 C15 C16 C17 C18 C19 C20"
export GOFLAGS=-mod=mod GOPROXY=off GOSUMDB=off GOTOOLCHAIN=local
for f in patch.diff demo_test.go meta.json; do [ -f "$src/$f" ] || { echo "missing $src/$f"; exit 3; }; done
d=$(mktemp -d /tmp/seedchk.XXXXXX)
trap 'rm -rf "$d"' EXIT
git -C /repo archive HEAD | tar x -C "$d"
race=""; grep -q -- "-race" "$src/meta.json" && race="-race"
rundemo() { (cd "$d" && cp "$src/demo_test.go" demo_seeded_test.go && timeout 600 go test -vet=off -count=1 $race -run TestSeededDemo . >"$d/demo.log" 2>&1; rc=$?; rm -f demo_seeded_test.go; exit $rc); }
# failing tests of the repository's own suite, ignoring the known map-order flake of TestDescriptor; build failures count
suite() { (cd "$d" && go test -vet=off -count=1 ./... 2>&1 | grep -E '^--- FAIL|\[build failed\]|^panic:' | grep -v -- '--- FAIL: TestDescriptor '); }
echo "== $name: demonstration on the unchanged tree"
if rundemo; then echo "demo passes on the unchanged tree"; else echo "REJECT: demo fails on the unchanged tree"; tail -5 "$d/demo.log"; exit 1; fi
if ! (cd "$d" && git init -q . 2>/dev/null; git apply --whitespace=nowarn "$src/patch.diff" 2>"$d/apply.err" || patch -p1 -s < "$src/patch.diff" 2>>"$d/apply.err"); then echo "REJECT: patch does not apply"; cat "$d/apply.err"; exit 1; fi
rm -rf "$d/.git"
if ! (cd "$d" && go build ./... 2>&1 | tail -3 && go vet ./... >/dev/null 2>&1; go build ./...); then echo "REJECT: does not build"; exit 1; fi
echo "== suite with the change (two runs)"
f1=$(suite); f2=$(suite)
if [ -n "$f1$f2" ]; then echo "REJECT: the repository's own suite fails with the change:"; echo "$f1"; echo "$f2"; exit 1; fi
echo "suite passes with the change"
if rundemo; then echo "REJECT: demo passes with the change (does not demonstrate it)"; exit 1; else echo "demo fails with the change: $(grep -m1 -E 'FAIL|panic|DATA RACE|fatal' "$d/demo.log" | cut -c1-160)"; fi
echo "== checks against the patched copy"
results=""
for p in $props; do
  out=$(VERIF_REPO="$d" /verif/bin/verif check "$p" 2>&1); code=$?
  first=$(echo "$out" | grep -m1 '^  \[' | cut -c1-200)
  echo "$p exit=$code $first"
  results="$results$p:$code "
done
mkdir -p /verif/seeded/$name
cp "$src/patch.diff" "$src/demo_test.go" /verif/seeded/$name/
python3 - "$src/meta.json" "/verif/seeded/$name/meta.json" "$results" "$race" <<'EOF'
import json,sys,subprocess
try: m=json.load(open(sys.argv[1]))
except Exception as e: m={"summary":"(meta.json of the author did not parse: %s)"%e}
res=dict(x.split(':') for x in sys.argv[3].split())
m['confirmed']={'repo_commit':subprocess.check_output(['git','-C','/repo','rev-parse','--short','HEAD']).decode().strip(),
 'demo_passes_on_unchanged_tree':True,'suite_passes_with_change':True,'demo_fails_with_change':True,
 'ran':'tools/seeded.sh: scratch copy of /repo HEAD; demo via go test -run TestSeededDemo %s; suite twice; quick tier of the listed checks with VERIF_REPO pointing at the patched copy'%sys.argv[4],
 'checks_exit_codes':res,'caught_by':[p for p,c in res.items() if c=='1'],'missed_by_its_own_check': res.get(m.get('property',''),'')!='1'}
json.dump(m,open(sys.argv[2],'w'),indent=1)
print('caught by:',m['confirmed']['caught_by'])
EOF
