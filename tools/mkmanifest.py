#!/usr/bin/env python3
"""Regenerates /verif/MANIFEST.json. Claimed = properties with a workload in harness/work."""
import json, os, re, subprocess

V = '/verif'
src = ''.join(open(os.path.join(V, 'harness/work', f)).read() for f in os.listdir(os.path.join(V, 'harness/work')) if f.endswith('.go'))
built = set(re.findall(r'ID:\s+"(C\d\d)"', src))

T = {
 'C01': ('reference-model monitor (independent reflect-only Normalise/Equal oracle) over run-time-built and library types x boundary-biased values x 4 configurations; race/checkptr and ASan lanes in thorough',
         'Round trips of generated types and values are executed against the real Marshal/Unmarshal and compared with an oracle that shares no code with plenc. Sampling, not proof: held on the counted executions.', '4 C01'),
 'C02': ('byte-exact comparison of Marshal output with an independent encoder written from the documented format (canonical map order), golden files re-checked, plus shuffled-field decodes',
         'Every generated value is encoded by the real code and by an independent model of the documented wire format and compared byte for byte (maps up to entry order); field-permuted encodings are decoded by the real Unmarshal.', '4 C02'),
 'C03': ('metamorphic + model-checked decode monitor over random schema edit scripts (remove/add/rename/reorder at every depth) with non-zero prior targets',
         'Data of S is decoded by the real code into edited types S\' and compared field by field with the decode into S and with the reference decoder.', '4 C03'),
 'C04': ('hostile-input monitor: exhaustive short strings, truncations and mutations of valid encodings against ~40 target types in child processes with panic capture, CPU-time meter, allocation meter and guard-page inputs; ASan + go fuzz lanes in thorough',
         'Arbitrary bytes are fed to Unmarshal and Descriptor.Read; any panic, process death, CPU-time blow-up, out-of-input access or input-disproportionate allocation is a violation.', '4 C04'),
 'C05': ('online checker of the Codec laws (Size=len(Append), tagged framing = tag+len+body, Read consumes its body) on every codec reachable from generated types, plus a structural walk of every Marshal output to its exact end',
         'Each codec the real CodecForType returns for every sub-type of the generated types is called directly and its Size/Append/Read results are checked against each other; outputs are walked with an independent parser.', '4 C05'),
 'C06': ('append-contract monitor: prefixes of several lengths/capacities, buffer re-use, by-value vs by-pointer, repetitions; bytes compared with Marshal(nil,v)',
         'Marshal is called with hostile buffer shapes and its result compared with the prefix followed by the reference encoding.', '4 C06'),
 'C07': ('Go race detector over free-running concurrent first use on fresh instances + serialising PCT scheduler at verif yield hooks with a sequential reference instance as oracle + post-quiescence conformance',
         'Concurrent Marshal/Unmarshal/CodecForType on fresh instances of recursive type families; every result is compared with a sequentially built reference, the race detector watches the free-running lane, interleavings are counted by trace hash.', '4 C07'),
 'C08': ('definition-fault monitor: generated struct definitions with planted invalid constructs at every position; each CodecForType runs under panic capture and is classified reject / working codec',
         'For every generated definition the real CodecForType must either reject it or hand out a codec that round-trips; constructs the statement lists must be rejected; unexported and "-" fields are checked with sentinels.', '4 C08'),
 'C09': ('presence monitor on pointer / pointer-map-value / null.* positions x {absent, zero, empty, non-zero}, with Descriptor ExplicitPresence flags compared with the model',
         'Presence-bearing positions are generated systematically and nil-ness/Valid compared across the real round trip.', '4 C09'),
 'C10': ('history monitor: long seeded Marshal/Unmarshal histories on one instance with re-used targets, compared with a reference decoder implementing the merge rules; race lane with shared instance',
         'Decodes into populated targets are compared, by value, with an independent implementation of the stated merge rules; fresh-target decodes are re-issued along the history and must not change.', '4 C10'),
 'C11': ('aliasing monitor: deep snapshots, address-range overlap checks, input scribbling, PROT_READ input mappings that are munmapped before the decoded value is read',
         'The real Unmarshal reads from read-only mmap regions that are unmapped afterwards; any retained reference faults. Marshal arguments and prefixes are snapshotted and compared.', '4 C11'),
 'C12': ('proto-mode output parsed by an independent protobuf walker and by protobuf-go (dynamicpb with a generated descriptor); converse direction protobuf-go -> plenc; four-configuration metamorphic comparison',
         'plenc output in proto-compatible mode is parsed by a third-party protobuf implementation and compared field by field; protobuf-go serialisations are decoded by plenc.', '4 C12'),
 'C13': ('descriptor-walk monitor: JSON produced by Descriptor.Read parsed with encoding/json and matched against the value; descriptor round-tripped through plenc and encoding/json first',
         'The real Descriptor.Read + JSONOutput output is parsed by encoding/json and compared with the generated value in the JSON data model.', '4 C13'),
 'C14': ('structural comparison of Codec.Descriptor() with a descriptor derived independently from the reflect.Type',
         'The descriptor the real code returns is compared attribute by attribute with one computed from the type definition by the model.', '4 C14'),
 'C15': ('call-tree monitor: random and exhaustively enumerated small Outputter call trees, output parsed by encoding/json and compared with the tree; Reset/reuse histories',
         'JSONOutput is driven with generated well-nested call sequences and its output parsed by an independent JSON parser.', '4 C15'),
 'C16': ('JSON-model round-trip monitor for the JSON map/array codecs at top level, as a struct field and as a skipped unknown field, plus Descriptor rendering',
         'Random JSON-model trees are round-tripped through the real codecs and compared (nil == empty containers).', '4 C16'),
 'C17': ('marker-codec monitor: several Plenc instances with random options and registrations used in interleaved order (and concurrently under the race detector); output compared with the model parameterised by that instance only',
         'Registrations are made observable with marker codecs and every output is compared with what that instance alone should produce.', '4 C17'),
 'C18': ('differential monitor of the plenccore primitives against an independent varint/zig-zag reference and protowire; boundary-exhaustive, random, and (thorough) all 2^32 32-bit values',
         'Every primitive call is checked against two independent references. Exhaustive only for the 32-bit sub-space in the thorough tier; otherwise sampling.', '4 C18'),
 'C19': ('interning monitor: twin types with/without intern over seeded histories with a re-used, overwritten input buffer; retained strings re-verified later; race lane and yield-hook widened miss->insert window',
         'Decodes through intern-tagged fields are compared with the non-interned twin; every string ever returned is re-checked after the input buffer was overwritten and the table grew.', '4 C19'),
 'C20': ('black-box monitor of the real plenctag binary on generated Go files: AST diff, tag rules, gofmt fixed point, go/types check, real CodecForType on reflect twins, idempotence, all flag combinations',
         'The plenctag binary built from /repo is run on generated source files and its output checked by independent parsers and by plenc itself.', '4 C20'),
}
ASSUME = 'Trusted: the Go toolchain/runtime (go1.23.5), reflect, encoding/json, the race detector/ASan as shipped, and the harness model in /verif/harness/model (validated against the golden files and protobuf-go). Held on the executions counted in the evidence, not for all inputs.'

ids = ['C%02d' % i for i in range(1, 21)]
checks, na = [], []
for i in ids:
    if i in built:
        tech, text, ref = T[i]
        checks.append({
            'property_id': i,
            'quick_cmd': 'bin/verif check %s --tier quick' % i,
            'thorough_cmd': 'bin/verif check %s --tier thorough' % i,
            'evidence_file': '/verif/evidence/%s.json' % i,
            'replay_cmd_template': 'bin/verif replay {path}',
            'engine': 'verif',
            'level_claimed': {'category': 'exploration', 'text': text, 'design_ref': 'DESIGN.md §' + ref},
            'level_note': ASSUME,
            'technique': tech,
        })
    else:
        na.append({'property_id': i, 'reason': 'check not built yet (work in progress); the property is decidable by runtime monitoring, see DESIGN.md §4'})

hook_commits = subprocess.check_output(['git', '-C', '/repo', 'log', '--format=%H', '--grep=^verif hooks']).decode().split()
m = {
    'version': 1,
    'setup_cmd': './setup.sh',
    'hooks': {
        'guard': 'verif',
        'enable': 'go build -tags verif (the driver builds harness/cmd/child with -tags verif against the current /repo tree)',
        'baseline_off_cmd': 'cd /repo && GOFLAGS=-mod=mod GOPROXY=off GOSUMDB=off GOTOOLCHAIN=local go test -json -vet=off -count=1 -timeout 25m ./...',
        'source_commits': hook_commits,
        'add_only': True,
    },
    'engines': [{'name': 'verif', 'path': '/verif/bin/verif', 'serves_properties': sorted(built), 'kind_free_text': 'Go driver (std-lib only) that builds the harness child from /repo with -tags verif (+ -race / -asan), runs deterministic seeded case lists in sharded child processes with cursor-based resume-after-death, merges coverage and writes evidence'}],
    'checks': checks,
    'notes': 'Runtime monitoring only. Exit 0 = held on everything observed (KNOWN-FINDING lines allowed), 1 = VIOLATION line(s), 2 = broken/inconclusive (build failure, nothing observed, watchdog). known_findings.json lists genuine defects (fixed and known).',
}
m['not_applicable'] = na  # empty: every listed property is decided by a runtime monitor (DESIGN.md section 7 states the limits)
json.dump(m, open(os.path.join(V, 'MANIFEST.json'), 'w'), indent=1)
print('claimed', sorted(built), 'unclaimed', [x['property_id'] for x in na])
