#!/usr/bin/env python3
"""Regenerates known_findings.json from the witness list (harness/wit) and the fix: commits of /repo.
Run by hand when a finding is added or repaired - never at check time."""
import json, subprocess, re, glob
log=subprocess.check_output(['git','-C','/repo','log','--reverse','--format=%h %s']).decode().splitlines()
fixmap={
'D1':'fix: clear the pooled map key','D2':"fix: a map entry's value",'D3':'fix: BQTimestampCodec.Size','D5':'fix: reject slices of slices','D6':'fix: reject maps whose values','D7':'fix: nil entries in proto','D8':'fix: a proto map entry','D9':'fix: reject maps of maps','D10':'fix: Marshal by value','D11':'fix: Marshal returns the buffer','D12a':'fix: slice decoders','D12d':'fix: slice decoders','D12b':'fix: StructCodec.Read','D12c':'fix: StructCodec.Read','D12e':'fix: MapCodec.Read','D12f':'fix: TimeCodec','D12g':'fix: JSON map and array codecs','D12h':'fix: Skip never','D12i':'fix: Descriptor.Read validates','D13':'fix: do not publish','D14':'fix: a negative index','D15':'fix: skip every field','D16a':'fix: Descriptor.Read handles slices of bools','D16b':'fix: Descriptor.Read keeps zero-length','D16c':'fix: Descriptor.Read renders map','D16d':'fix: Descriptor.Read renders a JSON nil','D17':'fix: JSONArrayCodec.Read','D18':'fix: plenctag no longer','D19':'fix: plenctag gives','D23':'fix: nullFloatCodec.Size','D26':'fix: a tag option that selects no codec','D27':'fix: plenctag tags the exported names','D28':'fix: plenctag appends its tag','D31':'fix: plenctag panicked on a struct tag that holds only spaces','D32':'fix: plenctag wrote a tag holding a backquote','D33':'fix: Descriptor.Read handles slices of flat integers','D34':'fix: BQTimestampCodec.Read of an empty payload','D35':'fix: WTVarIntSliceWrapper.Read clears'}
fixmap.update(json.load(open('/verif/tools/fixmap_extra.json')) if glob.glob('/verif/tools/fixmap_extra.json') else {})
def commit(prefix):
    c=[l.split()[0] for l in log if l.split(' ',1)[1].startswith(prefix)]
    assert len(c)==1,(prefix,c)
    return c[0]
src=''.join(open(f).read() for f in sorted(glob.glob('/verif/harness/wit/*.go')))
also={'D1':['C10'],'D2':['C01'],'D3':['C01'],'D4':['C01'],'D5':['C12'],'D6':['C12'],'D8':['C01'],'D12h':['C04'],'D17':['C10'],'D20':['C13'],'D22':['C01'],'D23':['C01'],'D24':['C01'],'D25':['C08'],'D30':['C19'],'D34':['C08']}
avoid={'D4':'generators never produce a pointer to a nil pointer (**T with non-nil outer, nil inner)',
'D20':'C13/C14 workloads take Descriptor() of non-recursive types only',
'D21':'C13 value generator keeps flat int8/int16/int32 fields non-negative',
'D22':'proto-config generators never produce a non-nil pointer to an empty slice of length-delimited elements',
'D24':'type generators place null.* types only as struct fields and map values, never as slice elements or pointer targets'}
avoid.update(json.load(open('/verif/tools/avoid_extra.json')) if glob.glob('/verif/tools/avoid_extra.json') else {})
ents=[]
for m in re.finditer(r'\{ID: "(D\w+)", Property: "(C\d+)",(?: Fatal: true,)? What: "((?:[^"\\]|\\.)*)"', src):
    wid,prop,what=m.group(1),m.group(2),m.group(3).replace('\\"','"')
    e={'id':wid,'property':prop,'also_properties':also.get(wid,[]),'what':what,'witness':'harness/wit: witness '+wid+' (bin/verif witness '+wid+')'}
    if wid in fixmap:
        e['status']='fixed'; e['commit']=commit(fixmap[wid])
        e['line']='fixed: property=%s %s %s'%(prop,e['commit'],what)
    else:
        e['status']='known'; e['avoid']=avoid[wid]
    ents.append(e)
ents.sort(key=lambda e:(int(re.match(r'D(\d+)',e['id']).group(1)), e['id']))
json.dump({'note':'Genuine defects of philpearl/plenc found by the checks (DESIGN.md §5). status=fixed entries are repaired by the named fix: commit in /repo and suppress nothing: their witness is a regression case that must pass. status=known entries are findings recorded rather than repaired; the check of their property prints KNOWN-FINDING for them, and its generators stay out of exactly the stated trigger region (avoid). Never written at run time.','findings':ents}, open('/verif/known_findings.json','w'), indent=1)
print(len(ents), 'findings; known:', [e['id'] for e in ents if e['status']=='known'])
