#!/usr/bin/env python3
"""Fills the generated tables of DESIGN.md (defects, seeded changes) from known_findings.json and seeded/*/meta.json."""
import json, os, re
kf = json.load(open('/verif/known_findings.json'))['findings']
rows = ['| # | properties | what fails (witness) | disposition |', '|---|---|---|---|']
for e in kf:
    disp = ('fixed: `%s`' % e['commit']) if e['status'] == 'fixed' else '**known finding**; generators avoid: ' + e['avoid']
    props = e['property'] + (' ' + ' '.join(e['also_properties']) if e['also_properties'] else '')
    rows.append('| %s | %s | %s | %s |' % (e['id'], props, e['what'].replace('|', '/'), disp))
srows = ['| seeded change | property | what it does (author\'s summary) | caught by (quick tier) |', '|---|---|---|---|']
for d in sorted(os.listdir('/verif/seeded')):
    m = json.load(open('/verif/seeded/%s/meta.json' % d))
    srows.append('| %s | %s | %s | %s |' % (d, m.get('property', '?'), (m.get('summary', '') or '')[:260].replace('|', '/').replace('\n', ' '), ' '.join(m['confirmed']['caught_by'])))
s = open('/verif/DESIGN.md').read()
s = re.sub(r'<!-- DEFECT-TABLE-BEGIN -->.*?<!-- DEFECT-TABLE-END -->', lambda m: '<!-- DEFECT-TABLE-BEGIN -->\n' + '\n'.join(rows) + '\n<!-- DEFECT-TABLE-END -->', s, flags=re.S)
s = re.sub(r'<!-- SEEDED-TABLE-BEGIN -->.*?<!-- SEEDED-TABLE-END -->', lambda m: '<!-- SEEDED-TABLE-BEGIN -->\n' + '\n'.join(srows) + '\n<!-- SEEDED-TABLE-END -->', s, flags=re.S)
open('/verif/DESIGN.md', 'w').write(s)
print('tables written:', len(rows) - 2, 'defects,', len(srows) - 2, 'seeded changes')
