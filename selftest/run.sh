#!/bin/bash
# Sensitivity self-test: applies each breaking patch of selftest/mutants to a scratch copy of /repo
# (never to /repo), runs the quick tier of the checks named in selftest/expect.txt against it and
# reports whether they fire. Mutants marked "-" are equivalent: every check named after the colon
# in their line must stay silent. Writes selftest/RESULTS.md.
cd /verif
out=selftest/RESULTS.md
{ echo "# selftest results ($(git -C /repo rev-parse --short HEAD))"; echo; echo "| mutant | check | verdict | first violation |"; echo "|---|---|---|---|"; } > $out
fail=0
grep -v '^#' selftest/expect.txt | while read m props; do
  [ -z "$m" ] && continue
  f=selftest/mutants/$m.diff
  [ -f $f ] || { echo "| $m | - | MISSING PATCH | |" >> $out; continue; }
  if [ "$props" = "-" ]; then
    case $m in m_c07_*) props=C07;; m_c19_*) props=C19;; m_c15_*) props=C15;; esac
    res=$(tools/mutant.sh $f $props 2>&1 | grep "exit=")
    echo "$res" | while read line; do p=${line%% *}; if echo "$line" | grep -q "exit=0"; then echo "| $m | $p | silent (equivalent mutant) | |"; else echo "| $m | $p | **ALARM on equivalent mutant** | $(echo $line | cut -c1-160 | tr '|' '/') |"; fi; done >> $out
    continue
  fi
  res=$(tools/mutant.sh $f $props 2>&1 | grep "exit=")
  echo "$res" | while read line; do p=${line%% *}; if echo "$line" | grep -q "exit=1"; then echo "| $m | $p | caught | $(echo "$line" | sed 's/^[^;]*; *//' | cut -c1-140 | tr '|' '/') |"; else echo "| $m | $p | **MISSED** | $(echo $line | cut -c1-100) |"; fi; done >> $out
done
echo; grep -c "| caught |" $out | sed 's/^/caught: /'; grep -c "MISSED" $out | sed 's/^/missed: /'; grep -c "ALARM" $out | sed 's/^/false alarms: /'
