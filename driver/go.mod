module verifdriver

go 1.23
