// Command verif is the driver of the plenc runtime-monitoring harness. It is
// std-lib only so that it builds whatever state /repo is in. See DESIGN.md §1.
//
//	verif check <ID> [--tier quick|thorough]
//	verif replay <path>
//	verif witness <D-id>
package main

import (
	"bufio"
	"bytes"
	"crypto/sha256"
	"encoding/hex"
	"encoding/json"
	"fmt"
	"os"
	"os/exec"
	"path/filepath"
	"sort"
	"strconv"
	"strings"
	"sync"
	"syscall"
	"time"
)

var (
	verifDir = "/verif"
	repoDir  = "/repo"
)

func main() {
	if d := os.Getenv("VERIF_DIR"); d != "" {
		verifDir = d
	}
	if d := os.Getenv("VERIF_REPO"); d != "" {
		repoDir = d
	}
	if len(os.Args) < 2 {
		usage()
	}
	switch os.Args[1] {
	case "check":
		if len(os.Args) < 3 {
			usage()
		}
		tier := os.Getenv("VERIF_TIER")
		if tier == "" {
			tier = "quick"
		}
		for i := 3; i < len(os.Args); i++ {
			if os.Args[i] == "--tier" && i+1 < len(os.Args) {
				tier = os.Args[i+1]
				i++
			} else if strings.HasPrefix(os.Args[i], "--tier=") {
				tier = strings.TrimPrefix(os.Args[i], "--tier=")
			}
		}
		os.Exit(check(os.Args[2], tier))
	case "replay":
		if len(os.Args) < 3 {
			usage()
		}
		os.Exit(replay(os.Args[2]))
	case "witness":
		if len(os.Args) < 3 {
			usage()
		}
		os.Exit(witnessCmd(os.Args[2]))
	default:
		usage()
	}
}

func usage() {
	fmt.Fprintln(os.Stderr, "usage: verif check <ID> [--tier quick|thorough] | verif replay <path> | verif witness <id>")
	os.Exit(2)
}

func seed() int64 {
	if s := os.Getenv("VERIF_SEED"); s != "" {
		if v, err := strconv.ParseInt(s, 10, 64); err == nil {
			return v
		}
	}
	return 20261004
}

// ---- building ----

type builder struct {
	work    string // scratch dir of this run
	modfile string // non-empty when VERIF_REPO redirects the replace
}

func goEnv() []string {
	env := os.Environ()
	env = append(env, "GOFLAGS=-mod=mod", "GOPROXY=off", "GOSUMDB=off", "GOTOOLCHAIN=local", "CGO_ENABLED=1")
	return env
}

func newBuilder(tag string) (*builder, error) {
	work := filepath.Join(verifDir, ".work", fmt.Sprintf("%s-%d", tag, os.Getpid()))
	if err := os.MkdirAll(work, 0o755); err != nil {
		return nil, err
	}
	b := &builder{work: work}
	if repoDir != "/repo" {
		gm, err := os.ReadFile(filepath.Join(verifDir, "harness", "go.mod"))
		if err != nil {
			return nil, err
		}
		s := strings.Replace(string(gm), "=> /repo", "=> "+repoDir, 1)
		b.modfile = filepath.Join(work, "go.mod")
		if err := os.WriteFile(b.modfile, []byte(s), 0o644); err != nil {
			return nil, err
		}
		gs, _ := os.ReadFile(filepath.Join(verifDir, "harness", "go.sum"))
		os.WriteFile(filepath.Join(work, "go.sum"), gs, 0o644)
	}
	return b, nil
}

func (b *builder) cleanup() { os.RemoveAll(b.work) }

// child builds the child binary for a lane (plain, race, asan)
func (b *builder) child(lane string) (string, error) {
	out := filepath.Join(b.work, "child-"+lane)
	if _, err := os.Stat(out); err == nil {
		return out, nil
	}
	args := []string{"build", "-tags", "verif"}
	switch lane {
	case "race":
		args = append(args, "-race")
	case "asan":
		args = append(args, "-asan")
	case "checkptr":
		args = append(args, "-gcflags=all=-d=checkptr")
	}
	if b.modfile != "" {
		args = append(args, "-modfile="+b.modfile)
	}
	args = append(args, "-o", out, "./cmd/child")
	cmd := exec.Command("go", args...)
	cmd.Dir = filepath.Join(verifDir, "harness")
	cmd.Env = goEnv()
	if o, err := cmd.CombinedOutput(); err != nil {
		return "", fmt.Errorf("build of child (%s lane) failed: %v\n%s", lane, err, o)
	}
	return out, nil
}

func (b *builder) plenctag() (string, error) {
	out := filepath.Join(b.work, "plenctag")
	if _, err := os.Stat(out); err == nil {
		return out, nil
	}
	cmd := exec.Command("go", "build", "-o", out, "./cmd/plenctag")
	cmd.Dir = repoDir
	cmd.Env = goEnv()
	if o, err := cmd.CombinedOutput(); err != nil {
		return "", fmt.Errorf("build of plenctag failed: %v\n%s", err, o)
	}
	return out, nil
}

// ---- plan: what the child says it wants to run ----

type lanePlan struct {
	Lane     string `json:"lane"`
	Cases    int    `json:"cases"`
	Shards   int    `json:"shards"`
	MemMB    int    `json:"mem_mb"`    // ulimit -v for the shard, 0 = none
	TimeoutS int    `json:"timeout_s"` // wall watchdog per shard (firing = inconclusive)
	Plenctag bool   `json:"plenctag"`
}

type plan struct {
	Property   string     `json:"property"`
	Lanes      []lanePlan `json:"lanes"`
	Rule       string     `json:"rule"`
	Technique  string     `json:"technique"`
	Assume     []string   `json:"assumptions"`
	Exhaustive []string   `json:"exhaustive"`
}

// ---- shard results ----

type violation struct {
	Property string         `json:"property"`
	Lane     string         `json:"lane"`
	Tier     string         `json:"tier"`
	Seed     int64          `json:"seed"`
	Case     int            `json:"case"`
	Kind     string         `json:"kind"`
	Detail   string         `json:"detail"`
	Extra    map[string]any `json:"extra,omitempty"`
	Witness  string         `json:"witness,omitempty"`
}

type shardResult struct {
	Done     bool             `json:"done"`
	Counters map[string]int64 `json:"counters"`
	Distinct map[string][]uint64 `json:"distinct"`
	Samples  []any            `json:"samples"`
	Max      map[string]float64 `json:"max"`
}

type merged struct {
	mu         sync.Mutex
	counters   map[string]int64
	distinct   map[string]map[uint64]struct{}
	samples    []any
	max        map[string]float64
	violations []violation
	inconc     []string
	restarts   int
}

func (m *merged) add(r *shardResult) {
	m.mu.Lock()
	defer m.mu.Unlock()
	for k, v := range r.Counters {
		m.counters[k] += v
	}
	for k, hs := range r.Distinct {
		s := m.distinct[k]
		if s == nil {
			s = map[uint64]struct{}{}
			m.distinct[k] = s
		}
		for _, h := range hs {
			s[h] = struct{}{}
		}
	}
	if len(m.samples) < 8 {
		for _, s := range r.Samples {
			if len(m.samples) < 8 {
				m.samples = append(m.samples, s)
			}
		}
	}
	for k, v := range r.Max {
		if v > m.max[k] {
			m.max[k] = v
		}
	}
}

func runChild(bin string, args []string, env []string, memMB int, timeout time.Duration, logPath string) (exit int, timedOut bool) {
	var cmd *exec.Cmd
	if memMB > 0 {
		sh := fmt.Sprintf("ulimit -v %d; exec \"$0\" \"$@\"", memMB*1024)
		cmd = exec.Command("/bin/sh", append([]string{"-c", sh, bin}, args...)...)
	} else {
		cmd = exec.Command(bin, args...)
	}
	cmd.Env = env
	lf, err := os.OpenFile(logPath, os.O_CREATE|os.O_WRONLY|os.O_APPEND, 0o644)
	if err == nil {
		defer lf.Close()
		cmd.Stdout = lf
		cmd.Stderr = lf
	}
	cmd.SysProcAttr = &syscall.SysProcAttr{Setpgid: true}
	if err := cmd.Start(); err != nil {
		return 127, false
	}
	done := make(chan error, 1)
	go func() { done <- cmd.Wait() }()
	select {
	case <-done:
	case <-time.After(timeout):
		timedOut = true
		syscall.Kill(-cmd.Process.Pid, syscall.SIGQUIT)
		select {
		case <-done:
		case <-time.After(10 * time.Second):
			syscall.Kill(-cmd.Process.Pid, syscall.SIGKILL)
			<-done
		}
	}
	if ws, ok := cmd.ProcessState.Sys().(syscall.WaitStatus); ok && ws.Signaled() {
		return -int(ws.Signal()), timedOut // -9: SIGKILL
	}
	return cmd.ProcessState.ExitCode(), timedOut
}

func readCursor(path string) int {
	b, err := os.ReadFile(path)
	if err != nil {
		return -1
	}
	s := strings.TrimSpace(strings.TrimRight(string(b), "\x00 \n"))
	v, err := strconv.Atoi(s)
	if err != nil {
		return -1
	}
	return v
}

func readNote(path string) string {
	b, err := os.ReadFile(path)
	if err != nil {
		return ""
	}
	if i := bytes.IndexByte(b, 0); i >= 0 {
		b = b[:i]
	}
	return string(b)
}

func tailFile(path string, n int) string {
	b, err := os.ReadFile(path)
	if err != nil {
		return ""
	}
	if len(b) > n {
		b = b[len(b)-n:]
	}
	return string(b)
}

// deathSummary extracts the interesting line of a crashed child's log
func deathSummary(log string) string {
	sc := bufio.NewScanner(strings.NewReader(log))
	sc.Buffer(make([]byte, 1<<20), 1<<20)
	for sc.Scan() {
		l := sc.Text()
		if strings.HasPrefix(l, "fatal error:") || strings.HasPrefix(l, "panic:") || strings.Contains(l, "WARNING: DATA RACE") || strings.Contains(l, "ERROR: AddressSanitizer") || strings.HasPrefix(l, "unexpected fault address") || strings.HasPrefix(l, "SIGSEGV") || strings.HasPrefix(l, "runtime: ") || strings.Contains(l, "checkptr") {
			return l
		}
	}
	if len(log) > 300 {
		log = log[len(log)-300:]
	}
	return strings.TrimSpace(log)
}

func check(id, tier string) int {
	start := time.Now()
	if tier != "quick" && tier != "thorough" {
		fmt.Fprintln(os.Stderr, "bad tier", tier)
		return 2
	}
	sd := seed()
	b, err := newBuilder(id)
	if err != nil {
		fmt.Fprintln(os.Stderr, err)
		return 2
	}
	defer b.cleanup()

	plainBin, err := b.child("plain")
	if err != nil {
		fmt.Println("BROKEN: " + err.Error())
		return 2
	}
	// ask the child for its plan
	out, err := exec.Command(plainBin, "-plan", "-prop", id, "-tier", tier).Output()
	if err != nil {
		fmt.Printf("BROKEN: child -plan failed: %v\n%s\n", err, out)
		return 2
	}
	var pl plan
	if err := json.Unmarshal(out, &pl); err != nil {
		fmt.Printf("BROKEN: bad plan: %v\n", err)
		return 2
	}

	m := &merged{counters: map[string]int64{}, distinct: map[string]map[uint64]struct{}{}, max: map[string]float64{}}

	// pinned witnesses first
	kfLines, wviol := runWitnesses(b, id, plainBin, tier, sd)
	for _, l := range kfLines {
		fmt.Println(l)
	}
	m.violations = append(m.violations, wviol...)

	sem := make(chan struct{}, 16)
	var wg sync.WaitGroup
	for _, lp := range pl.Lanes {
		if only := os.Getenv("VERIF_ONLY_LANE"); only != "" && only != lp.Lane {
			continue // development aid: run a single lane
		}
		if lp.Lane == "fuzz" {
			if n, err := strconv.Atoi(os.Getenv("VERIF_FUZZ_EXECS")); err == nil && n > 0 {
				lp.Cases = n
			}
			wg.Add(1)
			go func(lp lanePlan) {
				defer wg.Done()
				runFuzzLane(b, m, id, tier, sd, lp)
			}(lp)
			continue
		}
		bin, err := b.child(lp.Lane)
		if err != nil {
			fmt.Println("BROKEN: " + err.Error())
			return 2
		}
		env := append(os.Environ(), "VERIF_SCRATCH="+b.work)
		if lp.Plenctag {
			pt, err := b.plenctag()
			if err != nil {
				// plenctag not building is a failure of the tree, not a violation
				fmt.Println("BROKEN: " + err.Error())
				return 2
			}
			env = append(env, "VERIF_PLENCTAG="+pt)
		}
		env = append(env, "VERIF_REPO="+repoDir)
		if lp.Lane == "race" {
			env = append(env, "GORACE=halt_on_error=0 history_size=3")
		}
		if lp.Lane == "asan" {
			env = append(env, "ASAN_OPTIONS=detect_leaks=0:abort_on_error=0:halt_on_error=1")
		}
		for sh := 0; sh < lp.Shards; sh++ {
			wg.Add(1)
			sem <- struct{}{}
			go func(lp lanePlan, sh int, bin string, env []string) {
				defer wg.Done()
				defer func() { <-sem }()
				runShard(b, m, id, tier, sd, lp, sh, bin, env)
			}(lp, sh, bin, env)
		}
	}
	wg.Wait()

	return finish(b, m, &pl, id, tier, sd, start)
}

func runShard(b *builder, m *merged, id, tier string, sd int64, lp lanePlan, sh int, bin string, env []string) {
	from := 0
	base := filepath.Join(b.work, fmt.Sprintf("%s-%s-%d", id, lp.Lane, sh))
	timeout := time.Duration(lp.TimeoutS) * time.Second
	if timeout == 0 {
		timeout = 20 * time.Minute
	}
	for attempt := 0; attempt < 25; attempt++ {
		outPath := fmt.Sprintf("%s.%d.out", base, attempt)
		curPath := fmt.Sprintf("%s.%d.cur", base, attempt)
		logPath := fmt.Sprintf("%s.%d.log", base, attempt)
		args := []string{"-prop", id, "-tier", tier, "-seed", strconv.FormatInt(sd, 10), "-lane", lp.Lane,
			"-shard", strconv.Itoa(sh), "-nshards", strconv.Itoa(lp.Shards), "-cases", strconv.Itoa(lp.Cases),
			"-from", strconv.Itoa(from), "-out", outPath, "-cursor", curPath}
		exit, timedOut := runChild(bin, args, env, lp.MemMB, timeout, logPath)
		res, viols := readShardOut(outPath)
		log := tailFile(logPath, 1<<20)
		// race reports do not kill the child: count them in its log
		if n := strings.Count(log, "WARNING: DATA RACE"); n > 0 {
			full, _ := os.ReadFile(logPath)
			for _, blk := range raceBlocks(string(full)) {
				viols = append(viols, violation{Property: id, Lane: lp.Lane, Tier: tier, Seed: sd, Case: -1 - sh, Kind: "data-race", Detail: blk,
					Extra: map[string]any{"shard": sh, "nshards": lp.Shards, "cases": lp.Cases}})
			}
		}
		m.mu.Lock()
		m.violations = append(m.violations, viols...)
		m.mu.Unlock()
		if res != nil {
			m.add(res)
		}
		if res != nil && res.Done && exit == 0 {
			return
		}
		if res != nil && res.Done && exit != 0 && !timedOut {
			// finished its cases but exited non-zero (race detector exit code 66)
			return
		}
		cur := readCursor(curPath)
		if timedOut {
			m.mu.Lock()
			m.inconc = append(m.inconc, fmt.Sprintf("%s lane shard %d: wall-clock watchdog (%s) fired at case %d", lp.Lane, sh, timeout, cur))
			m.mu.Unlock()
			return
		}
		if cur < 0 {
			m.mu.Lock()
			m.inconc = append(m.inconc, fmt.Sprintf("%s lane shard %d died (exit %d) before its first case: %s", lp.Lane, sh, exit, deathSummary(log)))
			m.mu.Unlock()
			return
		}
		if exit == -int(syscall.SIGKILL) && strings.TrimSpace(log) == "" {
			// killed from outside without a word: the kernel's out-of-memory killer picks whichever
			// process is largest at that moment; nothing can be attributed to the case in flight
			m.mu.Lock()
			m.inconc = append(m.inconc, fmt.Sprintf("%s lane shard %d was killed by SIGKILL (out-of-memory killer?) while running case %d; resumed after it", lp.Lane, sh, cur))
			m.restarts++
			m.mu.Unlock()
			from = cur + 1
			continue
		}
		// the child died (or bailed out) while running case cur
		if exit != 3 { // exit 3 = the child recorded the violation itself and asked to be resumed
			note := readNote(curPath + ".note")
			v := violation{Property: id, Lane: lp.Lane, Tier: tier, Seed: sd, Case: cur, Kind: "process-death",
				Detail: fmt.Sprintf("child exit %d while running case %d: %s\n  in flight: %s", exit, cur, deathSummary(log), note),
				Extra:  map[string]any{"shard": sh, "nshards": lp.Shards, "cases": lp.Cases}}
			m.mu.Lock()
			m.violations = append(m.violations, v)
			m.mu.Unlock()
		}
		m.mu.Lock()
		m.restarts++
		m.mu.Unlock()
		from = cur + 1
	}
	m.mu.Lock()
	m.inconc = append(m.inconc, fmt.Sprintf("%s lane shard %d: too many restarts", lp.Lane, sh))
	m.mu.Unlock()
}

// runFuzzLane runs Go's native fuzzer on the harness' fuzz target from a scratch copy of the
// harness (crashers land in the copy, never in /verif) for lp.Cases executions.
func runFuzzLane(b *builder, m *merged, id, tier string, sd int64, lp lanePlan) {
	dir := filepath.Join(b.work, "fuzzcopy")
	if out, err := exec.Command("cp", "-r", filepath.Join(verifDir, "harness"), dir).CombinedOutput(); err != nil {
		m.mu.Lock()
		m.inconc = append(m.inconc, "fuzz lane: copying the harness failed: "+string(out))
		m.mu.Unlock()
		return
	}
	if b.modfile != "" {
		gm, _ := os.ReadFile(b.modfile)
		os.WriteFile(filepath.Join(dir, "go.mod"), gm, 0o644)
	}
	cmd := exec.Command("go", "test", "-tags", "verif", "-run", "^$", "-fuzz", "FuzzDecode", "-fuzztime", fmt.Sprintf("%dx", lp.Cases), "./fuzz")
	cmd.Dir = dir
	cmd.Env = goEnv()
	timeout := time.Duration(lp.TimeoutS) * time.Second
	if timeout == 0 {
		timeout = time.Hour
	}
	done := make(chan struct{})
	var out []byte
	var err error
	go func() { out, err = cmd.CombinedOutput(); close(done) }()
	select {
	case <-done:
	case <-time.After(timeout):
		if cmd.Process != nil {
			cmd.Process.Kill()
		}
		<-done
		m.mu.Lock()
		m.inconc = append(m.inconc, fmt.Sprintf("fuzz lane: wall-clock watchdog (%s) fired", timeout))
		m.mu.Unlock()
		return
	}
	log := string(out)
	execs, interesting := int64(0), int64(0)
	for _, l := range strings.Split(log, "\n") {
		if i := strings.Index(l, "execs: "); i >= 0 {
			fmt.Sscanf(l[i:], "execs: %d", &execs)
		}
		if i := strings.Index(l, "(total: "); i >= 0 {
			fmt.Sscanf(l[i:], "(total: %d", &interesting)
		}
	}
	m.mu.Lock()
	defer m.mu.Unlock()
	m.counters["evaluations"] += execs
	m.counters["fuzz_executions"] += execs
	m.counters["fuzz_corpus_entries_with_new_coverage"] += interesting
	if err == nil && strings.Contains(log, "PASS") {
		return
	}
	if execs == 0 && !strings.Contains(log, "Failing input") && !strings.Contains(log, "C04 violation") {
		m.inconc = append(m.inconc, "fuzz lane did not run: "+trunc(log, 600))
		return
	}
	// a crasher: find the input the fuzzer wrote
	detail := trunc(log[max(0, len(log)-3000):], 3000)
	extra := map[string]any{}
	for _, l := range strings.Split(log, "\n") {
		if i := strings.Index(l, "testdata/fuzz/FuzzDecode/"); i >= 0 {
			name := strings.Fields(l[i:])[0]
			if c, err := os.ReadFile(filepath.Join(dir, "fuzz", name)); err == nil {
				extra["fuzz_corpus_file"] = string(c)
			}
		}
	}
	m.violations = append(m.violations, violation{Property: id, Lane: "fuzz", Tier: tier, Seed: sd, Case: -1, Kind: "fuzz-crasher", Detail: detail, Extra: extra})
}

// raceBlocks splits a race log into report blocks and de-duplicates them by the
// pair of outermost plenc frames
func raceBlocks(log string) []string {
	parts := strings.Split(log, "==================")
	seen := map[string]bool{}
	var out []string
	for _, p := range parts {
		if !strings.Contains(p, "WARNING: DATA RACE") {
			continue
		}
		key := raceKey(p)
		if seen[key] {
			continue
		}
		seen[key] = true
		if len(p) > 6000 {
			p = p[:6000]
		}
		out = append(out, strings.TrimSpace(p))
	}
	return out
}

func raceKey(block string) string {
	// the function names of plenc frames, line numbers stripped
	var fns []string
	for _, l := range strings.Split(block, "\n") {
		l = strings.TrimSpace(l)
		if strings.HasPrefix(l, "github.com/philpearl/plenc") {
			if i := strings.IndexByte(l, '('); i > 0 {
				l = l[:i]
			}
			fns = append(fns, l)
		}
	}
	if len(fns) > 6 {
		fns = fns[:6]
	}
	return strings.Join(fns, "|")
}

func readShardOut(path string) (*shardResult, []violation) {
	f, err := os.Open(path)
	if err != nil {
		return nil, nil
	}
	defer f.Close()
	var res *shardResult
	var viols []violation
	sc := bufio.NewScanner(f)
	sc.Buffer(make([]byte, 1<<20), 256<<20)
	for sc.Scan() {
		line := sc.Bytes()
		if len(line) == 0 {
			continue
		}
		var probe struct {
			T string `json:"t"`
		}
		if json.Unmarshal(line, &probe) != nil {
			continue
		}
		switch probe.T {
		case "viol":
			var v struct {
				V violation `json:"v"`
			}
			if json.Unmarshal(line, &v) == nil {
				viols = append(viols, v.V)
			}
		case "result":
			var r struct {
				R shardResult `json:"r"`
			}
			if json.Unmarshal(line, &r) == nil {
				res = &r.R
			}
		}
	}
	return res, viols
}

// ---- known findings / witnesses ----

type finding struct {
	ID       string   `json:"id"`
	Property string   `json:"property"`
	Also     []string `json:"also_properties"`
	What     string   `json:"what"`
	Status   string   `json:"status"`
	Commit   string   `json:"commit"`
}

func loadFindings() []finding {
	var kf struct {
		Findings []finding `json:"findings"`
	}
	b, err := os.ReadFile(filepath.Join(verifDir, "known_findings.json"))
	if err != nil {
		return nil
	}
	json.Unmarshal(b, &kf)
	return kf.Findings
}

func runOneWitness(b *builder, bin, wid string) (pass bool, detail string, inconclusive bool) {
	env := append(os.Environ(), "VERIF_SCRATCH="+b.work)
	needsTool := false
	for _, f := range loadFindings() {
		if f.ID == wid && f.Property == "C20" {
			needsTool = true
		}
	}
	if needsTool {
		pt, err := b.plenctag()
		if err != nil {
			return false, err.Error(), true
		}
		env = append(env, "VERIF_PLENCTAG="+pt)
	}
	logPath := filepath.Join(b.work, "witness-"+wid+".log")
	os.Remove(logPath)
	exit, timedOut := runChild(bin, []string{"-witness", wid}, env, 4000, 60*time.Second, logPath)
	log := tailFile(logPath, 1<<16)
	if timedOut {
		// every witness is a handful of calls on tiny inputs: not finishing in a minute is a hang
		return false, "witness did not terminate (hang)", false
	}
	if exit == 0 && strings.Contains(log, "WITNESS "+wid+" PASS") {
		return true, "", false
	}
	for _, l := range strings.Split(log, "\n") {
		if strings.HasPrefix(l, "WITNESS "+wid+" FAIL ") {
			d := strings.TrimPrefix(l, "WITNESS "+wid+" FAIL ")
			if strings.HasPrefix(d, "inconclusive:") {
				return false, d, true
			}
			return false, d, false
		}
	}
	return false, fmt.Sprintf("exit %d: %s", exit, deathSummary(log)), false
}

func runWitnesses(b *builder, id, bin, tier string, sd int64) (lines []string, viols []violation) {
	var mu sync.Mutex
	var wg sync.WaitGroup
	sem := make(chan struct{}, 16)
	for _, f := range loadFindings() {
		mine := f.Property == id
		for _, a := range f.Also {
			if a == id {
				mine = true
			}
		}
		if !mine {
			continue
		}
		wg.Add(1)
		sem <- struct{}{}
		go func(f finding) {
			defer wg.Done()
			defer func() { <-sem }()
			pass, detail, inconc := runOneWitness(b, bin, f.ID)
			mu.Lock()
			defer mu.Unlock()
			switch {
			case inconc:
				lines = append(lines, fmt.Sprintf("NOTE: witness %s inconclusive: %s", f.ID, detail))
			case f.Status == "known" && !pass:
				lines = append(lines, fmt.Sprintf("KNOWN-FINDING: property=%s %s [%s: %s]", id, f.What, f.ID, detail))
			case f.Status == "known" && pass:
				lines = append(lines, fmt.Sprintf("NOTE: known finding %s no longer reproduces", f.ID))
			case f.Status == "fixed" && !pass:
				viols = append(viols, violation{Property: id, Tier: tier, Seed: sd, Case: -1, Kind: "regression-of-fixed-defect", Witness: f.ID,
					Detail: fmt.Sprintf("%s (%s, fixed in %s) is back: %s", f.ID, f.What, f.Commit, detail)})
			}
		}(f)
	}
	wg.Wait()
	sort.Strings(lines)
	return lines, viols
}

func witnessCmd(wid string) int {
	b, err := newBuilder("witness")
	if err != nil {
		fmt.Fprintln(os.Stderr, err)
		return 2
	}
	defer b.cleanup()
	bin, err := b.child("plain")
	if err != nil {
		fmt.Println("BROKEN: " + err.Error())
		return 2
	}
	pass, detail, inconc := runOneWitness(b, bin, wid)
	switch {
	case inconc:
		fmt.Println("INCONCLUSIVE", wid, detail)
		return 2
	case pass:
		fmt.Println("PASS", wid)
		return 0
	}
	fmt.Println("FAIL", wid, detail)
	return 1
}

// ---- verdict and evidence ----

func finish(b *builder, m *merged, pl *plan, id, tier string, sd int64, start time.Time) int {
	// write replay files; de-duplicate violations by (kind, first 120 chars of detail)
	// evidence belongs to /repo itself: runs against a scratch copy (mutants, seeded changes) write
	// theirs under .work so that they can never be committed by accident
	evDir := filepath.Join(verifDir, "evidence")
	if repoDir != "/repo" {
		evDir = filepath.Join(verifDir, ".work", "scratch-evidence")
	}
	replayDir := filepath.Join(evDir, "replay")
	seen := map[string]bool{}
	var printed []string
	nviol := 0
	for _, v := range m.violations {
		nviol++
		k := v.Kind + "|" + v.Lane + "|" + trunc(v.Detail, 100)
		if seen[k] {
			continue
		}
		seen[k] = true
		if len(printed) >= 25 {
			continue
		}
		os.MkdirAll(replayDir, 0o755)
		js, _ := json.MarshalIndent(v, "", " ")
		h := sha256.Sum256(js)
		p := filepath.Join(replayDir, fmt.Sprintf("%s-%s.json", id, hex.EncodeToString(h[:6])))
		os.WriteFile(p, js, 0o644)
		printed = append(printed, fmt.Sprintf("VIOLATION property=%s replay=%s", id, p))
		fmt.Printf("  [%s lane=%s case=%d] %s\n", v.Kind, v.Lane, v.Case, trunc(v.Detail, 600))
	}
	for _, l := range printed {
		fmt.Println(l)
	}

	if n := m.counters["inconclusive_trials"]; n > 0 {
		m.inconc = append(m.inconc, fmt.Sprintf("%d trial(s) were abandoned by their own wall-clock watchdog (neither held nor violated)", n))
	}
	evals := m.counters["evaluations"]
	distinct := int64(len(m.distinct["nontrivial"]))
	cov := map[string]any{
		"evaluations":         evals,
		"distinct_nontrivial": distinct,
		"rule":                pl.Rule,
		"samples":             m.samples,
		"counters":            m.counters,
		"observed_max":        m.max,
		"lanes":               pl.Lanes,
		"child_restarts":      m.restarts,
		"inconclusive":        m.inconc,
	}
	ds := map[string]int{}
	for k, s := range m.distinct {
		ds[k] = len(s)
	}
	cov["distinct_sets"] = ds
	if len(pl.Exhaustive) > 0 {
		cov["exhaustive_subspaces"] = pl.Exhaustive
	}
	if m.samples == nil {
		cov["samples"] = []any{}
	}
	ev := map[string]any{
		"property_id": id,
		"tier":        tier,
		"seed":        sd,
		"level":       "exploration",
		"coverage":    cov,
		"assumptions": pl.Assume,
		"wall_s":      time.Since(start).Seconds(),
		"violations":  nviol,
		"technique":   pl.Technique,
	}
	js, _ := json.MarshalIndent(ev, "", " ")
	os.MkdirAll(evDir, 0o755)
	os.WriteFile(filepath.Join(evDir, id+".json"), append(js, '\n'), 0o644)

	if nviol > 0 {
		fmt.Printf("%s %s: %d violation(s) in %d evaluations (%.1fs)\n", id, tier, nviol, evals, time.Since(start).Seconds())
		return 1
	}
	if len(m.inconc) > 0 {
		for _, s := range m.inconc {
			fmt.Println("INCONCLUSIVE: " + s)
		}
		return 2
	}
	if evals == 0 || distinct < 2 || len(m.samples) == 0 {
		fmt.Printf("BROKEN: %s observed nothing (evaluations=%d distinct_nontrivial=%d)\n", id, evals, distinct)
		return 2
	}
	fmt.Printf("%s %s: held on %d evaluations, %d distinct non-trivial cases (%.1fs)\n", id, tier, evals, distinct, time.Since(start).Seconds())
	return 0
}

func trunc(s string, n int) string {
	if i := strings.Index(s, "\ngoroutine "); i > 0 && i < n {
		n = i
	}
	if len(s) > n {
		return s[:n] + "..."
	}
	return s
}

func replay(path string) int {
	js, err := os.ReadFile(path)
	if err != nil {
		fmt.Fprintln(os.Stderr, err)
		return 2
	}
	var v violation
	if err := json.Unmarshal(js, &v); err != nil {
		fmt.Fprintln(os.Stderr, err)
		return 2
	}
	if v.Witness != "" {
		return witnessCmd(v.Witness)
	}
	b, err := newBuilder("replay")
	if err != nil {
		fmt.Fprintln(os.Stderr, err)
		return 2
	}
	defer b.cleanup()
	lane := v.Lane
	if lane == "" {
		lane = "plain"
	}
	fuzzArg := ""
	if lane == "fuzz" {
		lane = "plain"
		if s, ok := v.Extra["fuzz_corpus_file"].(string); ok {
			fuzzArg = s
		}
	}
	bin, err := b.child(lane)
	if err != nil {
		fmt.Println("BROKEN: " + err.Error())
		return 2
	}
	env := append(os.Environ(), "VERIF_SCRATCH="+b.work, "VERIF_REPO="+repoDir)
	if v.Property == "C20" {
		pt, err := b.plenctag()
		if err != nil {
			fmt.Println("BROKEN: " + err.Error())
			return 2
		}
		env = append(env, "VERIF_PLENCTAG="+pt)
	}
	outPath := filepath.Join(b.work, "replay.out")
	logPath := filepath.Join(b.work, "replay.log")
	args := []string{"-prop", v.Property, "-tier", v.Tier, "-seed", strconv.FormatInt(v.Seed, 10), "-lane", lane, "-out", outPath, "-cursor", filepath.Join(b.work, "replay.cur"), "-verbose"}
	if fuzzArg != "" {
		args = append(args, "-arg", fuzzArg, "-only", "0")
	} else if h, _ := v.Extra["replay_from_shard_start"].(bool); h && v.Case >= 0 {
		// the violation depends on what the same process did before: re-run its shard up to the case
		sh, _ := v.Extra["shard"].(float64)
		ns, _ := v.Extra["nshards"].(float64)
		args = append(args, "-shard", strconv.Itoa(int(sh)), "-nshards", strconv.Itoa(int(ns)), "-cases", strconv.Itoa(v.Case+1))
	} else if v.Case >= 0 {
		args = append(args, "-only", strconv.Itoa(v.Case))
	} else {
		// a whole shard (race reports are not attributable to one case)
		sh, _ := v.Extra["shard"].(float64)
		ns, _ := v.Extra["nshards"].(float64)
		cs, _ := v.Extra["cases"].(float64)
		args = append(args, "-shard", strconv.Itoa(int(sh)), "-nshards", strconv.Itoa(int(ns)), "-cases", strconv.Itoa(int(cs)))
	}
	exit, timedOut := runChild(bin, args, env, 0, 30*time.Minute, logPath)
	_, viols := readShardOut(outPath)
	log, _ := os.ReadFile(logPath)
	os.Stdout.Write(bytes.TrimSpace(log))
	fmt.Println()
	if n := strings.Count(string(log), "WARNING: DATA RACE"); n > 0 {
		fmt.Printf("replay: %d race report(s)\n", n)
		return 1
	}
	if len(viols) > 0 {
		for _, vv := range viols {
			fmt.Printf("replay: [%s] %s\n", vv.Kind, vv.Detail)
		}
		return 1
	}
	if exit != 0 || timedOut {
		fmt.Printf("replay: child exit %d timedOut=%v\n", exit, timedOut)
		return 1
	}
	fmt.Println("replay: no violation reproduced")
	return 0
}
